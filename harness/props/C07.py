"""C07 — copying never disturbs the tree; extraction is faithful and loses nothing."""

import ast
import random

import c07_ops as ops
import corpus
import util
from framework import pmap

ID = 'C07'
LEAN_MODULES = ['Pfst.Props.C07']
THEOREMS = [
    'Pfst.C07.copy_pure', 'Pfst.C07.cut_eq', 'Pfst.C07.rebase_pos', 'Pfst.C07.rebase_tree', 'Pfst.C07.c2b_rebase',
    'Pfst.C07.copy_text_line', 'Pfst.C07.copy_text_first', 'Pfst.C07.copy_text_mid', 'Pfst.C07.copy_text_last',
    'Pfst.C07.copy_lines_length', 'Pfst.C07.dedent_text_line', 'Pfst.C07.dedent_pos_nonneg', 'Pfst.C07.copy_wf',
    'Pfst.C07.conservation', 'Pfst.C07.dedent_indent_line', 'Pfst.C07.dedent_indent',
    'Pfst.C07.restore_insert', 'Pfst.C07.restore_insert_span',
]
RULE = ('deterministic product first: every node copy and every slice [i:j] of every real AND virtual list field (_all, _args, '
        '_bases, _body, _attrs; all three routes get_slice/get/view at both ends) of fixed shapes on which pfst rewrites the '
        'source temporarily (sole generator-expression argument one-line and multi-line, parenthesis-less ClassDef, naked '
        'tuples / with items, decorators, MatchMapping rest, Compare._all, Call._args) and with multi-byte identifiers in every '
        'identifier position; then: every call of the real _make_fst_and_dedent made while copy()/get_slice()/cut()/view.copy() run on sampled nodes '
        'and on every slice [i:j] (bounded) of every list field of corpus programs (hand snippets, generated programs, '
        'layout/comment/paren mutations, stdlib chunks, generated programs with multi-line str/bytes/raw/f-string '
        'literals as statements / values / arguments in blocks 1-3 deep, and generated programs with statements and '
        'first-of-block def/class followed by blank and comment-only lines) with trivia (incl. +N / + / -N suffixes)/pars/'
        'norm/docstr varied is recorded by a harness-side '
        'wrapper (arguments before, new lines + every node position + source lines/positions after) and replayed through '
        'the Lean model; _dedent_lns/_indent_lns are additionally called directly on whole programs with assorted '
        'indent strings. The same executions are judged by CPython (ast.parse of the returned source, ast.dump before/'
        'after, tokenize multisets). distinct = distinct (lines, tree, arguments); non-trivial = the extracted piece is '
        'not the whole source')
TRUSTED = [
    'modelled: fst_core._make_fst_and_dedent (order of effects, rebase parameters, crop, prefix/suffix, skip, dedent, '
    'cut put), _get_src(as_lines), _dedent_lns, _indent_lns, _offset_lns, _put_src(tail=True) lines + offset; the rebase '
    'walk itself is the C11 model Pfst.Offset',
    'input of the model, validated per case against CPython tokenize: the lines _get_indentable_lns excludes (string '
    'continuation lines)',
    'not modelled (covered by the CPython-judged sweep only): copy_ast, _fix_copy/_fix_Tuple/_fix_Set/_fix_elif, the trivia '
    'span computation of slice_stmtlike/slice_exprlike, separator fix-ups after the extraction, _reparse_docstr_Constants',
    'sweep exclusions: parse-on-its-own is not demanded for pars=False and for 0/1-element expression-like slice results '
    'under norm=False (both documented as possibly invalid); virtual fields (_all, _body, _args, ...) are reached only '
    'through Dict; one-element BoolOp/Compare/MatchOr slices are not compared structurally (normalised to the element)',
    'literal values: every str/bytes constant of CPython\'s parse of the returned source is compared with the original; '
    'only str constants standing alone as an expression statement are compared modulo blanks (documented docstring '
    're-indentation); the lines the dedent may touch inside string tokens are limited to those same constants per case',
    '"never disturbs" is judged on: source text, ast.dump(include_attributes=True), every FST link (a.f.a, parent, pfield, '
    'root) before/after, the read-only entry points own_src/own_lines/dump/copy_ast/src/lines inside the same window, and a '
    'second identical call returning the identical piece; caches are not compared (filled lazily by reads, see C02)',
    'restore_insert / restore_insert_span are about the line edit _put_src (Pfst.Copy.putSrcLines, tied by the src_lines '
    'comparison of every recorded cut); the temporaries of the slice handlers themselves are tied only by the purity sweep',
    'recorded calls on a Compare whose operands are statement placeholders (temporary state of the _all handler) are tallied, '
    'not replayed',
    'remainder of a cut: wherever CPython reads the remainder source to the same structure as the remainder tree, all '
    'positions must agree (class remainder|pos!=parse); structural disagreements of the remainder are left to C01/C04',
    'token conservation counts identifiers, numbers, strings (modulo re-indentation of continuation lines), f-string '
    'middles and comments; keywords (except True/False/None) and the word `set` are structure the move may add or drop',
    'recorded calls whose put_loc has end before start (produced by the defect C07-F1 before its repair) lie outside the '
    'model domain (natural-number coordinates); they are tallied, not replayed, and reported through the sweep as '
    'put_loc-short',
]
ASSUMPTIONS = ['one copy/cut call is one atomic step',
               'geo (geometric order of the position tree, hypothesis of rebase_tree) holds of the trees used; evaluated '
               'by C11 on every real tree']

TRIVIA = [True, False, 'all', 'block', 'none', (), ('all', 'all'), ('block', 'all'), (False, 'line'), ('none', 'block'),
          'all+', 'block+1', ('all', 'block+'), ('block-', 'line-'), ('none', 'none'),
          (True, 'line+'), (True, 'line+1'), (True, 'line+2'), (True, 'line-2'), ('none', 'line+3'), (False, 'block+1'),
          ('block', 'all+1'), ('all-1', 'all-'), (True, 'none+2'), ('block+1', 'line-1'), ('+', '+'), ('-1', '+2'), ('line+',)]
PARS = [True, False, 'auto', 'auto']
NORM = [True, True, False]
DOCSTR = [True, False, 'strict']


def _opts(rng):
    o = {}
    if rng.random() < 0.8:
        o['trivia'] = rng.choice(TRIVIA)
    if rng.random() < 0.8:
        o['pars'] = rng.choice(PARS)
    o['norm'] = rng.choice(NORM)
    if rng.random() < 0.7:
        o['docstr'] = rng.choice(DOCSTR)
    if rng.random() < 0.1:
        o['set_norm'] = 'call'
    if rng.random() < 0.3:
        o['op_side'] = 'right'
    return o


def _mk(src):
    from fst import FST
    return FST(src, 'exec')


def _exc_name(e):
    return type(e).__name__


def _sig_field(target):
    p = target.parent
    return f'{p.a.__class__.__name__}.{target.pfield.name}' if p else 'root'


# ---------------------------------------------------------------------------------------------------------------------
# one operation on twins of one program

def _do_get(root, op, opts, cut):
    nodes = list(root.walk(True))
    t = nodes[op[1]]
    if op[0] == 'copy':
        return t.cut(**opts) if cut else t.copy(**opts)
    _, _, field, i, j, route = op
    if route == 'view':
        v = getattr(t, field)[i:j]
        return v.cut(**opts) if cut else v.copy(**opts)
    if route == 'get':
        return t.get(i, j, field, cut=cut, **opts)
    if field is None:
        return t.get_slice(i, j, cut=cut, **opts)
    return t.get_slice(i, j, field, cut=cut, **opts)


def _do_del(root, op, opts):
    nodes = list(root.walk(True))
    t = nodes[op[1]]
    if op[0] == 'copy':
        return t.remove(**opts)
    _, _, field, i, j, route = op
    if field is None:
        return t.put_slice(None, i, j, **opts)
    return t.put_slice(None, i, j, field, **opts)


def _is_virtual(field):
    return field is not None and field.startswith('_')


def _flen(t, field):
    """length of a real or virtual list field of FST node `t` (None = default field of Dict)"""
    if field is None:
        return len(t.a.keys)
    if _is_virtual(field):
        return len(getattr(t, field))
    return len(getattr(t.a, field))


def _header_line_first(t, op, n_field):
    """positions only: the cut starts with the first statement of a block, that statement sits on the block header line,
    and the statement after the cut sits on a later line (known defect C02-F2 / C07-F15)"""
    try:
        if op[0] == 'copy':
            par, lst, i = t.parent.a, getattr(t.parent.a, t.pfield.name), t.pfield.idx
            j = i + 1
        else:
            par = t.a
            lst = getattr(par, 'body' if op[2] == '_body' else op[2])
            off = len(lst) - n_field if op[2] == '_body' else 0
            i, j = op[3] + off, op[4] + off
        return (i == 0 and isinstance(lst, list) and j < len(lst) and lst[0].lineno == par.lineno
                and lst[j].lineno > lst[j - 1].end_lineno)
    except Exception:
        return False


def _view_sequence(src, op, opts, single):
    """copy, copy, cut, then copy / cut / len on the SAME view object. -> (class, what) or None"""
    from fst import FST
    V = _mk(src)
    t = list(V.walk(True))[op[1]]
    try:
        view = getattr(t, op[2])
        v = view.at(op[3], force_view=True) if single else view[op[3]:op[4]]
        n0 = len(v)
    except Exception:
        return None
    src0, dump0 = V.src, util.dump_pos(V.a)
    cls0 = t.a.__class__
    try:
        c1 = v.copy(**opts)
        c2 = v.copy(**opts)
    except Exception:
        return None
    if len(v) != n0:
        return ('view-changed-by-copy', f'has length {len(v)} after copy(), {n0} before')
    if V.src != src0 or util.dump_pos(V.a) != dump0:
        return ('source-changed', 'copy() through the view changed the tree read from')
    s1, s2 = getattr(c1, 'src', c1), getattr(c2, 'src', c2)
    if s1 != s2:
        return ('second-copy-differs', f'two copies through the same view differ: {s1!r} then {s2!r}')
    try:
        v.cut(**opts)
    except Exception:
        return None
    src1, dump1 = V.src, util.dump_pos(V.a)
    if t.a.__class__ is not cls0:
        return None            # norm collapsed the base node into its last element: the view has no base any more
    try:
        n1 = len(v)
    except Exception as e:
        return ('spent-view', f'len() of the view after its cut raised {e!r}')
    if n1 != 0:
        return ('spent-view', f'still has length {n1} after its contents were cut (remainder {src1[:80]!r})')
    again = None
    try:
        again = v.copy(**opts)
    except Exception:
        pass
    if isinstance(again, FST):
        el = ops.result_elems(again.a, t.a, op[2])
        if isinstance(el, list) and el and again.src.replace(' ', '') not in ('{*()}', 'set()'):     # normalised empty set
            return ('spent-view', f'copy() of the spent view returns live elements: {again.src!r}')
    try:
        v.cut(**opts)
    except Exception:
        pass
    if V.src != src1 or util.dump_pos(V.a) != dump1:
        try:
            same = ast.dump(ast.parse(V.src)) == ast.dump(ast.parse(src1)) and ops.token_bag(V.src) == ops.token_bag(src1)
        except SyntaxError:
            same = False
        if same:        # nothing was taken, but the (empty) cut rewrote blanks: a different, milder defect (C07-F21)
            return ('empty-cut-touches-source', f'a cut of nothing through the spent view changed the source text: '
                    + util.first_diff(V.src, src1))
        return ('spent-view', f'using the spent view again changed the tree: {src1[:80]!r} -> {V.src[:80]!r}')
    return None


def _links(root):
    """every FST link of the tree: node class, pfield, parent AST identity, a.f.a round trip, root pointer"""
    out = []
    for a in ast.walk(root.a):
        f = getattr(a, 'f', None)
        if f is None:
            out.append((a.__class__.__name__, 'NO-FST'))
            continue
        pf = f.pfield
        out.append((a.__class__.__name__, pf.name if pf else None, pf.idx if pf else None,
                    id(f.parent.a) if f.parent else None, f.a is a, f.root is root))
    return out


def _orig_elems(a, field, i, j):
    if field is None and isinstance(a, ast.Dict):
        return [(k, v) for k, v in zip(a.keys[i:j], a.values[i:j])]
    return getattr(a, field)[i:j]


def run_op(src, op, opts):
    """-> {'fails': [(sig, what)], 'recs': [...], 'tally': [...]}"""
    from fst import FST
    out = {'fails': [], 'recs': [], 'tally': []}
    A = _mk(src)
    nodes = list(A.walk(True))
    t = nodes[op[1]]
    opname = 'copy' if op[0] == 'copy' else 'get_slice'
    fld = _sig_field(t) if op[0] == 'copy' else f'{t.a.__class__.__name__}.{op[2] or "default"}'

    FT = (ast.JoinedStr, getattr(ast, 'TemplateStr', ast.JoinedStr))
    anc = t.parent
    while op[0] == 'copy' and anc is not None:
        if isinstance(anc.a, FT):
            fld = 'fstring-piece'       # nodes inside an f-string: collapsed label
            break
        anc = anc.parent

    def fail(cls, what):
        out['fails'].append((f'C07|{opname}|{fld}|{cls}', what))

    def failc(cls, what):
        out['fails'].append((f'C07|cut{"" if op[0] == "copy" else "_slice"}|{fld}|{cls}', what))

    if op[0] == 'copy':
        tgt = t.a
    elif op[2] == '_body':
        tgt = t.a.body[-1]
    elif op[2] and not _is_virtual(op[2]):
        tgt = getattr(t.a, op[2])[0]
    else:
        tgt = None
    stmtlike = isinstance(tgt, (ast.stmt, ast.ExceptHandler, ast.match_case))
    docstr = opts.get('docstr', True)
    src0, dump0 = A.src, util.dump_pos(A.a)
    ids0 = {id(n) for n in ast.walk(A.a)}
    lists0 = {id(v) for n in ast.walk(A.a) for v in vars(n).values() if isinstance(v, list)}
    orig_dump = None
    if op[0] == 'copy':
        orig_dump = ops.norm_dump(t.a, docstr)
    else:
        try:
            el = _orig_elems(t.a, op[2], op[3], op[4])
            orig_dump = [tuple(ops.norm_dump(x, docstr) if x is not None else None for x in e) if isinstance(e, tuple)
                         else ast.dump(ast.Name(id=e, ctx=ast.Load())) if isinstance(e, str)
                         else ops.norm_dump(e, docstr) for e in el]
        except Exception:
            orig_dump = None
    orig_lits = None
    try:
        if op[0] == 'copy':
            orig_lits = ops.literal_bag(t.a, docstr)
        elif op[2] is not None and t.a.__class__.__name__ not in ('JoinedStr', 'TemplateStr'):
            w = ast.Module(body=[], type_ignores=[])
            els = getattr(t.a, op[2])[op[3]:op[4]]
            if all(isinstance(e, ast.stmt) for e in els):
                w.body = els
                orig_lits = ops.literal_bag(w, docstr)
            else:
                import collections as _c
                orig_lits = sum((ops.literal_bag(e, False) for e in els if e is not None), _c.Counter())
    except Exception:
        orig_lits = None
    n_field = _flen(t, op[2]) if op[0] == 'slice' else None
    links0 = _links(A)
    c = exc = None
    with ops.Recorder() as R:
        try:
            if op[0] == 'copy':       # the other non-mutating entry points, inside the same purity window
                for ro in (lambda: t.own_src(), lambda: t.own_lines(), lambda: t.dump(out='lines'), lambda: t.copy_ast(),
                           lambda: t.src, lambda: t.lines):
                    try:
                        ro()
                    except Exception as e:
                        out['tally'].append(('readonly_raised', _exc_name(e)))
            c = _do_get(A, op, opts, False)
        except Exception as e:
            exc = e
    out['recs'] = R.recs
    if _links(A) != links0:
        d = [(x, y) for x, y in zip(links0, _links(A)) if x != y][:3]
        fail('links-changed', f'FST links / pfields of the tree read from changed: {d}')
    # (1) the tree read from is untouched — also when the call refused
    if A.src != src0:
        fail('source-changed', 'the source text of the tree changed: ' + util.first_diff(A.src, src0))
    else:
        d1 = util.dump_pos(A.a)
        if d1 != dump0:
            fail('tree-changed', 'ast.dump(include_attributes) of the tree changed: ' + util.first_diff(d1, dump0))
    if exc is not None:
        out['tally'].append(('get_raised', _exc_name(exc)))
        if _exc_name(exc) not in ops.REFUSALS:
            fail('raised-' + _exc_name(exc), f'{opname} raised {exc!r}')
        return out
    if not isinstance(c, FST):
        out['tally'].append(('get_returned', type(c).__name__))
        return out
    kind = c.a.__class__.__name__
    out['tally'].append(('returned_kind', kind))
    # a second identical call returns the identical piece and still leaves the tree alone
    try:
        c2 = _do_get(A, op, opts, False)
        if not isinstance(c2, FST) or c2.src != c.src:
            fail('second-copy-differs', f'the same call made twice returns different source: {c.src!r} then '
                 f'{getattr(c2, "src", c2)!r}')
        elif util.dump_pos(c2.a) != util.dump_pos(c.a):
            fail('second-copy-differs', 'the same call made twice returns different trees: '
                 + util.first_diff(util.dump_pos(c2.a), util.dump_pos(c.a)))
    except Exception as e:
        fail('second-copy-differs', f'the same call made a second time raised {e!r}')
    if A.src != src0 or util.dump_pos(A.a) != dump0:
        fail('source-changed' if A.src != src0 else 'tree-changed', 'the tree read from changed after a second identical call: '
             + util.first_diff(A.src, src0))
    # self-contained: a root, sharing no node or list object with the tree it came from
    if c.parent is not None or c.root is not c:
        fail('not-root', 'returned tree is not a root')
    if any(id(n) in ids0 for n in ast.walk(c.a)):
        fail('shares-nodes', 'returned tree shares AST node objects with the tree it was copied from')
    elif any(id(v) in lists0 for n in ast.walk(c.a) for v in vars(n).values() if isinstance(v, list)):
        fail('shares-nodes', 'returned tree shares a child list object with the tree it was copied from')
    csrc = c.src
    nelems = None
    relems = None
    if op[0] == 'slice':
        relems = ops.result_elems(c.a, t.a, op[2] or '')
        if relems == 'dict':
            relems = list(zip(c.a.keys, c.a.values))
        nelems = len(relems) if relems is not None else None
    # (2) parses on its own (CPython first)
    exempt = opts.get('pars') is False or (op[0] == 'slice' and not stmtlike and opts.get('norm') is not True
                                           and (nelems is None or nelems < 2))
    node, how = ops.cpython_parse_fragment(csrc, kind)
    if node is not None:
        out['tally'].append(('parse_oracle', how))
        if how in ('exec', 'eval'):
            d1, d2 = util.dump_pos(c.a), util.dump_pos(node)
            if d1 != d2:
                s1, s2 = ast.dump(c.a), ast.dump(node)
                if s1 != s2:
                    if not exempt:
                        fail('tree!=parse', 'returned tree differs from CPython parse of its source: ' + util.first_diff(s1, s2))
                else:
                    fail('pos!=parse', 'returned positions differ from CPython parse of its source: ' + util.first_diff(d1, d2))
        else:
            s1, s2 = ast.dump(c.a), ast.dump(node)
            if s1 != s2 and not exempt:
                fail('tree!=parse', 'returned tree differs from CPython parse (embedded) of its source: ' + util.first_diff(s1, s2))
    if node is None or how == 'embed':
        if node is None and how.startswith('error') and not exempt and '\n' in csrc and ops.parses_when_wrapped(csrc, kind, ast.dump(c.a)):
            out['fails'].append((f'C07|{opname}|*|needs-pars', f'returned {kind} spans lines without being enclosed and does '
                                 f'not parse on its own ({how}); it does inside parentheses; src={csrc!r}'))
        elif node is None and how.startswith('error') and not exempt and stmtlike and csrc.rstrip(' \t').endswith('\\'):
            out['fails'].append((f'C07|{opname}|stmtlike|trailing-continuation', f'returned statement source ends with a dangling '
                                 f'line continuation and does not parse on its own ({how}); src={csrc!r}'))
        elif node is None and how.startswith('error') and not exempt:
            fail('unparsable', f'returned source does not parse on its own as {kind}: {how}; src={csrc!r}')
        elif node is None and how.startswith('error'):
            out['tally'].append(('parse_oracle', 'exempt-unparsable'))
        else:
            try:
                p = FST(csrc, c.a.__class__)
                d1, d2 = util.dump_pos(c.a), util.dump_pos(p.a)
                if d1 != d2 and kind.startswith('_') and ops.root_pos_only(c.a, p.a):
                    rp = [getattr(c.a, k, None) for k in ('lineno', 'col_offset', 'end_lineno', 'end_col_offset')]
                    pp = [getattr(p.a, k, None) for k in ('lineno', 'col_offset', 'end_lineno', 'end_col_offset')]
                    fail('root-pos', f'the root {kind} container of the returned tree has position {rp}, a reparse of its source {pp}; src={csrc!r}')
                elif d1 != d2 and not exempt:
                    fail('tree!=reparse', f'returned tree differs from a reparse of its source as {kind}: ' + util.first_diff(d1, d2))
                out['tally'].append(('parse_oracle', 'pfst-secondary'))
            except Exception as e:
                if not exempt and node is None and '\n' in csrc and ops.parses_when_wrapped(csrc, kind, ast.dump(c.a)):
                    out['fails'].append((f'C07|{opname}|*|needs-pars', f'returned {kind} spans lines without being enclosed '
                                         f'and does not reparse on its own ({e!r}); src={csrc!r}'))
                elif not exempt and node is None:
                    fail('unparsable', f'returned source does not reparse as {kind}: {e!r}; src={csrc!r}')
    # (2b) every str / bytes literal of the returned SOURCE (read by CPython) has the value it had in the original; only
    # genuine str docstring candidates may differ, by the documented re-indentation
    if node is not None and orig_lits is not None and fld != 'fstring-piece':
        got_lits = ops.literal_bag(node, docstr)
        if got_lits != orig_lits:
            miss = sorted((orig_lits - got_lits).items(), key=repr)[:3]
            extra = sorted((got_lits - orig_lits).items(), key=repr)[:3]
            fail('literal-value', f'string/bytes literals of the returned source do not have the values of the original: '
                 f'original only {miss}, returned source only {extra}')
    # (3) structurally equal to the original sub-tree / sub-list
    if op[0] == 'copy':
        ca = c.a
        if (isinstance(t.parent.a, (ast.JoinedStr, getattr(ast, 'TemplateStr', ast.JoinedStr))) and t.pfield.name == 'values'
                and isinstance(ca, t.parent.a.__class__) and not isinstance(t.a, ca.__class__) and len(ca.values) == 1):
            ca = ca.values[0]        # a piece of an f-string is returned wrapped in an f-string of its own
        got = ops.norm_dump(ca, docstr)
        if got != orig_dump:
            fail('structure', 'copy is not structurally equal to the original sub-tree: ' + util.first_diff(got, orig_dump))
    elif relems is not None and orig_dump is not None and not (
            isinstance(t.a, (ast.BoolOp, ast.Compare, ast.MatchOr)) and op[4] - op[3] == 1):
        got = [tuple(ops.norm_dump(x, docstr) if x is not None else None for x in e) if isinstance(e, tuple)
               else ops.norm_dump(e, docstr) for e in relems]
        if got != orig_dump:
            fail('structure', f'slice elements are not structurally equal to the original sub-list: got {len(got)} expected {len(orig_dump)}: '
                 + util.first_diff(str(got), str(orig_dump)))
    else:
        out['tally'].append(('slice_shape', 'not-compared:' + kind))
    # (4) cut == (copy, delete) on twins
    B = _mk(src)
    cc = cexc = None
    with ops.Recorder() as R2:
        try:
            cc = _do_get(B, op, opts, True)
        except Exception as e:
            cexc = e
    out['recs'] += R2.recs
    Cc = _mk(src)
    dexc = None
    try:
        _do_del(Cc, op, opts)
    except Exception as e:
        dexc = e
    inverted = [(r['put_loc'], r['loc']) for r in R2.recs if 'put_loc' in r and
                (tuple(r['put_loc'][2:]) < tuple(r['put_loc'][:2]) or min(r['put_loc']) < 0
                 or tuple(r['put_loc'][2:]) < tuple(r['loc'][2:]))]
    if cexc is not None or dexc is not None:
        out['tally'].append(('cut_raised', f'cut={_exc_name(cexc) if cexc else None} del={_exc_name(dexc) if dexc else None}'))
        for e in (cexc, dexc):
            if e is not None and _exc_name(e) not in ops.REFUSALS:
                failc('raised-' + _exc_name(e), f'cut/delete raised {e!r}')
        return out
    if not isinstance(cc, FST):
        return out
    out['tally'].append(('cut_done', kind))
    if cc.src != csrc:
        failc('cut!=copy-src', f'cut returned different source than copy: {cc.src!r} vs {csrc!r}')
    else:
        d1, d2 = util.dump_pos(cc.a), util.dump_pos(c.a)
        if d1 != d2:
            failc('cut!=copy-tree', 'cut returned a different tree than copy: ' + util.first_diff(d1, d2))
    if B.src != Cc.src:
        failc('cut!=delete-src', f'cut left different source than delete: ' + util.first_diff(B.src, Cc.src))
    else:
        d1, d2 = util.dump_pos(B.a), util.dump_pos(Cc.a)
        emptied = op[0] == 'slice' and op[3] == 0 and op[4] == n_field
        if d1 != d2 and not (emptied and opts.get('norm') is not True and ast.dump(B.a) == ast.dump(Cc.a)):
            failc('cut!=delete-tree', 'cut left a different tree than delete: ' + util.first_diff(d1, d2))
    # (4b) the remainder is a consistent tree: where CPython reads the remainder source to the same structure, every position of
    # the remainder tree is the position CPython gives (an enclosing block end, a decorator call, a sibling left at a stale
    # column are invisible to cut == delete because both share the code); and a follow-up copy of each sibling of the cut
    # reads exactly the text CPython locates for it
    try:
        ref = ast.parse(B.src)
    except SyntaxError:
        ref = None
    if ref is not None and isinstance(B.a, ast.Module) and ast.dump(ref) == ast.dump(B.a):
        d1, d2 = util.dump_pos(B.a), util.dump_pos(ref)
        if d1 != d2:
            bad = next(((type(x).__name__, ops._pos(x), ops._pos(y)) for x, y in zip(ast.walk(B.a), ast.walk(ref))
                        if ops._pos(x) != ops._pos(y)), None)
            out['fails'].append((f'C07|cut{"" if op[0] == "copy" else "_slice"}|remainder|pos!=parse',
                                 f'after the cut the remainder tree has positions CPython does not give for the remainder source: first '
                                 f'{bad} (node, live, parsed); remainder {B.src[:160]!r}'))
        else:
            out['tally'].append(('remainder', 'pos==parse'))
    else:
        out['tally'].append(('remainder', 'not-compared'))
    # (4c) the view object itself: a copy leaves the view as it was; after a cut the view is spent (empty) and using it again
    # (copy, cut, len) neither returns live elements nor touches the tree
    if op[0] == 'slice' and op[2] is not None:
        for single in ((False, True) if op[4] - op[3] == 1 else (False,)):
            what = _view_sequence(src, op, opts, single)
            if what:
                lab = '*' if what[0] == 'empty-cut-touches-source' else fld
                out['fails'].append((f'C07|view|{lab}|{what[0]}', ('single-item view ' if single else 'slice view ') + what[1]))
            out['tally'].append(('view_sequence', 'single' if single else 'slice'))
    # (5) tokens and comments conserved
    b0 = ops.token_bag(src0)
    b1 = ops.token_bag(B.src)
    b2 = ops.token_bag_fragment(cc.src)
    if b0 is None or b1 is None or b2 is None:
        out['tally'].append(('tokens', 'untokenizable'))
    else:
        tot = b1 + b2
        lost = b0 - tot
        dup = tot - b0
        if (lost or dup) and inverted:
            out['fails'].append((f'C07|cut|stmtlike|put_loc-short', f'the deletion span handed to _make_fst_and_dedent is '
                                 f'{inverted[0][0]}, it ends before the copied span {inverted[0][1]} does: remainder '
                                 f'{B.src[-200:]!r} keeps/duplicates text: lost '
                                 f'{sorted(lost.items())[:4]} duplicated {sorted(dup.items())[:4]}'))
            lost = dup = None
        if lost and stmtlike and _header_line_first(t, op, n_field):
            out['fails'].append((f'C07|cut{"" if op[0] == "copy" else "_slice"}|stmtlike|header-deleted',
                                 f'cutting the first statement of a block that starts on the header line and continues after `;` + '
                                 f'line continuation deletes the block header too: remainder {B.src[:120]!r}; lost {sorted(lost.items())[:4]}'))
            lost = dup = None
        if lost and all(k[0] == 'COMMENT' for k in lost) and not dup:
            whole = op[0] == 'slice' and op[3] == 0 and op[4] == _flen(t, op[2]) or \
                op[0] == 'copy' and isinstance(getattr(t.parent.a, t.pfield.name), list) and len(getattr(t.parent.a, t.pfield.name)) == 1
            after = False
            if stmtlike:
                try:
                    last = t.a if op[0] == 'copy' else getattr(t.a, 'body' if op[2] == '_body' else op[2])[op[4] - 1 + (len(t.a.body) - n_field if op[2] == '_body' else 0)]
                    texts = {k[1] for k in lost}
                    lns_ = [tk.start[0] for tk in util.tokens(src0) if tk.type == ops.tokenize.COMMENT and tk.string.rstrip() in texts]
                    after = bool(lns_) and all(ln_ > last.end_lineno for ln_ in lns_)
                except Exception:
                    after = False
            if after:
                lab = 'stmtlike'
            elif stmtlike and whole:
                lab = f'{(op[2] if op[0] == "slice" else t.pfield.name)}-emptied'
            elif op[0] == 'copy' and not stmtlike:
                lab = 'exprlike-element'
            elif not stmtlike:
                lab = 'exprlike-slice'
            else:
                lab = fld
            out['fails'].append((f'C07|cut{"" if op[0] == "copy" else "_slice"}|{lab}|comment-lost{"-after" if after else ""}',
                                 f'comments {"that follow the cut statement(s) " if after else ""}of the original in neither '
                                 f'remainder nor piece: {sorted(lost.items())[:5]}; piece {cc.src!r}'))
            lost = None
        if lost:
            failc('token-lost', f'tokens of the original in neither remainder nor piece: {sorted(lost.items())[:5]}')
        if dup:
            failc('token-dup', f'tokens in remainder+piece more often than in the original: {sorted(dup.items())[:5]}')
        out['tally'].append(('tokens', 'compared'))
    return out


PROMOTES = ('all', 'identifier', True)          # every promoting value of the option, all of them in the deterministic product
PROMOTES_R = ('all', 'all', 'identifier', True)


def run_prim(src, op, promote):
    """get() of a primitive field (identifier, constant, element of a list of names) with the `promote` option: the node
    made for it must cover exactly its own source, carry the value, and the read must leave the tree alone."""
    from fst import FST
    out = {'fails': [], 'recs': [], 'tally': []}
    A = _mk(src)
    t = list(A.walk(True))[op[1]]
    fld, i = op[2], op[3]
    label = 'promoted-' + ('element' if i is not None else 'field')

    def fail(cls, what):
        out['fails'].append((f'C07|get|{label}|{cls}', f'{t.a.__class__.__name__}.{fld}: ' + what))

    src0, dump0, links0 = A.src, util.dump_pos(A.a), _links(A)
    v = getattr(t.a, fld)
    if i is not None:
        v = v[i]
    try:
        r = t.get(i, field=fld, promote=promote) if i is not None else t.get(field=fld, promote=promote)
    except Exception as e:
        out['tally'].append(('prim_raised', _exc_name(e)))
        if _exc_name(e) not in ops.REFUSALS:
            fail('raised-' + _exc_name(e), f'get(promote={promote!r}) raised {e!r}')
        r = None
    if A.src != src0:
        fail('source-changed', 'the source text of the tree changed')
    elif util.dump_pos(A.a) != dump0:
        fail('tree-changed', 'ast.dump(include_attributes) of the tree changed')
    elif _links(A) != links0:
        fail('links-changed', 'FST links of the tree changed')
    if not isinstance(r, FST):
        out['tally'].append(('prim_returned', type(r).__name__))
        return out
    out['tally'].append(('prim_promoted', r.a.__class__.__name__))
    ls = r.lines
    want = [1, 0, len(ls), len(ls[-1].encode())]
    got = [getattr(r.a, k, None) for k in ('lineno', 'col_offset', 'end_lineno', 'end_col_offset')]
    if got != want:
        fail('pos', f'promoted node has position {got}, its source {r.src!r} spans {want}')
    if isinstance(r.a, ast.Name):
        if r.a.id != v or r.src != v:
            fail('value', f'promoted Name id {r.a.id!r} / source {r.src!r} for identifier {v!r}')
    elif isinstance(r.a, ast.Constant) and fld == 'conversion':
        if v >= 0 and r.a.value != chr(v):         # documented: conversion is returned as a string Constant ('r', 's', 'a')
            fail('value', f'promoted conversion {r.a.value!r} for {chr(v)!r}')
    elif isinstance(r.a, ast.Constant):
        try:
            lv = ast.literal_eval(r.src)
        except Exception as e:
            lv = e
        if v is ... and r.src == 'Ellipsis':
            fail('ellipsis-repr', "promoted Constant(...) has source 'Ellipsis' (repr), which reads back as a Name, not as the constant")
        elif r.a.value != v or type(r.a.value) is not type(v) or lv != v or type(lv) is not type(v):
            fail('value', f'promoted Constant value {r.a.value!r} / source {r.src!r} (reads as {lv!r}) for {v!r}')
    if r.parent is not None:
        fail('not-root', 'promoted node is not a root')
    return out


def _enum_ops(root, rng, nops):
    full = nops >= 1000
    nodes = list(root.walk(True))
    copies, slices = [], []
    for idx, f in enumerate(nodes):
        if idx == 0:
            continue
        a = f.a
        if isinstance(a, ast.expr_context) or f.loc is None:
            continue
        copies.append(('copy', idx))
    import fst.fst_get_slice as _gs
    virt = {}
    for (cls, fld) in getattr(_gs, '_GET_SLICE_HANDLERS', {}):
        if fld.startswith('_'):
            virt.setdefault(cls, []).append(fld)
    for idx, f in enumerate(nodes):
        a = f.a
        fields = ops.list_fields(a)
        if isinstance(a, ast.Dict) and a.keys:
            fields = [(None, len(a.keys))]
        for fld in virt.get(a.__class__, ()):
            try:
                n = len(getattr(f, fld))
            except Exception:
                continue
            if n:
                fields.append((fld, n))
        for field, n in fields:
            if field in ('ops', 'type_ignores'):
                continue
            pairs = [(i, j) for i in range(n) for j in range(i + 1, n + 1)]
            ends = [(0, n), (0, 1), (n - 1, n), (max(n - 2, 0), n), (0, max(n - 1, 1))]     # slices that reach each end
            if len(pairs) > (28 if full else 10):
                pairs = sorted(set(rng.sample(pairs, 10) + ends))
            for i, j in pairs:
                if not field:
                    routes = ['slice']
                elif full and (i == 0 or j == n):
                    routes = ['slice', 'view', 'get']
                elif full:
                    routes = [['slice', 'view', 'get'][(i + j) % 3]]
                else:
                    routes = [rng.choice(['slice', 'slice', 'view', 'get'])]
                for route in routes:
                    slices.append(('slice', idx, field, i, j, route))
    prims = []
    for idx, f in enumerate(nodes):
        a = f.a
        if isinstance(a, (ast.expr_context, ast.operator, ast.cmpop, ast.boolop, ast.unaryop)):
            continue
        for fld in a._fields:
            v = getattr(a, fld, None)
            if isinstance(v, ast.AST) or fld in ('ctx', 'type_comment', 'type_ignores'):
                continue
            if isinstance(v, list):
                if v and all(isinstance(x, str) for x in v):
                    for i in sorted({0, len(v) - 1}):
                        for pm in (PROMOTES if full else (rng.choice(PROMOTES_R),)):
                            prims.append(('prim', idx, fld, i, pm))
            elif v is not None or isinstance(a, (ast.Constant, ast.MatchSingleton)):
                for pm in (PROMOTES if full else (rng.choice(PROMOTES_R),)):
                    prims.append(('prim', idx, fld, None, pm))
    rng.shuffle(copies)
    rng.shuffle(slices)
    rng.shuffle(prims)
    if nops >= 1000:            # deterministic product: every op of the program
        return copies + slices + prims
    copies = copies + prims[:max(2, nops // 5)]
    rng.shuffle(copies)
    k = nops // 2
    return copies[:k] + slices[:nops - min(k, len(copies))]


def _prog_case(arg):
    src, seed, nops = arg
    rng = random.Random(seed)
    try:
        root = _mk(src)
        ast.parse(src)
    except Exception:
        return None
    res = []
    for op in _enum_ops(root, rng, nops):
        opts = _opts(rng)
        try:
            if op[0] == 'prim':
                opts = {'promote': op[4]}
                r = run_prim(src, op, op[4])
            else:
                r = run_op(src, op, opts)
        except Exception as e:       # the harness itself (or an API it relies on) failed
            import traceback
            r = {'fails': [], 'recs': [], 'tally': [('harness_exception', _exc_name(e))], 'hexc': traceback.format_exc()[-1500:]}
        r['src'], r['op'], r['opts'] = src, list(op), opts
        res.append(r)
    return res


# ---------------------------------------------------------------------------------------------------------------------
# _dedent_lns / _indent_lns called directly

INDENTS = ['    ', '  ', ' ', '\t', '      ', '   ', ' \t']


def _dent_case(arg):
    src, seed = arg
    rng = random.Random(seed)
    from fst import FST
    out = []
    try:
        root = _mk(src)
    except Exception:
        return out
    orig_lns = FST._get_indentable_lns
    seen = []

    def lns_wrap(self, skip=0, **kw):
        r = orig_lns(self, skip, **kw)
        seen.append((skip, sorted(r)))
        return r

    FST._get_indentable_lns = lns_wrap
    try:
        for step in range(4):
            which = rng.choice(['indent', 'dedent', 'dedent']) if step else 'indent'
            ind = rng.choice(INDENTS)
            skip = rng.choice([0, 0, 1, 1, 2])
            docstr = rng.choice([True, False, 'strict'])
            lines = [str(l) for l in root._lines]
            tree, _ = util.ser_tree(root.a)
            pos0 = util.positions(root.a)
            doc0 = ops.doc_str_lns(root.a)
            del seen[:]
            try:
                if which == 'indent':
                    root._indent_lns(ind, skip=skip, docstr=docstr)
                else:
                    root._dedent_lns(ind, skip=skip, docstr=docstr)
            except Exception as e:
                out.append(({'f': 'C07.' + which, 'lines': lines, 'tree': tree, 'indent': ind, 'skip': skip, 'str_lns': []},
                            {'exc': _exc_name(e)}, None))
                break
            n = len(lines)
            problem = None
            if len(seen) != 1 or seen[0][0] != skip:
                problem = f'_get_indentable_lns calls: {[s[0] for s in seen]} (expected one with skip={skip})'
                str_lns = []
            else:
                lns = set(seen[0][1])
                str_lns = sorted(set(range(skip, n)) - lns)
                cont, err = ops.str_continuation_lns(lines)
                if cont is not None and not set(str_lns) <= cont:
                    problem = f'lines {sorted(set(str_lns) - cont)} excluded although they do not start inside a string'
                elif cont is not None and docstr is False and set(range(skip, n)) & cont != set(str_lns):
                    problem = f'string continuation lines {sorted((set(range(skip, n)) & cont) - set(str_lns))} treated as indentable'
                elif cont is not None:
                    must = (set(range(skip, n)) & cont) - doc0
                    if not must <= set(str_lns):
                        problem = (f'lines {sorted(must - set(str_lns))} start inside a string/bytes/f-string token that is not '
                                   f'a str expression statement but were treated as indentable (docstr={docstr!r})')
            case = {'f': 'C07.' + which, 'lines': lines, 'tree': tree, 'indent': ind, 'skip': skip, 'str_lns': str_lns}
            impl = {'lines': [str(l) for l in root._lines], 'pos': util.positions(root.a)}
            out.append((case, impl, problem))
            # round trip on the real code: dedent(indent(x)) == x
            if which == 'indent':
                lines1 = impl['lines']
                pos1 = impl['pos']
                try:
                    root._dedent_lns(ind, skip=skip, docstr=docstr)
                    back = [str(l) for l in root._lines]
                    if back != lines:
                        out.append((None, None, f'dedent(indent(x)) != x for indent {ind!r} skip {skip}: '
                                    + util.first_diff('\n'.join(back), '\n'.join(lines))))
                    elif util.positions(root.a) != pos0:
                        out.append((None, None, f'dedent(indent(x)) positions != x positions for indent {ind!r} skip {skip}'))
                    root._indent_lns(ind, skip=skip, docstr=docstr)
                    if [str(l) for l in root._lines] != lines1 or util.positions(root.a) != pos1:
                        out.append((None, None, f'indent(dedent(indent(x))) != indent(x) for indent {ind!r} skip {skip}'))
                except Exception as e:
                    out.append((None, None, f'round trip raised {e!r}'))
    finally:
        FST._get_indentable_lns = orig_lns
    return out


# ---------------------------------------------------------------------------------------------------------------------

_CACHE = {}

_LIT_BODIES = ['one\n{i}two', 'MAGIC\n{i}line two\n{i}  line three', 'a\n\n{i}b\n', 'x\n  y\n{i}z', 'é\n{i}\tü', '\n{i}q\n{i}']
_BLOCKS = ['class K{n}:', 'def f{n}(self):', 'if c{n}:', 'for i{n} in x:', 'with a{n} as b{n}:', 'while w{n}:', 'try:']


def gen_literal_program(rng):
    """multi-line str / bytes / raw / f-string literals as bare expression statements (first = docstring position, and
    later), assignment values, call arguments and return values, inside indented blocks 1-3 deep; continuation lines carry
    assorted leading whitespace so that any dedent of them changes the value"""
    depth = rng.randint(1, 3)
    unit = rng.choice(['    ', '  ', '\t'])
    lines = []
    opened = []
    for d in range(depth):
        b = rng.choice(_BLOCKS if d else _BLOCKS[:3]).format(n=d)
        lines.append(unit * d + b)
        opened.append(b)
    ind = unit * depth

    def lit(kinds='sbrf'):
        k = rng.choice(kinds)
        q = rng.choice(['"""', "'''"])
        body = rng.choice(_LIT_BODIES).format(i=rng.choice([ind, ind + '  ', unit * max(depth - 1, 0), ' ', '']))
        pre = {'s': '', 'b': 'b', 'r': 'r', 'f': 'f'}[k]
        if k == 'b':
            body = body.encode('ascii', 'replace').decode().replace('?', 'e')
        return pre + q + body + q

    forms = ['{L}', '{L}', 'v = {L}', 'g({L}, {M})', 'return_ = [{L},\n' + ind + '   {M}]', 'w: t = {L}', 'v += {L} + {M}', 'assert {L}']
    n = rng.randint(3, 6)
    if rng.random() < 0.7:
        lines.append(ind + lit('sb'))         # docstring position: str (genuine docstring) or bytes (not one)
    for _ in range(n):
        f = rng.choice(forms)
        lines.append(ind + f.format(L=lit(), M=lit('sb')))
        if rng.random() < 0.3:
            lines.append(ind + '# c%d' % rng.randint(0, 9))
    for d in range(depth - 1, -1, -1):
        if opened[d] == 'try:':
            lines.append(unit * d + 'finally:')
            lines.append(unit * (d + 1) + 'pass')
    return '\n'.join(lines) + '\n'


def gen_comment_program(rng):
    """statements (incl. def / class as FIRST statement of a block) followed by blank lines and comment-only lines that
    belong to the next sibling: what a cut / delete with a trailing-space allowance may and may not take"""
    unit = rng.choice(['    ', '  '])
    depth = rng.randint(0, 2)
    lines = []
    for d in range(depth):
        lines.append(unit * d + rng.choice(['class K%d:', 'def f%d():', 'if c%d:', 'for i%d in x:']) % d)
        if rng.random() < 0.3:
            lines.append(unit * (d + 1) + '"""doc %d"""' % d)
    ind = unit * depth
    k = 0
    for j in range(rng.randint(2, 5)):
        kind = rng.choice(['def', 'class', 'simple', 'simple', 'if']) if j else rng.choice(['def', 'class', 'def', 'simple', 'if'])
        k += 1
        if kind == 'def':
            lines += [ind + 'def g%d():' % k, ind + unit + 'return %d' % k]
        elif kind == 'class':
            lines += [ind + 'class C%d:' % k, ind + unit + 'a%d = %d' % (k, k)]
        elif kind == 'if':
            lines += [ind + 'if t%d:' % k, ind + unit + 'u%d = %d' % (k, k)]
        else:
            lines.append(ind + 's%d = %d' % (k, k) + ('  # tail %d' % k if rng.random() < 0.3 else ''))
        for _ in range(rng.choice([0, 0, 1, 1, 2, 3])):
            lines.append('')
        for m in range(rng.choice([0, 1, 1, 2])):
            lines.append((ind if rng.random() < 0.8 else '') + '# about the next one %d.%d' % (k, m))
            if rng.random() < 0.25:
                lines.append('')
    lines.append(ind + 'last = 0')
    return '\n'.join(lines) + ('\n' if rng.random() < 0.85 else '')


def _parses(src):
    try:
        ast.parse(src)
        return True
    except SyntaxError:
        return False


def _special_programs(ctx, n):
    rng = random.Random(ctx.rng.random())
    out = []
    for i in range(n):
        src = gen_literal_program(rng) if i % 2 == 0 else gen_comment_program(rng)
        try:
            ast.parse(src)
        except SyntaxError:
            continue
        out.append(src)
    return out


def _programs(ctx, n, stdlib):
    rng = random.Random(ctx.rng.random())
    return corpus.programs(rng, n, stdlib=stdlib)


# Deterministic product: every node copy and every slice (all routes at the ends) of these shapes is run on every run.
# (a) shapes on which pfst rewrites the source temporarily during a read; (b) multi-byte identifiers in every
# identifier-like position, with slices reaching both ends of every real / virtual list field.
SHAPES = [
    'total = sum(x * x for x in data)\n',
    'total = sum(x * x\n            for x in data)\n',
    'r = f(é for é in\n      ü if é)\nq = g(\n    (a for a in b)\n)\n',
    'class C: pass\nclass Ď:\n    x = 1\n',
    'class C(A, k=1, *b, **kw): pass\nclass Ü(Ä,\n        ö=1): pass\n',
    'x = a, b,\\\n  c\nfor i, j in p, q: pass\nreturn_ = yield_, z\n',
    'with a as b, c, (d, e) as f: pass\nwith (a as b,\n      c as ď): pass\nwith a, \\\n  b: pass\n',
    '@d1\n@d2(a=1)\n@m.n\ndef f(): pass\n@é\nclass K: pass\n',
    'a < b <= c != d is not e\nx = (a <\n     b > ñ)\n',
    'f(a, *b, k=1, **kw)\ng(a, k=1, *b, j=2)\nh(größe=1, 日本=x, *é, **ü)\n',
    'match v:\n    case {1: a, 2: b, **rest}: pass\n    case {"größe": g, "name": n, **übrige}: pass\n    case {**résté}: pass\n',
    'match v:\n    case [a, *ñs, b]: pass\n    case (é, *ü): pass\n    case K(1, ä, größe=g, ñ=2): pass\n    case 1 | 2 as é: pass\n    case {"k": [x, *ý]} as ž: pass\n',
    'import ü as ö, a.b as ç, d\nfrom m import ä as ö, b, ç as d\nfrom . import (é,\n    ñ as ü)\n',
    'def f[Ť, *Ťs, **Þ](ä, /, b=1, *ç, ď: int = 2, **é) -> ü: pass\nclass C[Ť: int, Ü]: pass\ntype Ä[Ť, *Ü] = dict[Ť, Ü]\n',
    'x = a.ñ.é(ü.ö)[ä].ç\ndel a.é, b[ñ], ç\nglobal_ = 1\ndef g():\n    global ä, ö\n    nonlocal_ = 1\n',
    'def o():\n    é = 1\n    def i():\n        nonlocal é\n        é = 2\ntry: pass\nexcept E as é: pass\nexcept (F, G) as ñ: pass\n',
    'lambda ä, /, ö=1, *ü, é, **ñ: (ä, ö)\nx = {"é": é, **ü, ñ: [é, "é"]}\ny = {é, *ü, ñ}\n',
    'x = [é for é in ü if é if ñ for ä in ö]\ny = {é: ñ async for é, ñ in ü}\n',
    's = f"{é!r:>{ñ}} ü {ä=}"\nt = "é" "ü" f"{ñ}"\n',
    'é = ü = ñ = 1\né: ä = 2\né += ü\nassert é, ñ\nraise É from ü\n',
    'if é:\n    ü\nelif ñ:\n    ä\nelse:\n    ö\nwhile é: ü; ñ\nfor é in ü: ñ\nelse: ä\n',
    'z = ñ < é <= ü != ä\nw = ñ and é and ü or ä or ö\nv = (ñ <\n     é > ü)\n',
    'match v:\n    case "é" | ü.ñ | É() | ñ: pass\n    case ("é" | ñ): pass\n    case [ñ, "é" | ü | ä]: pass\n',
    'def f(a, b, /, c, *, d, e=1): pass\ng = lambda ä, ö, /, ü, *, é=1, ñ: 0\ndef h(*, k): pass\ndef i(a, /): pass\ndef j(a, *, k, **kw): pass\n',
    'y = é, ñ, \\\n  ü\nfor é, ñ in ü, ä,  \\\n  ö: pass\nz = "é", "ñ" ,  # c\nw[é, ñ,\n  ü] = 1\n',
    '@deco(a, b)\n@other\ndef f(): pass\n@é(ñ, ü, k=ä)\n@ö(x, y=1)\n@z\nclass K: pass\n@p(q)(r, s)\n@t[u, v]\n@w\nasync def g(): pass\n',
    'if x:\n    a = "é"\n    b = 2\ndef f():\n    ü = "ñ"; c = 1\n    d = 3\nclass K:\n    é = 1  # ñ\n    e = 4\n',
    'for i in x:\n    if i:\n        s = "é"\n        t = 1\n    else:\n        u = "ü" ;\n        v = 2\nwhile w:\n    try:\n        ä = "ö"\n        y = 1\n    finally:\n        z = "é"  # ü\n        q = 2\n',
    'with a as b:\n    "é"\n    pass\ntry:\n    pass\nexcept E:\n    m = "ñ"\n    n = 1\nelse:\n    o = "é"; p = 1\nmatch v:\n    case 1:\n        r = "ü"\n        s = 2\n',
    'x = [1, 2.5, "é", b"b", None, True, False, 3j, ..., -1, 0x1F, 1_000, 1e3, "a" "b", \'\'\'t\nu\'\'\', r"\\d", 0]\ny: tuple[int, ...] = f(...)\nz = x[...], ...\n',
    'match v:\n    case None | True | False: pass\n    case -1 | 2.5 | "é" | b"b" | 3j: pass\n    case K(a=None): pass\n',
    'try:\n    pass\nexcept *E as e:\n    pass\ntry:\n    a\nexcept* (F, G): b\nexcept* H as é: c\nfinally:\n    d\ntry: x\nexcept A: y\nelse: z\n',
    'def g():\n    global ä, ö, ü\n    def h():\n        nonlocal ñ, é\n    global ç\n',
]

EXTRA = [
    'class Codec:\n    T = 1\n\n    def header(self):\n        x = 1\n        b"""MAGIC\n        line two\n          line three"""\n        blob = b"""one\n        two"""\n        return blob, x\n',
    'def f():\n    b"""not a\n    docstring"""\n    """a str\n      statement"""\n    g(b"""x\n    y""", """p\n    q""")\n',
    'def first():\n    return 1\n# second() is the important one\ndef second():\n    return 2\n\nx = second()\n',
    'if cond:\n    setup = 1\n\n    # why we need the lock\n    lock = acquire()\n    use(lock)\n',
    'class K:\n    def a(self):\n        pass\n    # about b\n    def b(self):\n        pass\n',
    'class C:\n    def f(self):\n        """doc\n        string"""\n        x = [a,  # c\n             b + """s\n  t""",\n             c]\n        if x:\n            pass\n        elif y: z = (1,\n  2)\n',
    'if a:\n    # pre\n    x = (1,)  # tail\n    # post\n\n    y = {1}\n    z = f"""a\n  {b}\n c"""\nelif b:\n    i = [\n  1,\n        2]\nelse:\n    t = a,\n',
    'def f():\n\tx = "é", ü  # ç\n\tif x:\n\t\treturn [é,\n ü]\n',
    'with a as b, c as d:\n    for i in x: pass; q = 1  # w\n    u = (a := 1), *b\n',
    'try:\n    pass\n# c1\nexcept A:  # c2\n    pass\n\n# c3\nexcept B: pass\nfinally:\n    """d\n    e"""\n',
    'match x:\n    # c\n    case 1 | 2: pass  # t\n    case [a, *b]:\n        """s\n        t"""\n',
    'x = {\n    1: 2,  # a\n    # b\n    **c,\n    3: """m\nn""",\n}\n',
    'def g(a, b=(1,\n  2), *c, d: int = 3, **e): return a if b else {*c}\n',
]


def _run_all(ctx):
    key = id(ctx)
    if key in _CACHE:
        return _CACHE[key]
    q = ctx.quick
    shapes = [p for p in SHAPES if _parses(p)]
    special = EXTRA + _special_programs(ctx, 40 if q else 400)
    progs = shapes + special + _programs(ctx, 140 if q else 1500, 12 if q else 200)
    hard = corpus.hard_snippets() if hasattr(corpus, 'hard_snippets') else []
    if q:
        hard = random.Random(ctx.rng.random()).sample(hard, min(40, len(hard)))
    nshape, nspecial = len(shapes), len(shapes) + len(special)
    jobs = [(p, ctx.rng.randrange(1 << 30), 1000 if i < nshape else (60 if q else 40) if i < nspecial else (10 if q else 24))
            for i, p in enumerate(progs)]
    jobs += [(p, ctx.rng.randrange(1 << 30), 16 if q else 40) for p in hard]       # hard shapes appended AFTER the existing inputs
    res = pmap(_prog_case, jobs)      # the hand-written layout programs get (nearly) all their ops
    items = [it for lst in res if lst for it in lst]
    _CACHE.clear()
    _CACHE[key] = items
    return items


def _compare(ctx, name, triples):
    """triples: (case, impl, problem). Lean vs implementation; `problem` = invalid model input found by the harness."""
    triples = [t for t in triples if t[0] is not None]
    cases = [t[0] for t in triples]
    try:
        outs = ctx.lean(cases)
    except Exception as e:
        ctx.brk('correspondence', name, f'driver error: {e}')
        return
    bad = 0
    first = None
    for (c, impl, problem), mo in zip(triples, outs):
        ctx.corr_cases += 1
        m = mo.get('out', mo)
        nontrivial = c.get('loc') is None or len(c['lines']) > 1 or c['loc'][1] > 0
        ctx.count(c, nontrivial)
        if problem or m != impl:
            bad += 1
            d = {'corr': name, 'problem': problem, 'case': c}
            if not problem and isinstance(m, dict) and isinstance(impl, dict):
                for k in impl:
                    if m.get(k) != impl[k]:
                        d['first_diff_key'] = k
                        if k.endswith('pos') and isinstance(m.get(k), list):
                            d['diff'] = [(a, b) for a, b in zip(impl[k], m[k]) if a != b][:4]
                        else:
                            d['impl'], d['model'] = impl[k], m.get(k)
                        break
            if first is None:
                first = d
            if len(ctx.corr_disagreements) < 20:
                ctx.corr_disagreements.append(d)
            ctx.hints.append((name, c))
    ctx.dist.setdefault('correspondence_cases', {})[name] = len(cases)
    if cases:
        c0 = cases[0]
        ctx.sample({'corr': name, 'case': {k: (v if k != 'tree' and k != 'src_tree' else '...') for k, v in c0.items()}})
    if bad:
        ctx.brk('correspondence', name, f'{bad}/{len(cases)} cases differ; first: ' + str(first)[:1500])


def correspondence(ctx):
    items = _run_all(ctx)
    triples = []
    outside = False
    for it in items:
        for r in it['recs']:
            if 'exc' in r:
                ctx.tally('make_fst_raised', r['exc'])
                continue
            if r.get('weird'):
                ctx.tally('make_fst_weird_args', r['weird'])
                continue
            ctx.tally('make_fst_kind', r['kind'] + ('/cut' if 'put_loc' in r else ''))
            ctx.tally('make_fst_features', ('prefix ' if r['pfx'] else '') + ('suffix ' if r['sfx'] else '')
                      + ('indent ' if r['indent'] else '') + ('multiline' if len(r['out']['lines']) > 1 else 'oneline'))
            if r.get('shared'):
                ctx.tally('make_fst_cut_shared_nodes', True)
            tr = ops.rec_to_case(r)
            if tr[0] is None:
                ctx.tally('make_fst_outside_model_domain', tr[2])     # put_loc with end before start (was finding C07-F1)
                if not outside:
                    ctx.brk('correspondence', '_make_fst_and_dedent precondition',
                            f'put_loc {r.get("put_loc")} / copy_loc {r["loc"]} has negative coordinates: outside the model '
                            f'domain (the deletion span must be a span of the source); program {it["src"][:300]!r} op {it["op"]}')
                    outside = True
                continue
            triples.append(tr)
    _compare(ctx, '_make_fst_and_dedent vs Pfst.Copy.copyNode/cutNode', triples)
    q = ctx.quick
    progs = EXTRA + _programs(ctx, 100 if q else 800, 10 if q else 100)
    res = pmap(_dent_case, [(p, ctx.rng.randrange(1 << 30)) for p in progs])
    trip = [t for lst in res for t in lst]
    for t in trip:
        if t[0] is None:
            ctx.brk('correspondence', '_dedent_lns/_indent_lns round trip', t[2])
    _compare(ctx, '_dedent_lns/_indent_lns vs Pfst.Copy.dedentLns/indentLns', trip)


def _report(ctx, items):
    for it in items:
        for k, v in it['tally']:
            ctx.tally(k, v)
        if 'hexc' in it:
            ctx.brk('correspondence', 'C07.sweep harness', it['hexc'])
        ctx.count((it['src'], it['op'], sorted(it['opts'].items(), key=str)), True)
        for sig, what in it['fails']:
            ctx.fail(sig, what, {'src': it['src'], 'op': it['op'], 'opts': it['opts']})
    ctx.notes['operations'] = len(items)


def sweep(ctx):
    items = _run_all(ctx)
    _report(ctx, items)
    if items:
        ctx.sample({'op': items[0]['op'], 'opts': items[0]['opts'], 'src': items[0]['src'][:200]})


def search(ctx):
    progs = EXTRA + _programs(ctx, 700, 60)
    res = pmap(_prog_case, [(p, ctx.rng.randrange(1 << 30), 20) for p in progs])
    items = [it for lst in res if lst for it in lst]
    for it in items:
        for sig, what in it['fails']:
            ctx.fail(sig, what, {'src': it['src'], 'op': it['op'], 'opts': it['opts']})
    ctx.notes['search_operations'] = len(items)


def replay(ctx, data):
    w = data.get('witness')
    if not w:
        print('replay file names a broken obligation, not an input:', [b for b in data.get('broken', [])][:3])
        return
    opts = {k: (tuple(v) if isinstance(v, list) else v) for k, v in w['opts'].items()}
    if w['op'][0] == 'prim':
        r = run_prim(w['src'], tuple(w['op']), opts.get('promote', 'all'))
    else:
        r = run_op(w['src'], tuple(w['op']), opts)
    for sig, what in r['fails']:
        ctx.fail(sig, what, w)


LEVEL_TEXT = ('Lean 4 theorems about an executable model of _make_fst_and_dedent (the single function through which copy/'
              'cut/get/get_slice build the returned tree): the source document is returned unchanged by a copy; a cut is '
              'exactly (the copy, the put on the source); every position of the extracted subtree is rebased by (-ln, '
              '-byte col on the first line, + prefix) and the byte rebase is the image of the character rebase; the text '
              'of every line of the crop is the text of the corresponding source line; dedent removes exactly the reported '
              'amount per line and dedent after indent is the identity; flat text conservation original = pre ++ piece ++ '
              'post, remainder = pre ++ put ++ post. Tied to /repo by replaying every recorded real call through the model.')
LEVEL_NOTE = ('Theorems are about the model; the tie is differential (every _make_fst_and_dedent call made by thousands of '
              'copy/cut/get_slice operations per run, all lines and all node positions compared). Not modelled: copy_ast, '
              '_fix_copy and the trivia/separator span computations — these are judged per case by CPython (ast.parse of '
              'the piece, ast.dump before/after, cut vs copy+delete on twins, tokenize multisets).')
TECHNIQUE = 'Lean 4 proof (list/arith lemmas, structural induction) + recorded-call model-implementation correspondence + CPython-judged sweep'
