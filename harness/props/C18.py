"""C18 — substitution rewrites exactly the matched nodes with the filled-in template."""

import ast
import json
import random

import c18_lib as L
import c18_ref as REF
import c18_wrap as W
import c18_scope as SC
import c18_special as SP
import c18_mini as MI
from framework import pmap

ID = 'C18'
LEAN_MODULES = ['Pfst.Props.C18']
LEAN_DEPS = ['Pfst.Sub', 'Pfst.SubLemmas']
THEOREMS = ['Pfst.C18.sub_spec', 'Pfst.C18.sub_counts', 'Pfst.C18.sub_counts_cap', 'Pfst.C18.sub_frame',
            'Pfst.C18.sub_frame_kids', 'Pfst.C18.sub_frame_node', 'Pfst.C18.sub_identity', 'Pfst.C18.sub_nested_id', 'Pfst.C18.sub_wrapper',
            'Pfst.C18.nested_dirty_kept', 'Pfst.C18.edge_item', 'Pfst.C18.edge_item_virtual', 'Pfst.C18.edge_item_empty',
            'Pfst.C18.ex_nested']
RULE = ('generated small programs (calls, lists, tuples, operators, attributes, subscripts, conditional expressions, nested '
        'if/while/for/def) x 39 pattern families (bare node, node tags, whole list field views, quantifier slices MQSTAR/MQPLUS, '
        'sub-sequence quantifiers, multi-node and whole-match tags; expression and statement patterns) x 40 template formats '
        '(slot as whole template, in a call argument list, in list/tuple elements, as operand, as value of attribute/subscript, '
        'as statement in a body, in a multi-statement template, whole-match slot, two tags, a tag used twice, a tag the pattern '
        'never sets, __FST_/__FSS_/__FSO_ prefixes; slots inside string and bytes constants: several on one line and in one '
        'constant, mixed with node slots, multi-line strings, multi-byte text, captured text shorter/longer than the slot name) '
        'x nested x on(enter/leave) x count(0..3) x loop(False,1,2,3,True); loop chains: 7 pattern/template pairs whose rewrite '
        'keeps matching a bounded number of times, over programs with 2-5 match locations of different chain lengths (0..6), '
        'loop in {1,2,3,4,6,True}; virtual fields: calls and class definitions whose positional, *starred, keyword and **kw '
        'arguments interleave in every legal order, quantifier captures over Call._args / ClassDef._bases / Call.keywords / '
        'Call.args whose first and last element is of each kind, templates with the slice in a call or class argument list; '
        'expr_context: the same names in Load/Store/Del positions with AST and M-patterns whose ctx INSTANCE discriminates, '
        'ctx in {False, True} (compared modulo ctx, C01 judges the contexts); wrappers: a deterministic product of 11 scenarios x '
        'every forwarded parameter (ctx, nested, count, loop, on, back, scope, self_, recurse, asts, callback, callback_after, '
        'copy_options/repl_options incl. explicit {}, **options) x entry points (sub method, fst.match.sub, FST.sub unbound, '
        'fst.match.subn, python -m fst.cli.sub with argv): each must equal subn() with the same arguments; '
        'scope: subn(scope=True, back in {False,True}) on functions with nested defs (every parameter shape, annotations and '
        'defaults present or absent independently), classes, lambdas and comprehensions against Python scoping computed on the '
        'CPython tree; identifier lists: slots at every index among fixed entries in MatchClass keyword attributes (pattern '
        'templates), call/class keyword names, global/nonlocal names, import aliases, lambda/def arguments, attribute chains, '
        'filled by name by the reference; combinator patterns: a small declarative pattern language with its OWN matcher on the '
        'CPython tree (harness/c18_mini.py) compiled to MAND/MOR/MNOT/MTYPES-with-fields/M patterns (which nodes are selected '
        'while the tree is walked, which node a tag names when tag names nest), judged without the matcher of pfst; special '
        'captures through coercion (signatures, with-items, dict pairs, handlers, ...) judged by C01 incl. positions with '
        'multi-byte text; argument reuse (asts list, option dicts); plus the documentation examples as directed cases. (a) correspondence: tree, per-node match results of the REAL matcher and the '
        'template are translated into the Lean model; when the model asks about a tree that did not exist in the input (leave, '
        'loop) the real matcher is asked and the case re-run; result tree (ctx kept) and both counts compared with the real subn. '
        '(b) sweep: the real subn against a pure-AST reference transformer written in the harness (copy.deepcopy, captures taken '
        'by path, no index arithmetic, loop counted per location; string slots = textual substitution judged on the RE-PARSED '
        'result: the Constant value must be the template text with every slot replaced by text that parses to the captured node), plus tree==parse(source) of the result, counts, identity template, exact lines of '
        'top-level statements that contain no substituted node. distinct = distinct (program, pattern, template, settings); '
        'non-trivial = at least one substitution made')
TRUSTED = ['modelled (Pfst/Sub.lean): subn driver = search/walk order for on=enter and on=leave with the walk mutation rules '
           '(children of a replaced node walked only after a single-node put, never after a slice put), the dirty set '
           '(template nodes, root of a whole-match copy), count countdown and break, loop re-application incl. `replaced` '
           'after a slice put, the two returned counts; slot filling for Name slots: expression slot in a single field / in a '
           'list field (incl. Call._args with positional arguments), Expr-statement slot in a body, slot as whole template, '
           'multi-statement (Module) templates; slice-vs-one decision (one = not slice, one_override, pfield.idx is None); '
           '_sub_quantifier_list_edge_item index arithmetic incl. the mapping of Call.args/keywords (ClassDef.bases/keywords) '
           'elements to their index in the virtual field _args/_bases (source order; the harness passes the REAL field and '
           'pfield.idx of every captured element and the layout from CPython positions) and the _get_slice range',
           'not modelled: the matcher (parameter; C17), copy/put/coercion of source text (C01/C04/C19; the sweep checks the '
           'result with CPython), slots other than Name (identifier slots filled from a captured Name and string slots are in the reference sweep only, not in the model; Dict/MatchMapping "...": pairs, '
           'comprehension/ExceptHandler/match_case forms), the special parents BoolOp/Compare/withitem/arguments/MatchClass/'
           'keyword; __FSO_ on a slice (put as one List/Tuple/Set element) and __FSS_ on a node (its elements spliced) are judged by the reference sweep, the model reports them as outside its set; callback/callback_after, self_/recurse/'
           'scope/back/asts, f-string parents; generated cases falling there are tallied as skipped',
           'the walk order of the model is the order of field blocks; programs whose syntax order interleaves fields '
           '(Dict, Compare chains, arguments with defaults) are skipped for count>0 only; intermediate trees (on=leave, loop) with '
           'interleaved call arguments cannot be re-created from a bare AST and are skipped (tallied)',
           'expr_context is kept in the compared trees; captured nodes are only moved between Load positions by the generator']
ASSUMPTIONS = ['the matcher is a function of the subtree only (the harness asks the real matcher about detached copies of '
               'intermediate trees)',
               'fuel: the theorems assume fuel >= height of the tree; runs in which the model runs out of fuel '
               '(non-terminating loop=True) are skipped, the real code is not called on them']
LEVEL_TEXT = ('Lean 4 theorems about an executable model of subn: for nested=False the stack walk with dirty test, countdown and '
              'break equals an independently written recursive reference transformer (any tree, matcher, template); both counts '
              'equal the number of rewritten positions; count=k caps unique at k for every setting; subtrees without a match are '
              'returned unchanged for every setting; the whole-match template is the identity on structure (flat and nested: '
              'every match at every depth visited exactly once); template nodes are never substituted; the first/last index '
              'arithmetic of quantifier captures yields exactly the captured contiguous range.')
LEVEL_NOTE = ('Partial: the general nested=True statement (result = template with recursively rewritten captures) and the '
              'equality unique = min(k, matches) are not proved; they are checked per case by the correspondence and by the '
              'pure-AST reference sweep. The model is tied to /repo differentially on every run.')
TECHNIQUE = 'Lean 4 proof (induction on fuel and nested trees, omega, decide) + model-implementation correspondence + reference-transformer sweep'

FUEL = 300
LFUEL = 6
MAX_ROUNDS = 6


# ---------------------------------------------------------------------------------------------------------------------
# correspondence: Lean model of subn vs the real subn, the real matcher supplying `matches`

def _prepare(job):
    try:
        return L.with_timeout(60, _prepare0, job)
    except L.Timeout:
        out = dict(job)
        out['skip'] = 'TIMEOUT in prepare'
        return out


def _prepare0(job):
    """job -> job + Lean case (tree, match table of every real node, template term); or job + skip reason"""
    from fst import FST
    from fst.code import code_as_all
    out = dict(job)
    try:
        root = FST(job['src'], 'exec')
        pat = L.make_pattern(job['pat'])
        tm_ast = code_as_all(job['tmpl']).a
    except Exception as e:
        out['skip'] = 'setup: ' + type(e).__name__
        return out
    tags, I = L.Intern(), L.Intern()
    if job.get('cat') == 'stmt' and isinstance(tm_ast, ast.expr) and not (isinstance(tm_ast, ast.Name) and L.SLOT_RE.match(tm_ast.id)):
        out['skip'] = 'expression template for a statement match (coercion to Expr is C19)'
        return out
    try:
        troot = L.tmpl_root(tm_ast, tags)
    except L.Unmodelled as e:
        out['skip'] = 'template outside the modelled set: ' + str(e)
        return out
    table = {}
    nmatch = 0
    try:
        for f in root.walk(True):
            if isinstance(f.a, ast.expr_context):
                continue
            g = L.to_gen(f.a, True)
            k = L.gen_key(g)
            if k in table:
                continue
            m = f.match(pat, ctx=job['set'].get('ctx', False))
            nmatch += m is not None
            table[k] = (g, L.env_of(m, tags) if m else None)
    except L.Unmodelled as e:
        out['skip'] = 'capture outside the modelled set: ' + str(e)
        return out
    s = job['set']
    if s['count'] and not L.order_safe(root.a):
        out['skip'] = 'count with interleaved fields (walk order not modelled)'
        return out
    tree = I.tree(L.to_gen(root.a, True))
    tab = [[I.tree(g), None if env is None else L.intern_env(env, I)] for g, env in table.values()]
    tm = [troot[0], L.intern_tmpl(troot[1], I)] if troot[0] == 'single' else \
        [troot[0], [L.intern_tmpl(k, I) for k in troot[1]]]
    loop = s['loop']
    out['case'] = {'f': 'C18.subn', 'tree': tree, 'table': tab, 'tmpl': tm, 'nested': s['nested'], 'count': s['count'],
                   'loop': None if loop is False else (0 if loop is True else int(loop)), 'on': s['on'], 'fuel': FUEL, 'lfuel': LFUEL}
    out['labels'] = I.names
    out['tags'] = tags.names
    out['nmatch'] = nmatch
    return out


def _finish_case(st):
    I = L.Intern()
    for n in st['labels']:
        I(n)
    c = st['case']
    c['stmt'] = [i for i, n in enumerate(I.names) if not L.is_field_label(n) and L.is_stmt_label(n)]
    c['field'] = [i for i, n in enumerate(I.names) if L.is_field_label(n)]
    return c


def _extend(arg):
    try:
        return L.with_timeout(60, _extend0, arg)
    except L.Timeout:
        st = dict(arg[0])
        st['skip'] = 'TIMEOUT in extend'
        return st


def _extend0(arg):
    """(state, needed trees) -> state with the real matcher's answers for the needed trees added to the table"""
    st, need = arg
    I = L.Intern()
    for n in st['labels']:
        I(n)
    tags = L.Intern()
    for n in st['tags']:
        tags(n)
    pat = L.make_pattern(st['pat'])
    for t in need:
        g = I.untree(t)
        try:
            f = L.fst_of_gen(g)
            if L.to_gen(f.a, True) != g:
                # Python source cannot be re-created from a bare AST with interleaved keywords / starred arguments
                st['skip'] = 'intermediate tree cannot be rebuilt in the same argument order'
                return st
            m = f.match(pat, ctx=st['set'].get('ctx', False))
            env = L.env_of(m, tags) if m else None
        except L.Unmodelled as e:
            st['skip'] = 'capture outside the modelled set: ' + str(e)
            return st
        except Exception as e:
            st['skip'] = 'intermediate tree cannot be rebuilt: ' + type(e).__name__
            return st
        st['case']['table'].append([I.tree(g), None if env is None else L.intern_env(env, I)])
    st['labels'] = I.names
    st['tags'] = tags.names
    return st


def _subn(job):
    from fst import FST
    root = FST(job['src'], 'exec')
    pat = L.make_pattern(job['pat'])
    s = job['set']
    tmpl = FST(job['tmpl'], job['tmpl_mode']) if job.get('tmpl_mode') else job['tmpl']
    r = root.subn(pat, tmpl, s['nested'], count=s['count'], loop=s['loop'], on=s['on'], ctx=s.get('ctx', False))
    return root, r[1], r[2]


def _real(job):
    try:
        root, u, t = L.with_timeout(20, _subn, job)
    except L.Timeout:
        return {'exc': 'Timeout'}
    except RecursionError:
        return {'exc': 'RecursionError'}
    except Exception as e:
        return {'exc': type(e).__name__, 'msg': str(e)[:120]}
    return {'tree': L.to_gen(root.a, True), 'unique': u, 'total': t, 'src': root.src}


def _lean_batch(cases):
    """cases through the native driver (called inside a worker; one JSON line per case in, one per case out)"""
    import subprocess
    import framework
    if not cases:
        return []
    exe = framework.LEAN / '.lake' / 'build' / 'bin' / 'driver'
    data = ''.join(json.dumps(c, separators=(',', ':')) + '\n' for c in cases)
    p = subprocess.run([str(exe)], input=data, capture_output=True, text=True, timeout=600)
    lines = p.stdout.splitlines()
    if p.returncode != 0 or len(lines) != len(cases):
        raise RuntimeError('driver failed: ' + p.stderr[:200])
    return [json.loads(l).get('out', {}) for l in lines]


def _close_models(states):
    """run the model on every state; whenever it asks the matcher about a tree that is not in the table (intermediate
    trees of on=leave / loop), ask the real matcher and run again.  -> {index: model output}; st['skip'] set otherwise"""
    outs = {}
    open_ = [i for i, st in enumerate(states) if 'skip' not in st]
    for rnd in range(MAX_ROUNDS + 6):
        if not open_:
            break
        res = _lean_batch([_finish_case(states[i]) for i in open_])
        nxt = []
        for i, o in zip(open_, res):
            st = states[i]
            if 'trees' not in o:
                st['skip'] = 'driver: ' + str(o)[:80]
            elif not o['need']:
                outs[i] = o
            else:
                n = _extend(( st, o['need']))
                if n is not st:
                    st.clear()
                    st.update(n)
                if 'skip' not in st:
                    nxt.append(i)
        open_ = nxt
    for i in open_:
        states[i]['skip'] = 'matcher table did not close in %d rounds' % (MAX_ROUNDS + 6)
    return outs


def _pipeline_chunk(jobs):
    """prepare -> model (with matcher-table closure) -> real subn, for a chunk of jobs inside one worker"""
    states = [_prepare(j) for j in jobs]
    outs = _close_models(states)
    results = []
    for i, (job, st) in enumerate(zip(jobs, states)):
        if i not in outs:
            results.append({'job': job, 'skip': st.get('skip', 'no model output')})
            continue
        o = outs[i]
        I = L.Intern()
        for nm in st['labels']:
            I(nm)
        out = {'job': job, 'err': o['err'], 'unique': o['unique'], 'total': o['total'],
               'trees': [I.untree(t) for t in o['trees']]}
        if o['err'] != 3:
            out['real'] = _real(job)
        results.append(out)
    return results


def run_model(ctx, states):
    """states with 'case' -> model outputs (kept for debugging tools; the correspondence uses _pipeline)"""
    o = _close_models(states)
    return {id(states[i]): v for i, v in o.items()}


def correspondence(ctx):
    rng = random.Random(ctx.rng.random())
    jobs = [dict(j) for j in L.DIRECTED] + L.gen_jobs(rng, 700 if ctx.quick else 9000, string_slots=False) \
        + L.gen_chain_jobs(rng, 300 if ctx.quick else 3000) + L.gen_arglike_jobs(rng, 250 if ctx.quick else 2500) \
        + L.gen_ctx_jobs(rng, 120 if ctx.quick else 1200)
    k = max(1, len(jobs) // 32)
    rng.shuffle(jobs)
    results = [r for lst in pmap(_pipeline_chunk, [jobs[i:i + k] for i in range(0, len(jobs), k)], chunksize=1) for r in lst]
    name = 'subn vs Pfst.Sub.run'
    bad = n = refused = 0
    first = None
    timeouts = []
    for res in results:
        s = res['job']
        if 'skip' in res:
            ctx.tally('corr_skipped', res['skip'])
            continue
        if res['err'] == 3:
            ctx.tally('corr_skipped', 'model out of fuel (non-terminating loop)')
            continue
        if res['err'] == 2:
            ctx.tally('corr_skipped', 'slot put outside the modelled set (unsup)')
            continue
        r = res['real']
        sig = f'{s["shape"]}|{s["placement"]}|{L.setting_name(s["set"])}'
        n += 1
        ctx.corr_cases += 1
        what = None
        if res['err'] == 1:
            ctx.tally('corr_outcome', 'both refuse')
            if 'exc' not in r:
                what = 'model: pfst raises (documented refusal); pfst returned a result'
            elif r['exc'] not in L.REFUSALS:
                what = f'model: documented refusal; pfst raised {r["exc"]}'
            ctx.count((s['src'], s['pat'], s['tmpl'], str(s['set'])), True)
        elif 'exc' in r and r['exc'] == 'Timeout':
            timeouts.append(s)
            ctx.tally('corr_skipped', 'pfst did not finish in 20 s (size blow-up)')
            n -= 1
            ctx.corr_cases -= 1
            continue
        elif 'exc' in r:
            if r['exc'] in L.REFUSALS:
                refused += 1
                ctx.tally('impl_refused', f'{r["exc"]}: {r.get("msg", "")[:50]}')
                n -= 1
                ctx.corr_cases -= 1
                continue
            what = f'pfst raised {r["exc"]}: {r.get("msg", "")}'
        else:
            ctx.count((s['src'], s['pat'], s['tmpl'], str(s['set'])), res['total'] > 0)
            ctx.tally('corr_setting', L.setting_name(s['set']))
            ctx.tally('corr_shape_placement', f'{s["shape"]}|{s["placement"]}')
            if s['set']['loop'] is not False:
                ctx.tally('corr_loop', f'loop={s["set"]["loop"]} unique={res["unique"]} total={res["total"]}'
                          if res['total'] > res['unique'] else f'loop={s["set"]["loop"]} no re-application')
            mt, rt_ = res['trees'], r['tree']
            if 'ctx' in s['set']:
                # a template put into a Store/Del position takes that context (C01 judges it in the sweep); the model
                # keeps the template's labels: compare modulo expr_context for the jobs that target such positions
                mt, rt_ = [L.strip_ctx(t) for t in mt], L.strip_ctx(rt_)
            if len(mt) != 1 or mt[0] != rt_:
                what = 'result trees differ'
            elif res['unique'] != r['unique'] or res['total'] != r['total']:
                what = f'counts differ: model {(res["unique"], res["total"])} pfst {(r["unique"], r["total"])}'
        if what:
            bad += 1
            job = {k: s[k] for k in ('src', 'pat', 'tmpl', 'set', 'shape', 'placement', 'cat')}
            if len(ctx.corr_disagreements) < 20:
                ctx.corr_disagreements.append({'corr': name, 'sig': sig, 'what': what, 'job': job,
                                               'pfst_src': r.get('src'), 'model_counts': [res['unique'], res['total']]})
            ctx.hints.append((name, job))
        elif first is None and res['total'] > 0:
            first = s
    ctx.notes['corr_cases_compared'] = n
    ctx.notes['corr_impl_refused'] = refused
    ctx.dist.setdefault('correspondence_cases', {})[name] = n
    if first:
        ctx.sample({'corr': name, 'src': first['src'][:200], 'pat': first['pat'], 'tmpl': first['tmpl'], 'set': first['set']})
    ctx.notes['corr_timeouts'] = len(timeouts)
    if len(timeouts) > max(4, len(results) // 150):
        job = {k: timeouts[0][k] for k in ('src', 'pat', 'tmpl', 'set', 'shape', 'placement', 'cat')}
        ctx.hints.append((name, job))
        ctx.brk('correspondence', name, f'{len(timeouts)} of {len(results)} real substitutions did not finish in 20 s; first: {job}')
    if n and refused > 0.5 * (n + refused):
        ctx.brk('correspondence', name, f'pfst refused {refused} of {n + refused} generated substitutions (expected well under half)')
    if bad:
        ctx.brk('correspondence', name, f'{bad}/{n} cases differ; first: ' + str(ctx.corr_disagreements[0])[:1500])


# ---------------------------------------------------------------------------------------------------------------------
# sweep: the property itself on the real code against the pure-AST reference (harness/c18_ref.py)

CRASHES = ('AssertionError', 'AttributeError', 'TypeError', 'IndexError', 'KeyError', 'RuntimeError', 'RecursionError',
           'Timeout', 'UnboundLocalError', 'NameError', 'ZeroDivisionError', 'StopIteration')


def _subn_full(job):
    import util
    root, u, t = _subn(job)
    c01 = util.tree_equals_parse(root)
    stale = False
    if c01:
        try:
            stale = REF.stale_constants_only(root.a, ast.parse(root.src))
        except SyntaxError:
            pass
    return {'tree': L.to_gen(root.a), 'unique': u, 'total': t, 'src': root.src, 'c01': c01, 'stale_only': stale}


def _block_preserved(src, out, stmt, others):
    lines = src.split('\n')
    start = min([stmt.lineno] + [d.lineno for d in getattr(stmt, 'decorator_list', [])])
    end = stmt.end_lineno
    for o in others:
        if o is not stmt and not (o.end_lineno < start or o.lineno > end):
            return True         # shares a line with another statement: not checkable line-wise
    block = '\n'.join(lines[start - 1:end])
    return ('\n' + block + '\n') in ('\n' + out + '\n')


def _sweep_case(job):
    try:
        return L.with_timeout(90, _sweep_case0, job)
    except L.Timeout:
        return {'job': job, 'skip': 'TIMEOUT in sweep case'}


def _sweep_case0(job):
    from fst import FST
    res = {'job': job}
    s = job['set']
    try:
        root0 = FST(job['src'], 'exec')
        pat = L.make_pattern(job['pat'])
    except Exception as e:
        res['skip'] = 'setup: ' + type(e).__name__
        return res
    if s['count'] and not L.order_safe(root0.a, plain=True):
        # walk order is not part of the reference: judge the case without the cap
        job = dict(job, set=dict(s, count=0))
        res['job'] = job
        s = job['set']
    expect_refusal = False
    info = {}
    try:
        ref, ru, rt, kept = REF.reference(root0, job['src'], pat, job['tmpl'], job['cat'], s['nested'], s['count'],
                                          s['loop'], s['on'], info=info, ctx=s.get('ctx', False), spec=job.get('spec'))
    except REF.Skip as e:
        res['skip'] = 'reference: ' + str(e)
        return res
    except REF.Refuse:
        expect_refusal = True
    except RecursionError:
        res['skip'] = 'reference: recursion'
        return res
    try:
        real = L.with_timeout(20, _subn_full, job)
    except L.Timeout:
        real = {'exc': 'Timeout'}
    except RecursionError:
        real = {'exc': 'RecursionError'}
    except Exception as e:
        real = {'exc': type(e).__name__, 'msg': str(e)[:120]}
    if 'exc' in real:
        if real['exc'] == 'Timeout':
            res['timeout'] = True           # judged in bulk (_report): a few blow-ups (whole match copied several times
            return res                      # under leave/loop/nested) are expected, many are not
        if real['exc'] in CRASHES and not expect_refusal:
            res['fail'] = ('crash', f'subn raised {real["exc"]}: {real.get("msg", "")}')
        else:
            res['refused'] = real['exc']
        return res
    if expect_refusal:
        res['accepted'] = True
        return res
    res['nsub'] = real['total']
    res['out'] = real['src']
    strslot = REF.has_string_slot(job['tmpl'])
    if strslot:
        # a slot inside a string constant is a textual substitution: judge the re-parsed result source
        try:
            exp = ast.unparse(ast.fix_missing_locations(ref))
        except Exception:
            exp = None
        try:
            got = ast.parse(real['src'])
        except SyntaxError as e:
            res['fail'] = ('no-parse', f'result source does not parse: {e}', {'expected_src_slots_unfilled': exp})
            return res
        try:
            d = REF.cmp_ast(ref, got)
        except REF.Skip as e:
            res['skip'] = 'reference: ' + str(e)
            return res
        if d:
            res['fail'] = ('tree-differs', 're-parsed result differs from the reference transformer: ' + d,
                           {'expected_src_slots_unfilled': exp})
            return res
    g = L.to_gen(ref)
    rtree = real['tree']
    if 'ctx' in s:
        g, rtree = L.strip_ctx(g), L.strip_ctx(rtree)
    if not strslot and g != rtree:
        cls = 'tree-differs'
        if s['nested'] and s['on'] == 'enter':
            try:
                q, qu, qt, _ = REF.reference(root0, job['src'], pat, job['tmpl'], job['cat'], s['nested'], s['count'],
                                             s['loop'], s['on'], quirk=True, ctx=s.get('ctx', False))
                if L.to_gen(q) == real['tree'] and (qu, qt) == (real['unique'], real['total']):
                    cls = 'slice-no-descent'
            except Exception:
                pass
        if cls == 'tree-differs' and s['nested'] and s['on'] == 'enter' and '__FSS_' in job['tmpl']:
            # does the result equal the variant in which the first element spliced from the whole match is skipped?
            try:
                q, qu, qt, _ = REF.reference(root0, job['src'], pat, job['tmpl'], job['cat'], s['nested'], s['count'],
                                             s['loop'], s['on'], quirk='first-dirty', ctx=s.get('ctx', False))
                if L.to_gen(q) == real['tree'] and (qu, qt) == (real['unique'], real['total']):
                    cls = 'first-spliced-element-skipped'
            except Exception:
                pass
        if cls == 'tree-differs' and info.get('matcher') is not None and info['matcher'].noncontig:
            # a quantifier captured elements that are not consecutive in the (virtual) list: does the result hold the
            # whole first..last range instead of the captured elements?
            try:
                q, qu, qt, _ = REF.reference(root0, job['src'], pat, job['tmpl'], job['cat'], s['nested'], s['count'],
                                             s['loop'], s['on'], range_fill=True, ctx=s.get('ctx', False))
                if L.to_gen(q) == real['tree'] and (qu, qt) == (real['unique'], real['total']):
                    cls = 'range-includes-uncaptured'
            except Exception:
                pass
        try:
            exp = ast.unparse(ast.fix_missing_locations(ref))
        except Exception:
            exp = None
        res['fail'] = (cls, 'result differs from the reference transformer', {'expected_src': exp})
        return res
    if (ru, rt) != (real['unique'], real['total']):
        res['fail'] = ('counts-differ', f'counts {(real["unique"], real["total"])}, reference {(ru, rt)}')
        return res
    if job['tmpl'] in ('__FST_', '__FSO_') and real['tree'] != L.to_gen(ast.parse(job['src'])):
        res['fail'] = ('identity-changed', 'whole-match template changed the structure')
        return res
    pure_body = ast.parse(job['src']).body
    for st in kept:
        st0 = next(o for o in pure_body if (o.lineno, o.col_offset) == (st.lineno, st.col_offset))
        if not _block_preserved(job['src'], real['src'], st0, pure_body):
            res['fail'] = ('text-outside-changed', f'lines of an untouched statement (line {st.lineno}) changed')
            return res
    if real['c01']:
        if strslot and real['stale_only']:
            res['fail'] = ('constant-value-stale', 'the returned tree keeps the template text as value of a string '
                           'constant whose slots were filled in the source: ' + real['c01'])
        else:
            res['fail'] = ('c01', 'result tree is not the parse of the result source: ' + real['c01'])
        return res
    res['kept'] = len(kept)
    return res


def _fail_sig(job, cls):
    if cls == 'slice-no-descent':       # the result equals the reference that does not look inside a slice put
        return 'C18|stmt-pattern|multi-statement-template|enter,nested|slice-no-descent'
    if cls == 'range-includes-uncaptured':   # the result equals the reference that fills the first..last range of the list
        return 'C18|quantifier-over-args-or-keywords|interleaved-arguments|any|range-includes-uncaptured'
    if cls == 'first-spliced-element-skipped':
        return 'C18|whole-match|__FSS_-in-list-or-tuple-slot|enter,nested|first-spliced-element-skipped'
    if cls == 'constant-value-stale':   # C01 fails and the only difference is the value of slot-bearing string constants
        return 'C18|any|string-slot|any|constant-value-stale'
    return f'C18|{job["shape"]}|{job["placement"]}|{L.setting_name(job["set"])}|{cls}'


def sweep_jobs(ctx, n, layouts):
    import corpus
    rng = random.Random(ctx.rng.random())
    jobs = L.gen_jobs(rng, n) + L.gen_chain_jobs(rng, n // 3, allow_nested=False) + L.gen_arglike_jobs(rng, n // 4) \
        + L.gen_ctx_jobs(rng, n // 6) + L.gen_override_jobs(rng, n // 6) + L.gen_identlist_jobs(rng, n // 5) \
        + MI.jobs(rng, n // 4)
    # the reference covers loop and nested separately
    for j in jobs:
        if j['set']['loop'] is not False and j['set']['nested'] and j['set']['on'] == 'enter':
            j['set']['nested'] = False
    if layouts:
        for j in jobs:
            c = rng.random()
            if c < 0.35:
                j['src'] = corpus.add_comments(corpus.mutate_layout(j['src'], rng), rng)
    return [dict(j) for j in L.DIRECTED] + jobs


def _report(ctx, results):
    n = 0
    tmo = [r for r in results if r.get('timeout')]
    ctx.notes['sweep_timeouts'] = len(tmo)
    if len(tmo) > max(4, len(results) // 150):
        job = tmo[0]['job']
        ctx.fail(_fail_sig(job, 'timeout'), f'{len(tmo)} of {len(results)} substitutions did not finish in 20 s; first: '
                 f'sub({job["pat"]}, {job["tmpl"]!r}, {job["set"]})',
                 {k: job[k] for k in ('src', 'pat', 'tmpl', 'set', 'cat', 'shape', 'placement')})
    for r in results:
        job = r['job']
        if r.get('timeout'):
            ctx.tally('sweep_skipped', 'pfst did not finish in 20 s (size blow-up)')
            continue
        if 'skip' in r:
            ctx.tally('sweep_skipped', r['skip'])
            continue
        if 'refused' in r:
            ctx.tally('sweep_refused', r['refused'])
            continue
        if 'accepted' in r:
            ctx.tally('sweep_refused', 'reference expects a refusal, pfst returned a result (not judged)')
            continue
        n += 1
        ctx.count((job['src'], job['pat'], job['tmpl'], str(job['set'])), r.get('nsub', 1) > 0)
        ctx.tally('sweep_setting', L.setting_name(job['set']))
        ctx.tally('sweep_shape', job['shape'])
        ctx.tally('sweep_placement', job['placement'])
        if 'fail' in r:
            cls, what = r['fail'][0], r['fail'][1]
            w = {'src': job['src'], 'pat': job['pat'], 'tmpl': job['tmpl'], 'set': job['set'], 'cat': job['cat'], 'tmpl_mode': job.get('tmpl_mode'), 'spec': job.get('spec'),
                 'shape': job['shape'], 'placement': job['placement'], 'result_src': r.get('out')}
            if len(r['fail']) > 2:
                w.update(r['fail'][2])
            ctx.fail(_fail_sig(job, cls), f'sub({job["pat"]}, {job["tmpl"]!r}, {job["set"]}): {what}', w)
    return n


def _wrap_sig(r, cls):
    if cls == 'count-loop-not-forwarded':
        return 'C18|wrapper|cli|count,loop|not-forwarded'
    return f'C18|wrapper|{r["entry"]}|{r["params"]}|{cls}'


def wrappers(ctx):
    """every public entry point x every forwarded parameter against the core subn (deterministic product)"""
    cs = W.cases()
    results = pmap(W.run_case, cs, chunksize=max(1, len(cs) // 16))
    for r in results:
        ctx.count(('wrapper', r['scenario'], r['entry'], r['kw']), r.get('nsub', 0) > 0)
        ctx.tally('wrapper_entry', r['entry'])
        ctx.tally('wrapper_params', r['params'])
        if 'fail' in r:
            cls, what = r['fail']
            ctx.fail(_wrap_sig(r, cls), what, {'wrapper': r['case'], 'scenario': r['scenario'], 'entry': r['entry'],
                                               'kw': r['kw']})
    ctx.notes['wrapper_cases'] = len(results)
    ctx.exhaustive = None


def scopes(ctx):
    """subn(scope=True, back in {False, True}) against Python's scoping computed on the CPython tree"""
    rng = random.Random(ctx.rng.random())
    cs = SC.cases(rng, 120 if ctx.quick else 1500)
    results = pmap(SC.run_case, cs, chunksize=max(1, len(cs) // 16))
    for r in results:
        c = r['case']
        ctx.count(('scope', c['src'], c['back']), r.get('nsub', 0) > 0)
        ctx.tally('scope_back', c['back'])
        if 'fail' in r:
            ctx.fail(f'C18|scope|{"back" if c["back"] else "forward"}|scope=True|{r["fail"][0]}', r['fail'][1],
                     {'scope_case': c, 'src': c['src'], 'back': c['back'], 'result_src': r.get('out')})
    ctx.notes['scope_cases'] = len(results)


def specials(ctx):
    """captures that go through coercion (signatures, with-items, dict pairs, handlers, ...): C01 incl. positions, counts,
    surrounding text, a second operation; multi-byte text throughout (deterministic product)"""
    cs = SP.cases()
    results = pmap(SP.run_case, cs, chunksize=max(1, len(cs) // 16))
    for r in results:
        c = r['case']
        if 'skip' in r:
            ctx.tally('special_skipped', r['skip'])
            continue
        ctx.count(('special', c['src'], c['pat'], c['tmpl'], c['nested']), r.get('nsub', 0) > 0)
        ctx.tally('special_kind', c['kind'] + (':refused ' + r['refused'] if 'refused' in r else ''))
        if 'fail' in r:
            ctx.fail(f'C18|special|{c["kind"]}|{"nested" if c["nested"] else "flat"}|{r["fail"][0]}',
                     f'sub({c["pat"]}, {c["tmpl"]!r}, nested={c["nested"]}) on {c["src"]!r}: {r["fail"][1]}',
                     {'special_case': c, 'src': c['src'], 'pat': c['pat'], 'tmpl': c['tmpl'], 'result_src': r.get('out')})
    ctx.notes['special_cases'] = len(results)


def sweep(ctx):
    wrappers(ctx)
    scopes(ctx)
    specials(ctx)
    jobs = sweep_jobs(ctx, 700 if ctx.quick else 7500, True)
    results = pmap(_sweep_case, jobs, chunksize=max(1, len(jobs) // 32))
    n = _report(ctx, results)
    ctx.notes['sweep_cases_judged'] = n
    good = [r for r in results if 'out' in r and 'fail' not in r and r.get('nsub')]
    if good:
        g = good[len(good) // 2]
        ctx.sample({'sweep': {'src': g['job']['src'][:200], 'pat': g['job']['pat'], 'tmpl': g['job']['tmpl'],
                              'set': g['job']['set'], 'result': g['out'][:200]}})


def search(ctx):
    jobs = []
    for name, job in ctx.hints[:200]:
        if isinstance(job, dict) and 'src' in job:
            j = dict(job)
            j.setdefault('cat', 'expr')
            jobs.append(j)
    jobs += sweep_jobs(ctx, 6000, True)
    results = pmap(_sweep_case, jobs, chunksize=max(1, len(jobs) // 32))
    ctx.notes['search_cases_judged'] = _report(ctx, results)


def replay(ctx, data):
    w = data.get('witness')
    if not w:
        print('replay names a broken obligation:', data.get('broken'))
        return
    if 'special_case' in w:
        c = w['special_case']
        r = SP.run_case(c)
        if 'fail' in r:
            ctx.fail(f'C18|special|{c["kind"]}|{"nested" if c["nested"] else "flat"}|{r["fail"][0]}', r['fail'][1], w)
        return
    if 'scope_case' in w:
        r = SC.run_case(w['scope_case'])
        if 'fail' in r:
            ctx.fail(f'C18|scope|{"back" if w["back"] else "forward"}|scope=True|{r["fail"][0]}', r['fail'][1], w)
        return
    if 'wrapper' in w:
        r = W.run_case(w['wrapper'])
        if 'fail' in r:
            ctx.fail(_wrap_sig(r, r['fail'][0]), r['fail'][1], w)
        return
    job = {k: w[k] for k in ('src', 'pat', 'tmpl', 'set', 'cat', 'shape', 'placement', 'tmpl_mode', 'spec') if k in w}
    r = _sweep_case(job)
    if 'fail' in r:
        ctx.fail(_fail_sig(job, r['fail'][0]), r['fail'][1], w)
