"""C06 — every reported location denotes exactly the text of its node."""

import ast
import io
import itertools
import keyword
import random
import tokenize

import corpus
import c06_scan
from c06_oracle import Oracle
from framework import pmap

ID = 'C06'
LEAN_MODULES = ['Pfst.Props.C06']
THEOREMS = []      # filled below (kept in one place with the one-line descriptions)

_THEOREMS = '''
Pfst.C06.b2c_c2b
Pfst.C06.c2b_append
Pfst.C06.c2b_mono
Pfst.C06.c2b_ascii
Pfst.C06.b2c_inside
Pfst.C06.b2c_bracket
Pfst.C06.paramsOffset_dcol_single
Pfst.C06.paramsOffset_col
Pfst.C06.reMatch_code_iff
Pfst.C06.reMatch_iff
Pfst.C06.nextFrag_spec
Pfst.C06.nextFrag_none
Pfst.C06.nextFrag_first_match
Pfst.C06.nextFrag_lcontNone_sound
Pfst.C06.prevFrag_single_partial
Pfst.C06.pars_min
Pfst.C06.pars_min_soloShared
Pfst.C06.nextDelims_single_line
Pfst.C06.prevDelims_single_line
Pfst.C06.pars_layout
Pfst.C06.pars_layout_unbalanced
Pfst.C06.bloc_covers_comment
Pfst.C06.bloc_eq_loc_of_no_comment
Pfst.C06.bloc_after_comment_edit
Pfst.C06.bloc_after_comment_delete
Pfst.C06.findContains_bruteforce
Pfst.C06.findContains_bruteforce_wf
Pfst.C06.findContains_decorators_inert
Pfst.C06.bruteContains_deepest
Pfst.C06.bruteContains_top_highest
Pfst.C06.findIn_bruteforce
Pfst.C06.findLoc_bruteforce
Pfst.C06.findLoc_decorated_partial
Pfst.C06.findContains_decorated_witness
Pfst.C06.findLoc_exactTop_witness
'''

RULE = ('(a) scanners: generated line blocks (alphabet space, tab, FF, NBSP, #, backslash, parentheses, comma, letters, 2/3/4-byte '
        'characters; every single line up to a length bound exhaustively plus random 1-4 line blocks) x every start/end '
        'position pair (columns up to len+1, reversed bounds for next/prev_frag) x every comment/lcont flag combination, '
        'real common.py functions vs the Lean model; bistr: every offset 0..len+2 of strings mixing 1-4 byte characters; '
        '\\s: every code point; pars(): every node of corpus programs x shared in {True, False, None}; find_*loc: walk(\'loc\') '
        'node lists of corpus programs x random/boundary rectangles (empty ones included). (b) the property on the real code '
        'judged by CPython ast+tokenize: every node with a loc of corpus programs (layouts with comments, continuation '
        'lines, redundant parentheses, multi-byte names/strings/comments). distinct = distinct (input, query); non-trivial '
        '= the scanner returns something / the node is parenthesized / the rectangle hits a node')
TRUSTED = [
    'modelled (Pfst/Scan.lean): bistr.c2b/b2c; the four _re_next_frag* regexes incl. Pattern.match pos/endpos clipping and $; '
    'next_frag, prev_frag (with its state cache), next_find, prev_find, next_delims, prev_delims; the body of FST.pars() '
    'given bloc, _next_bound(), _prev_bound() and the _is_solo_* predicates as inputs; find_contains_loc (with the '
    '\'top\' exit of the descent loop and the search of the decorators of a definition that does not contain the '
    'location) / find_in_loc / find_loc as one pass over the walk(\'loc\') preorder list, the decorator roots given as input',
    'the recursive find_contains_loc call on a decorator is modelled by the pass without decorator search (a decorator '
    'expression cannot contain a decorated definition); compared with the real function on every corpus list',
    'view locations (FSTView.loc / ln / col / end_ln / end_col / bloc) of every contiguous window of the sliceable real and '
    'virtual fields (_args, _bases, _attrs, Dict/MatchMapping/Compare _all, _body, decorator_list, targets incl. `=`, ifs '
    'incl. `if`, ...) are judged by the token oracle on fresh trees; not judged: arguments._all, Global/Nonlocal names, '
    'kwd_attrs, Dict.keys, cases, elements inside f-strings',
    'fst_core._params_offset (byte position / deltas of a source put) is modelled on the text itself (paramsOffsetC) and compared on '
    'generated multi-line, mixed-width line blocks x every span; locations are judged after replace() / remove() of every element of a '
    'deterministic layout product (text before the span ASCII / multi-byte x element one line / several lines x container),',
    'bloc end column of block statements (loc + trailing line comment) is modelled (blocEndCol) and compared on fresh trees '
    'and after every step of a line-comment edit chain with all caches filled beforehand',
    'not modelled (checked only by the CPython-judged sweep): _loc_op, _loc_arguments, _loc_comprehension, _loc_withitem, '
    '_loc_match_case, _loc_decorator, _loc_block_header_end, the decorator start of bloc, _next_bound/_prev_bound, walk order, next_find_re',
    'bistr.b2c is modelled by its closed form (byte inside character i -> i) instead of the scatter + forward-fill loops; '
    'every byte offset of every generated string is compared each run',
    'oracle exclusions (cannot be decided soundly from tokens): parentheses of `with (a): ...` (single item, no `as`); '
    'pars() of nodes inside f-strings, of expressions inside patterns, of Starred; pars(shared=False) is only checked for '
    'independence of the query order, pars(shared=None) against all directly enclosing pairs except for a sole genexp call argument; '
    'children of JoinedStr in the overlap check (CPython itself overlaps the debug-text Constant of `{x=}` with the '
    'FormattedValue); zero-width query rectangles in the find_*loc brute force (which of two touching nodes "contains" an '
    'empty rectangle is not defined); AugAssign operator accepted with or without its `=`; Lambda arguments accepted '
    'with or without the one blank after `lambda`; match_case accepted with or without a trailing `;`',
]
ASSUMPTIONS = [
    'the hypotheses wfList / wfListD of the find*_bruteforce theorems are evaluated by the Lean driver on every real node '
    'list (wfListD: decorators before their definition; it fails only on lists with `{x=}` f-strings, whose parts CPython '
    'overlaps; reported as find_lists_wfListD_false)',
    'lines contain no newline characters; source positions are within the lines',
]

BLOCKS = (ast.FunctionDef, ast.AsyncFunctionDef, ast.ClassDef, ast.If, ast.For, ast.AsyncFor, ast.While, ast.With,
          ast.AsyncWith, ast.Try, ast.TryStar, ast.ExceptHandler, ast.Match)

SNIPPETS = [
    'x = (  # c\n  a\n)',
    'x = ( ( a ) )',
    'x = ((a)if(b)else(c))',
    'y = a not  \\\n in b is   not c',
    'y = (a) not in (b) is not ((c))',
    'f(x for x in y)\nf((x for x in y))\nf((a))\nf((a), (b))\nf(*(a))\nf((a),)',
    'class C((a)): pass\nclass D((a), (b), k=(v)): pass',
    'with (a): pass\nwith (a) as b: pass\nwith (a as b): pass\nwith ((a) as b, c): pass\nwith (a, b): pass\nwith (a), (b): pass',
    'with (a,): pass\nwith (a, b) as c: pass\nwith ((a)): pass',
    'async def f():\n    return [x async for x in (y) if (x) if ( x )]\n',
    'z = [x for x in y if (a)  # c\n]\nz = [x for (x) in (y) for w in v]',
    'y = lambda  x , y : 0\ny = lambda: 0\ny = lambda : 0\ny = lambda *a, **k: (a)\ny = lambda x={1: 2}: (x)',
    'def f( a , b ) : pass\ndef g( # c\n a):pass\ndef h(): pass\ndef k(\n) : pass\ndef m[T](a: T) -> T: pass',
    'match a:\n case 1: pass;\n case (2): pass ; \n case C((x)) if (g): pass\n case [ (x), *y ]: pass\n case (x) | (y): pass\n',
    '@ \\\n ( d )\n@e\nclass C: pass  # c\n',
    '@d\ndef f(): pass\n@(a.b)(c)\n@x [0]\nasync def g(): pass  # é\n',
    'é = 日本(ü, ж=1) + (é) * ( 日本 )  # 😀 c\nx = "😀" + (é) not in ("ñ")',
    'if (a): pass\nelif (b): pass\nelse: pass\nwhile (a): pass\nfor (a) in (b): pass',
    'x = -(a) + ~ b ** - c\nx = not (a)\nx = not(a)',
    'x = a if b else(c)\nx += (1)\nx **= 2\nx //= (3)\nx >>= 4',
    'x = (a) + \\\n    (b)\nx = (a  # c\n  ) * ( # d\n b)',
    'del (a), (b)\nassert (a), (b)\nreturn_ = (yield)\nraise (a) from (b)',
    'x = (a := 1)\nx = [(a := 1), (b)]\nx = {(a): (b), **(c)}\nx = {(a), *(b)}',
    'x = a[(b)]\nx = a[(b):(c), (d)]\nx = (a)[b]\nx = (a).b\nx = (a)(b)',
    'try: pass\nexcept (A): pass\nexcept (A, B) as e: pass\n',
    'x = (\n    a,\n    (b),\n)\nx = ((a, b))\nx = ((a),)',
    'x = f"{(a)} {b!r:>{(w)}} {c=}"',
    'for i in (a), (b): pass',
    'x = (yield (a))\nx = await_((a))',
    'print((a) if (b) else (c), sep=(d))',
    'x = a and (b) or ((c)) and not (d)',
    'x = (a) < (b) <= ((c)) == d',
    'import a.b as c, d\nfrom . import (x as y, z)\nglobal_ = 1',
    'type X[T: (int), *Ts, **P] = (T)',
    'def f(a: (int) = (1), /, b=(2), *c: (x), d=(3), **e: (y)) -> (z): pass',
    'def f(): return "#"\nif a: x = \'#\'\nclass C: x = "a#b"  \nfor i in j:\n    y = "# not a comment"\nwhile a:\n    z = f("#")  # real\n',
    'try:\n    x = "#"\nexcept E:\n    y = \'#\'\nelse:\n    z = "#"\nfinally:\n    w = "#" # c\nwith a:\n    v = """#"""\nmatch a:\n    case 1:\n        u = "#"\n',
    'def f[T: (int, str), *Ts, **P](a: T, *b: (Ts)) -> (T): pass\nasync def g[U: (int)](): pass\nclass K[V: (a, b)](B): pass',
    'f(k=1, *a, *b, *c)\nf(x, k=1, *a, j=2, *b, *c, *d)\nf(*a, k=1, *b, **d, l=2)\nclass C(k=1, *a, *b, *c): pass\nclass D(x, *y, k=1, *a, *b, **kw): pass',
    'f((target))\nclass C((base)): pass\nfrom m import (a as b)\nmatch x:\n    case C((p)): pass\n',
    'def f[T, U: (int, str), *V](a: (T)) -> U: pass\nasync def g[*A, B: (x), **C](): pass\nclass K[T, V: (a, b)](B[T], k=(V)): pass\nclass L[T, U: (int)]: pass\ntype X[T, U: (a, b)] = (T, U)',
    'match x:\n    case {1: a, 2: C(rest=b), **rest}: pass\n    case C(p, (q), k=(r), kk=C(k=1), kkk=[k]): pass\n    case {**kw}: pass\n    case {"a": 1, **  r2 ,}: pass\n',
    'class C[T](B[T]): pass\nclass D(B[0]): pass\ndef f(a=[1]): pass\ndef g[T](a: list[T]) -> x[T]: pass\ntype X = list[int]\ntype Y[T] = list[T]',
    'class C(k=a[0], *b): pass\nclass D(k={1: 2}, *b[1:2], l=c[0]): pass',
    'match x:\n    case cls(a, b=c): pass\n    case cls((a), b, k=v, z=w): pass\n    case Pt(q=(1 | 2), r=s): pass\n    case cls(a, b=(c)): pass\n    case K((u), v=w, z=( (y) )): pass\n    case Mé(é=(\'ü\'), ñ=( n ), ö=(o)): pass\n    case Long(\n        first,\n        key = (\n            value\n        ),\n        other=( [p, q] )\n    ): pass\n',
    'é = {(a): (b), **(c), \'ü\': (\n    d\n), **e}\nñ = (a) < (é) == (\n  c\n) in (d)\nmatch x:\n    case {1: (a), \'é\': (b | c), **r}: pass\n    case [(a), (b), *c] | ((d)): pass\n',
    'f((a), *(b), k=(é), *c, **(d))\nclass C((A), *(B), k=(v), **(kw)): pass\nx = [(a), (\n b\n), *(c)]\nimport a.b as c, d\nfrom m import (x as y, z)\ndel (a), (b)\nwith (a) as (b), (c): pass\n',
    '@d("#")\ndef f(x="#"): return x["#"]\nasync def g():\n    async with a: await b("#")\n',
]


# ---------------------------------------------------------------------------------------------------------------------
# corpus

def inject_multibyte(src, rng):
    """rename identifiers to multi-byte ones, put multi-byte characters into plain strings and comments"""
    try:
        toks = list(tokenize.generate_tokens(io.StringIO(src).readline))
    except Exception:
        return src
    lines = src.split('\n')
    ren = {}
    edits = []
    fdepth = 0
    for t in toks:
        name = tokenize.tok_name[t.type]
        if name == 'FSTRING_START':
            fdepth += 1
        elif name == 'FSTRING_END':
            fdepth -= 1
        if t.start[0] != t.end[0]:
            continue
        if t.type == tokenize.NAME and not keyword.iskeyword(t.string) and t.string not in ('match', 'case', 'type', '_', 'print', 'range', 'open', 'set', 'list', 'int', 'self'):
            if t.string not in ren:
                ren[t.string] = rng.choice([None, None, t.string + 'é', 'ñ' + t.string, '日' + t.string, t.string + 'ж日'])
            if ren[t.string]:
                edits.append((t.start[0] - 1, t.start[1], t.end[1], ren[t.string]))
        elif t.type == tokenize.STRING and fdepth == 0 and t.string[0] in '"\'' and len(t.string) >= 2 and rng.random() < 0.5:
            q = 3 if t.string[:3] in ('"""', "'''") else 1
            edits.append((t.start[0] - 1, t.start[1] + q, t.start[1] + q, rng.choice(['😀', 'é', '日本'])))
        elif t.type == tokenize.COMMENT and rng.random() < 0.5:
            edits.append((t.start[0] - 1, t.end[1], t.end[1], rng.choice([' 😀', 'é', ' 日本 '])))
    for ln, a, b, s in sorted(edits, reverse=True):
        lines[ln] = lines[ln][:a] + s + lines[ln][b:]
    new = '\n'.join(lines)
    try:
        ast.parse(new)
        return new
    except Exception:
        return src


def arglist_shape(rng):
    """a Call argument list / ClassDef bases list mixing positional, *starred, keyword and **kw arguments: keywords
    interleaved with starred arguments, 0-4 starred after the last keyword (parsed by CPython before use)"""
    names = iter(['a', 'b', 'c', 'd', 'e', 'g', 'h', 'i', 'j', 'm', 'n', 'o', 'p', 'q', 'r', 's', 't', 'u', 'v', 'w'])
    kws = iter(['k', 'l', 'kk', 'ky', 'kz', 'kq'])

    def val():
        n = next(names)
        return rng.choice([n, n, n, f'({n})', f'{n}.x', f'{n}[0]', f'{n} or 1', f'{n}[1:2]', f'{{1: {n}}}', f'(lambda: {n})'])

    items = []
    for _ in range(rng.choice([0, 0, 1, 2])):
        items.append(rng.choice(['', '', '*']) + val())
    nkw = rng.choice([0, 1, 1, 2, 3])
    for i in range(nkw):
        items.append(f'{next(kws)}={val()}')
        last = i == nkw - 1
        for _ in range(rng.choice([0, 1, 2, 3, 4]) if last else rng.choice([0, 0, 1, 2])):
            items.append('*' + val())
    if rng.random() < 0.3:
        items.append('**' + val())
        if rng.random() < 0.5:
            items.append(f'{next(kws)}={val()}')
    sep = rng.choice([', ', ', ', ',', ' , ', ',\n    ', ',  # c\n    '])
    txt = sep.join(items)
    if items and rng.random() < 0.2:
        txt += ','
    return txt


def arglist_programs(rng, n):
    out = []
    while len(out) < n:
        a = arglist_shape(rng)
        c = rng.random()
        if c < 0.5:
            src = f'r = f({a})'
        elif c < 0.7:
            src = f'class C({a}): pass'
        elif c < 0.85:
            src = f'@d({a})\nclass C({arglist_shape(rng)}):\n    x = g({arglist_shape(rng)})'
        else:
            src = f'r = f(g({a}), k=h({arglist_shape(rng)}))'
        try:
            ast.parse(src)
        except SyntaxError:
            continue
        if rng.random() < 0.25:
            src = inject_multibyte(src, rng)
        out.append(src)
    return out


def staircase_layouts():
    """deterministic product: argument / element lists x containers x layouts in which LATER elements sit on LATER lines
    at SMALLER (or equal) columns than earlier ones (position comparisons must be lexicographic in (line, column))"""
    shapes = [['a', 'k=v', '*f(x)'], ['k=v', '*f(x)', '*g(y)'], ['a', 'k=(v)', '*(b)', 'l=w', '*h(z)[(0)]'],
              ['*a', 'k=v', '**f(x)'], ['k=v', '**kw'], ['a', '*b', 'k=f(x)'], ['a', 'metaclass=M', '*mixins(é)']]
    conts = ['class C({}): pass', 'r = f({})', '@d({})\ndef g(): pass', 'r = f(x)({})']
    plain = [['a', '(b)', 'f(c)', 'é'], ['(a)', 'g(b)[(0)]', 'c']]
    pconts = ['r = [{}]', 'r = ({},)', 'r = {{{}}}', 'del {}', 'r = {} if x else y'.replace('{}', 'h({})'), 'assert {}'.replace('{}', '({},)')]
    out = []

    def layouts(items):
        n = len(items)
        yield ', '.join(items)
        yield ',\n  '.join(items)                                               # later lines at column 2
        yield ' ' * 12 + ',\n '.join(items)                                     # first element far right
        yield ',\n'.join(' ' * max(1, 3 * (n - i)) + it for i, it in enumerate(items))     # staircase to the left
        yield ', '.join(items[:-1]) + ',\n ' + items[-1] + ',\n'               # only the last one on the next line, trailing comma

    for sh in shapes:
        for c in conts:
            for lay in layouts(sh):
                out.append(c.format(lay))
    for sh in plain:
        for c in pconts:
            for lay in layouts(sh):
                out.append(c.format(lay))
    ok = []
    for p in out:
        try:
            ast.parse(p)
            ok.append(p)
        except SyntaxError:
            pass
    return ok


def programs(rng, n, stdlib):
    out = staircase_layouts() + arglist_programs(rng, max(12, n // 12))
    base = corpus.programs(rng, n, stdlib=stdlib)
    for src in base:
        if rng.random() < 0.35:
            src = inject_multibyte(src, rng)
        out.append(src)
    # the C06 layout snippets, alone and after the layout mutators
    for s in SNIPPETS:
        out.append(s)
        t = corpus.mutate_layout(s, rng, 0.3)
        if t != s:
            out.append(t)
        if rng.random() < 0.5:
            out.append(inject_multibyte(corpus.add_comments(s, rng, 0.4), rng))
    return out


# ---------------------------------------------------------------------------------------------------------------------
# helpers on a pfst tree

def _mk(src):
    from fst import FST
    return FST(src, 'exec')


def _walk_list(root):
    """[(fst node, depth among the listed nodes, index of listed parent or None)] in walk('loc') order"""
    out = []
    idx = {}
    for f in root.walk('loc'):
        p = f.parent
        while p is not None and id(p) not in idx:
            p = p.parent
        pi = idx[id(p)] if p is not None else None
        d = out[pi][1] + 1 if pi is not None else 0
        idx[id(f)] = len(out)
        out.append((f, d, pi))
    return out


def _contains(l, q):
    return (l[0], l[1]) <= (q[0], q[1]) and (q[2], q[3]) <= (l[2], l[3])


def _queries(rng, nodes, lines, n, empty_ok):
    qs = []
    for _ in range(n * 3):
        if len(qs) >= n:
            break
        c = rng.random()
        if c < 0.45:
            q = list(rng.choice(nodes)[0].loc)
            if rng.random() < 0.6:
                k = rng.randrange(4)
                q[k] = max(0, q[k] + rng.choice([-1, 1, -2, 2]))
                if k in (0, 2):
                    q[k] = min(q[k], len(lines) - 1)
        elif c < 0.6:
            a, b = rng.choice(nodes)[0].loc, rng.choice(nodes)[0].loc
            q = [a[0], a[1], b[2], b[3]]
        else:
            a = rng.randrange(len(lines))
            b = min(len(lines) - 1, a + rng.choice([0, 0, 0, 1, 2]))
            q = [a, rng.randint(0, len(lines[a])), b, rng.randint(0, len(lines[b]))]
        if (q[0], q[1]) > (q[2], q[3]):
            continue
        if not empty_ok and (q[0], q[1]) == (q[2], q[3]):
            continue
        qs.append(q)
    return qs


# ---------------------------------------------------------------------------------------------------------------------
# correspondence workers

def _corr_prog(arg):
    try:
        return _corr_prog_inner(arg)
    except Exception as e:
        return {'pars': [], 'find': None, 'exc': f'{type(e).__name__}: {e}', 'src': arg[0]}


def _corr_prog_inner(arg):
    """pars() and find_*loc(): Lean cases + implementation answers for one program"""
    src, seed, nq = arg
    rng = random.Random(seed)
    out = {'pars': [], 'find': None}
    try:
        root = _mk(src)
    except Exception:
        return out
    lines = root._lines
    el = c06_scan.enc_lines(lines)
    for f in root.walk(True):
        if f.bloc is None:
            continue
        par = f.is_parenthesizable()
        for shared in (True, False, None):
            try:
                r = f.pars(shared=shared)
            except Exception as e:
                out['pars'].append(({'f': 'C06.pars', 'lines': el, 'a': list(f.bloc) + [0, 0, 0, 0], 'shared': shared,
                                     'parenthesizable': par}, {'exc': type(e).__name__}, f.a.__class__.__name__))
                continue
            if par or shared is None:
                nb, pb = f._next_bound(), f._prev_bound()
            else:
                nb = pb = (0, 0)
            case = {'f': 'C06.pars', 'lines': el, 'a': list(f.bloc) + list(nb) + list(pb), 'shared': shared,
                    'parenthesizable': par, 'solo_genexp': bool(f._is_solo_call_arg_genexp()),
                    'solo_shared': bool(f._is_solo_call_arg() or f._is_solo_class_base() or f._is_solo_matchcls_pat())}
            out['pars'].append((case, [r[0], r[1], r[2], r[3], r.n], f.a.__class__.__name__))
    nodes = _walk_list(root)
    ids = {id(f): k for k, (f, _, _) in enumerate(nodes)}
    nl = [[k, *f.loc, d] for k, (f, d, _) in enumerate(nodes)]
    qs = _queries(rng, nodes, lines, nq, True)

    def idof(x):
        return None if x is None else ids[id(x)]

    impl = []
    for q in qs:
        impl.append([idof(root.find_loc(*q)), idof(root.find_loc(*q, True)), idof(root.find_contains_loc(*q, True)),
                     idof(root.find_contains_loc(*q, False)), idof(root.find_contains_loc(*q, 'top')),
                     idof(root.find_in_loc(*q))])
    decos = [k for k, (f, _, _) in enumerate(nodes) if f.pfield and f.pfield.name == 'decorator_list']
    out['find'] = ({'f': 'C06.find', 'nodes': nl, 'decos': decos, 'queries': qs}, impl)
    return out


# ---------------------------------------------------------------------------------------------------------------------
# the property itself on the real code (CPython-judged)

def _kind(a):
    return a.__class__.__name__


def _judge_nodes(root, orc, res, fail, tally):
    """every node of a (fresh or edited) pfst tree against the CPython oracle of its CURRENT source: loc, char/byte
    coordinates, bloc, decorators, header colon, pars().  Returns {id(pfst ast node): CPython node} or None when the
    live tree does not have the shape of a fresh parse."""
    lines = orc.lines
    pairs = list(zip(ast.walk(root.a), ast.walk(orc.tree)))
    if any(a.__class__ is not o.__class__ for a, o in pairs):
        tally('excluded:tree-shape-differs')
        return None
    o_of = {id(a): o for a, o in pairs}

    def text_chars(loc):
        ln, col, eln, ecol = loc
        if ln == eln:
            return lines[ln][col:ecol]
        return '\n'.join([lines[ln][col:]] + lines[ln + 1:eln] + [lines[eln][:ecol]])

    def text_bytes(lno, co, elno, eco):
        bl = orc.blines
        if lno == elno:
            return bl[lno - 1][co:eco].decode()
        return b'\n'.join([bl[lno - 1][co:]] + bl[lno:elno - 1] + [bl[elno - 1][:eco]]).decode()

    def as_span(loc):
        return ((loc[0], loc[1]), (loc[2], loc[3]))

    for f in root.walk(True):
        a = f.a
        o = o_of[id(a)]
        k = _kind(a)
        try:
            loc = f.loc
        except Exception as e:
            fail(f'C06|loc|{k}|raised', f'.loc raised {type(e).__name__}: {e}', node=k)
            continue
        if loc is None:
            if isinstance(o, (ast.operator, ast.unaryop, ast.cmpop)):
                fail(f'C06|loc|{k}|no-location', f'operator {k} has no loc', node=k)
            continue
        res['checks'] += 1
        sp = as_span(loc)
        where = {'node': k, 'loc': list(loc)}
        # --- the location itself -------------------------------------------------------------------------------------
        if isinstance(o, ast.Module):
            if sp != ((0, 0), (len(lines) - 1, len(lines[-1]))):
                fail('C06|loc|Module|not-whole-source', f'Module loc {loc}', **where)
        elif orc.has_pos(o):
            exp = orc.span(o)
            if sp != exp:
                fail(f'C06|loc|{k}|loc!=ast-span', f'{k} loc {loc} but CPython span {exp}', **where)
            elif id(o) not in orc.in_fstr and not isinstance(o, ast.JoinedStr):
                if orc.first_last(o) is None:
                    tally('note:ast-span-not-on-token-boundaries:' + k)
        elif isinstance(o, (ast.operator, ast.unaryop, ast.cmpop)):
            exp = orc.expected_op(o_of[id(f.parent.a)], o, f.pfield.idx) if f.parent else None
            if exp is None:
                tally('excluded:op-undecided')
            elif sp not in exp:
                fail(f'C06|loc|{k}|op-span', f'{k} loc {loc} but operator token(s) at {exp[0]}', **where)
            else:
                res['nontrivial'] += 1
        elif isinstance(o, ast.comprehension):
            exp = orc.expected_comprehension(o)
            if exp is None:
                tally('excluded:comprehension-undecided')
            elif sp != exp:
                fail('C06|loc|comprehension|span', f'comprehension loc {loc} but tokens span {exp}', **where)
            else:
                res['nontrivial'] += 1
        elif isinstance(o, ast.withitem):
            exp = orc.expected_withitem(o)
            if exp is None:
                tally('excluded:withitem-undecided')
            elif sp != exp:
                fail('C06|loc|withitem|span', f'withitem loc {loc} but tokens span {exp}', **where)
            else:
                res['nontrivial'] += 1
        elif isinstance(o, ast.match_case):
            exp = orc.expected_match_case(o)
            if exp is None:
                tally('excluded:match_case-undecided')
            elif sp not in exp:
                fail('C06|loc|match_case|span', f'match_case loc {loc} but tokens span {exp[0]}', **where)
            else:
                res['nontrivial'] += 1
        elif isinstance(o, ast.arguments):
            exp = orc.expected_arguments(o)
            if exp is None:
                tally('excluded:arguments-undecided')
            elif sp not in exp:
                fail('C06|loc|arguments|span', f'arguments loc {loc} but delimiters give {exp[0]}', **where)
            else:
                res['nontrivial'] += 1
        else:
            tally('note:unjudged-kind:' + k)
        # --- char vs byte coordinates --------------------------------------------------------------------------------
        try:
            bt = text_bytes(f.lineno, f.col_offset, f.end_lineno, f.end_col_offset)
        except Exception as e:
            bt = f'<{type(e).__name__}>'
        if bt != text_chars(loc):
            fail(f'C06|coords|{k}|char!=byte', f'{k}: chars {text_chars(loc)!r} bytes {bt!r}', **where)
        if orc.has_pos(o) and (f.lineno, f.col_offset, f.end_lineno, f.end_col_offset) != (o.lineno, o.col_offset, o.end_lineno, o.end_col_offset):
            fail(f'C06|coords|{k}|byte-offsets!=ast', f'{k}: lineno/col_offset accessors differ from CPython', **where)
        if not lines[loc[0]].isascii() or not lines[loc[2]].isascii():
            tally('nonascii-line-nodes')
        # --- bloc ----------------------------------------------------------------------------------------------------
        try:
            bloc = f.bloc
        except Exception as e:
            fail(f'C06|bloc|{k}|raised', f'.bloc raised {type(e).__name__}', **where)
            bloc = loc
        if orc.has_pos(o) and isinstance(o, BLOCKS):
            exp = orc.expected_bloc(o, sp[1])
            if exp is None:
                tally('excluded:bloc-undecided')
            elif as_span(bloc) != exp:
                fail(f'C06|bloc|{k}|span', f'{k} bloc {bloc} but decorators/comment give {exp}', **where)
            elif bloc != loc:
                res['nontrivial'] += 1
        elif bloc != loc and not isinstance(o, ast.match_case):
            fail(f'C06|bloc|{k}|differs-for-non-block', f'{k} bloc {bloc} != loc {loc}', **where)
        # --- decorators ----------------------------------------------------------------------------------------------
        for i, d in enumerate(getattr(o, 'decorator_list', ()) or ()):
            at, g = orc.deco_at(d), orc.group_span(d)
            if at is None or g is None:
                tally('excluded:decorator-undecided')
                continue
            try:
                dl = f._loc_decorator(i)
            except Exception as e:
                fail(f'C06|_loc_decorator|{k}|raised', f'raised {type(e).__name__}', **where)
                continue
            if as_span(dl) != (at.start, g[1]):
                fail(f'C06|_loc_decorator|{k}|span', f'decorator {i}: {dl} but tokens give {(at.start, g[1])}', **where)
        # --- block header colon --------------------------------------------------------------------------------------
        if isinstance(o, BLOCKS) or isinstance(o, ast.match_case):
            c = orc.header_colon(o)
            if c is not None:
                try:
                    he = f._loc_block_header_end()
                except AssertionError:
                    he = None
                except Exception as e:
                    he = None
                    fail(f'C06|_loc_block_header_end|{k}|raised', f'raised {type(e).__name__}', **where)
                if he is not None and (he[2], he[3]) != c.end:
                    fail(f'C06|_loc_block_header_end|{k}|colon', f'header end {he} but ":" token ends at {c.end}', **where)
        # --- delimiter pairs owned by the node (computed locations) --------------------------------------------------
        if isinstance(o, (ast.Call, ast.Subscript, ast.MatchClass)) and id(o) not in orc.in_fstr:
            exp = orc.expected_delims(o)
            meth = {'Call': '_loc_Call_pars', 'Subscript': '_loc_Subscript_brackets', 'MatchClass': '_loc_MatchClass_pars'}[k]
            if exp is None:
                tally('excluded:delims-undecided')
            else:
                try:
                    dl = getattr(f, meth)()
                    if as_span(dl) != exp:
                        fail(f'C06|{meth}|{k}|span', f'{meth}() = {tuple(dl)} but the delimiter tokens span {exp}', **where)
                except Exception as e:
                    fail(f'C06|{meth}|{k}|raised', f'{meth}() raised {type(e).__name__}: {e}', **where)
        if isinstance(o, ast.ClassDef):
            exp = orc.expected_bases_pars(o)
            if exp is None:
                tally('excluded:bases-pars-undecided')
            else:
                try:
                    dl = f._loc_ClassDef_bases_pars()
                    if dl.n != exp[0] or as_span(dl) != exp[1]:
                        fail('C06|_loc_ClassDef_bases_pars|ClassDef|span', f'_loc_ClassDef_bases_pars() = {tuple(dl)} n={dl.n} but tokens give n={exp[0]} {exp[1]}', **where)
                except Exception as e:
                    fail('C06|_loc_ClassDef_bases_pars|ClassDef|raised', f'raised {type(e).__name__}: {e}', **where)
        # --- more computed locations: keyword attribute names, type parameter brackets, mapping rest -------------------
        if isinstance(o, ast.MatchClass):
            for i in range(len(o.kwd_attrs)):
                exp = orc.expected_kwd_attr(o, i)
                if exp is None:
                    tally('excluded:kwd-attr-undecided')
                    continue
                try:
                    dl = f._loc_kwd_attrs(i)
                    if as_span(dl) != exp:
                        fail('C06|_loc_kwd_attrs|MatchClass|span', f'_loc_kwd_attrs({i}) = {tuple(dl)} but the NAME token is at {exp}', **where)
                except Exception as e:
                    fail('C06|_loc_kwd_attrs|MatchClass|raised', f'raised {type(e).__name__}: {e}', **where)
            for i2 in range(len(o.kwd_attrs)):        # ranges of keyword attribute names
                e1, e2 = orc.expected_kwd_attr(o, 0), orc.expected_kwd_attr(o, i2)
                if e1 is None or e2 is None:
                    continue
                try:
                    dl = f._loc_kwd_attrs(0, i2)
                    if as_span(dl) != (e1[0], e2[1]):
                        fail('C06|_loc_kwd_attrs|MatchClass|range-span', f'_loc_kwd_attrs(0, {i2}) = {tuple(dl)} but the NAME tokens span {(e1[0], e2[1])}', **where)
                except Exception as e:
                    fail('C06|_loc_kwd_attrs|MatchClass|raised', f'raised {type(e).__name__}: {e}', **where)
        if isinstance(o, (ast.FunctionDef, ast.AsyncFunctionDef, ast.ClassDef, ast.TypeAlias)):
            exp = orc.expected_type_params_brackets(o)
            meth = ('_loc_ClassDef_type_params_brackets' if isinstance(o, ast.ClassDef) else
                    '_loc_TypeAlias_type_params_brackets' if isinstance(o, ast.TypeAlias) else '_loc_FunctionDef_type_params_brackets')
            if exp is None:
                tally('excluded:type-params-brackets-undecided')
            else:
                try:
                    br, pos = getattr(f, meth)()
                    got = (None if br is None else as_span(br), tuple(pos))
                    if got != exp:
                        fail(f'C06|{meth}|{k}|span', f'{meth}() = {got} but tokens give {exp}', **where)
                except Exception as e:
                    fail(f'C06|{meth}|{k}|raised', f'raised {type(e).__name__}: {e}', **where)
        if isinstance(o, ast.MatchMapping) and o.rest is not None:
            exp = orc.expected_mapping_rest(o)
            if exp is None:
                tally('excluded:mapping-rest-undecided')
            else:
                try:
                    a1, a2 = f._loc_MatchMapping_rest(), f._loc_MatchMapping_rest(True)
                    if as_span(a1) != exp[0] or as_span(a2) != (exp[1], exp[0][1]):
                        fail('C06|_loc_MatchMapping_rest|MatchMapping|span', f'_loc_MatchMapping_rest() = {tuple(a1)} / {tuple(a2)} but tokens give {exp}', **where)
                except Exception as e:
                    fail('C06|_loc_MatchMapping_rest|MatchMapping|raised', f'raised {type(e).__name__}: {e}', **where)
        # --- pars() --------------------------------------------------------------------------------------------------
        if isinstance(o, (ast.expr, ast.pattern)) and not isinstance(o, (ast.Slice, ast.FormattedValue, ast.Starred, ast.JoinedStr)) \
                and id(o) not in orc.in_fstr and id(o) not in orc.in_pattern and orc.has_pos(o):
            g = orc.grouping(o)
            if g is None:
                tally('excluded:pars-undecided')
            else:
                try:
                    p = f.pars()
                except Exception as e:
                    fail(f'C06|pars|{k}|raised', f'pars() raised {type(e).__name__}', **where)
                    p = None
                if p is not None:
                    if p.n != g[0]:
                        fail(f'C06|pars|{k}|count', f'{k} at {loc}: pars().n = {p.n} but {g[0]} balanced grouping pairs belong to it', pars=[*p, p.n], **where)
                    elif as_span(p) != g[1]:
                        fail(f'C06|pars|{k}|span', f'{k} at {loc}: pars() = {tuple(p)} but outermost pair spans {g[1]}', pars=[*p, p.n], **where)
                    if g[0]:
                        res['nontrivial'] += 1
                        tally('pars-count:' + str(min(g[0], 3)))
    return o_of


def _judge_geometry(root, orc, o_of, res, fail, tally):
    """children inside parents, siblings ordered; returns the walk list"""
    nodes = _walk_list(root)
    kids = {}
    for i, (f, d, pi) in enumerate(nodes):
        if pi is not None:
            kids.setdefault(pi, []).append(i)
    for pi, ks in kids.items():
        p = nodes[pi][0]
        po = o_of[id(p.a)]
        if isinstance(po, ast.JoinedStr) or id(po) in orc.in_fstr:
            tally('excluded:fstring-children')
            continue
        pstart = tuple(p.bloc[:2]) if getattr(p.a, 'decorator_list', None) else tuple(p.loc[:2])
        pend = tuple(p.loc[2:])
        prev_end = None
        prev_k = None
        for i in ks:
            c = nodes[i][0]
            cs, ce = tuple(c.bloc[:2]), tuple(c.loc[2:])
            res['checks'] += 1
            if cs < pstart or ce > pend:
                fail(f'C06|containment|{_kind(p.a)}.{_kind(c.a)}|child-outside-parent',
                     f'{_kind(c.a)} {c.loc} not inside parent {_kind(p.a)} {p.loc}', node=_kind(c.a), loc=list(c.loc))
            if prev_end is not None and cs < prev_end:
                fail(f'C06|sibling-order|{_kind(p.a)}|{prev_k}/{_kind(c.a)}-overlap',
                     f'{_kind(c.a)} {c.loc} starts before the end {prev_end} of its previous sibling {prev_k}', node=_kind(c.a), loc=list(c.loc))
            prev_end, prev_k = ce, _kind(c.a)
    return nodes


def _elem_extent(orc, o):
    """(start, end) of one element of a sliceable field as a view reports it: grouping parentheses of an expression /
    pattern included, decorators and trailing block comment for statements; None = not judged"""
    if isinstance(o, (ast.Starred, ast.Slice)) or isinstance(o, (ast.keyword, ast.alias, ast.arg, ast.type_param)):
        return orc.span(o) if orc.has_pos(o) else None
    if isinstance(o, (ast.expr, ast.pattern)):
        if id(o) in orc.in_fstr or isinstance(o, (ast.JoinedStr, ast.FormattedValue)):
            return None
        return orc.group_span(o)
    if isinstance(o, (ast.stmt, ast.ExceptHandler)):
        if isinstance(o, BLOCKS):
            return orc.expected_bloc(o, None)
        return orc.span(o)
    if isinstance(o, ast.comprehension):
        return orc.expected_comprehension(o)
    if isinstance(o, ast.withitem):
        return orc.expected_withitem(o)
    return None


def _view_elements(orc, o):
    """{view name: [(start, end) | None per element]} for the sliceable real and virtual fields of the CPython node"""
    out = {}
    for field in o._fields:
        v = getattr(o, field, None)
        if isinstance(v, list) and v and all(isinstance(x, ast.AST) for x in v) and field not in ('ops', 'cases', 'keys'):
            if isinstance(o, ast.JoinedStr) or id(o) in orc.in_fstr:
                continue
            if field == 'decorator_list':
                ex = []
                for d in v:
                    at, g = orc.deco_at(d), orc.group_span(d)
                    ex.append(None if at is None or g is None else (at.start, g[1]))
                out[field] = ex
            elif field == 'targets' and isinstance(o, ast.Assign):     # documented: a target element includes its `=`
                ex = []
                for x in v:
                    g = orc.group_span(x)
                    t = None if g is None else orc.by_end.get(g[1])
                    nx = orc.toks[t.i + 1] if t is not None and t.i + 1 < len(orc.toks) else None
                    ex.append((g[0], nx.end) if nx is not None and nx.s == '=' else None)
                out[field] = ex
            elif field == 'ifs' and isinstance(o, ast.comprehension):  # documented: an element includes its leading `if`
                ex = []
                for x in v:
                    g = orc.group_span(x)
                    t = None if g is None else orc.by_start.get(g[0])
                    pv = orc.toks[t.i - 1] if t is not None and t.i else None
                    ex.append((pv.start, g[1]) if pv is not None and pv.s == 'if' else None)
                out[field] = ex
            else:
                out[field] = [_elem_extent(orc, x) for x in v]
    if isinstance(o, (ast.Call, ast.ClassDef)):
        pos = (o.args if isinstance(o, ast.Call) else o.bases) + o.keywords
        if pos and all(orc.has_pos(x) for x in pos):
            pos = sorted(pos, key=lambda x: (x.lineno, x.col_offset))
            out['_args' if isinstance(o, ast.Call) else '_bases'] = [_elem_extent(orc, x) for x in pos]
    if isinstance(o, ast.MatchClass) and (o.patterns or o.kwd_patterns):
        ex = [_elem_extent(orc, x) for x in o.patterns]
        for k in range(len(o.kwd_patterns)):
            a, g = orc.expected_kwd_attr(o, k), orc.group_span(o.kwd_patterns[k])
            ex.append(None if a is None or g is None else (a[0], g[1]))
        out['_attrs'] = ex
    if isinstance(o, ast.Dict) and o.values:
        ex = []
        for k, v in zip(o.keys, o.values):
            g = orc.group_span(v)
            if g is None:
                ex.append(None)
            elif k is not None:
                gk = orc.group_span(k)
                ex.append(None if gk is None else (gk[0], g[1]))
            else:
                t = orc.by_start.get(g[0])
                ex.append((orc.toks[t.i - 1].start, g[1]) if t is not None and t.i and orc.toks[t.i - 1].s == '**' else None)
        out['_all'] = ex
    if isinstance(o, ast.MatchMapping) and (o.keys or o.rest):
        ex = []
        for k, v in zip(o.keys, o.patterns):
            gk, g = orc.group_span(k) if id(k) not in orc.in_fstr else None, orc.group_span(v)
            fl = orc.first_last(k)
            ex.append(None if fl is None or g is None else (fl[0].start, g[1]))
        if o.rest is not None:
            r = orc.expected_mapping_rest(o)
            ex.append(None if r is None else (r[1], r[0][1]))
        out['_all'] = ex
    if isinstance(o, ast.Compare):
        out['_all'] = [_elem_extent(orc, x) for x in [o.left] + o.comparators]
    if isinstance(o, (ast.Module, ast.FunctionDef, ast.AsyncFunctionDef, ast.ClassDef)) and o.body:
        b = o.body
        if isinstance(b[0], ast.Expr) and isinstance(b[0].value, ast.Constant) and isinstance(b[0].value.value, str):
            b = b[1:]
        if b:
            out['_body'] = [_elem_extent(orc, x) for x in b]
    return out


def _judge_views(root, orc, o_of, res, fail, tally):
    """VIEW locations are reported locations too: every contiguous window of every sliceable field of every node"""
    for f in root.walk(True):
        o = o_of[id(f.a)]
        k = _kind(o)
        for name, ex in _view_elements(orc, o).items():
            try:
                view = getattr(f, name)
                n = len(view)
            except Exception as e:
                tally(f'view-unavailable:{k}.{name}:{type(e).__name__}')
                continue
            if n != len(ex):
                tally(f'excluded:view-length-differs:{k}.{name}')
                continue
            if n <= 6:
                wins = [(i, j) for i in range(n) for j in range(i + 1, n + 1)]
            else:
                wins = [(i, i + 1) for i in range(n)] + [(i, i + 2) for i in range(n - 1)] + [(0, j) for j in range(3, n + 1)] + [(i, n) for i in range(1, n - 2)]
            for i, j in wins:
                if ex[i] is None or ex[j - 1] is None:
                    tally('excluded:view-element-undecided')
                    continue
                exp = (ex[i][0], ex[j - 1][1])
                res['checks'] += 1
                try:
                    v = view[i:j]
                    loc = v.loc
                    acc = (v.ln, v.col, v.end_ln, v.end_col)
                    bloc = v.bloc
                except Exception as e:
                    fail(f'C06|view.loc|{k}.{name}|raised', f'{k}.{name}[{i}:{j}] raised {type(e).__name__}: {e}', node=k, view=name, window=[i, j])
                    continue
                if loc is None or ((loc[0], loc[1]), (loc[2], loc[3])) != exp:
                    txt = None if loc is None else root._get_src(*loc)
                    fail(f'C06|view.loc|{k}.{name}|span', f'{k}.{name}[{i}:{j}].loc = {None if loc is None else tuple(loc)} (text {txt!r}) but the elements span {exp}',
                         node=k, view=name, window=[i, j])
                elif acc != tuple(loc) or tuple(bloc) != tuple(loc):
                    fail(f'C06|view.loc|{k}.{name}|accessors-disagree', f'{k}.{name}[{i}:{j}]: loc {tuple(loc)} but ln/col/end_ln/end_col = {acc}, bloc = {tuple(bloc)}',
                         node=k, view=name, window=[i, j])
                else:
                    res['nontrivial'] += 1
                    tally('views-judged')


def _sweep_prog(arg):
    """never raises: an exception escaping from pfst while locations are queried is a failure of the property"""
    try:
        return _sweep_prog_inner(arg)
    except Exception as e:
        import traceback
        tb = traceback.extract_tb(e.__traceback__)
        where = next((f'{fr.name}:{fr.lineno}' for fr in reversed(tb) if '/fst/' in fr.filename), 'harness')
        return {'fails': [(f'C06|query|{type(e).__name__}|raised', f'{type(e).__name__}: {e} (in {where})',
                           {'src': arg[0], 'traceback': traceback.format_exc()[-1200:]})],
                'tally': {}, 'checks': 1, 'nontrivial': 0}


def _sweep_prog_inner(arg):
    src, seed, nq = arg
    rng = random.Random(seed)
    res = {'fails': [], 'tally': {}, 'checks': 0, 'nontrivial': 0}
    fails = res['fails']

    def tally(k, n=1):
        res['tally'][k] = res['tally'].get(k, 0) + n

    def fail(sig, what, **w):
        w['src'] = src
        fails.append((sig, what, w))

    try:
        orc = Oracle(src)
    except Exception:
        return res
    try:
        root = _mk(src)
    except Exception as e:
        fail('C06|parse|Module|raised', f'FST(src) raised {type(e).__name__}: {e}')
        return res
    o_of = _judge_nodes(root, orc, res, fail, tally)
    if o_of is None:
        return res
    # --- pars() must not depend on the order in which the three `shared` modes are asked -----------------------------
    def par_nodes(r):
        out = []
        for i, f in enumerate(r.walk(True)):
            o = o_of_idx[i]
            if isinstance(o, (ast.expr, ast.pattern)) and not isinstance(o, (ast.Slice, ast.FormattedValue, ast.Starred, ast.JoinedStr)) \
                    and id(o) not in orc.in_fstr and id(o) not in orc.in_pattern and orc.has_pos(o):
                out.append((i, f, o))
        return out

    o_of_idx = [o_of[id(f.a)] for f in root.walk(True)]
    answers = {}
    for order in itertools.permutations((True, False, None)):
        try:
            r2 = _mk(src)
        except Exception:
            break
        if [f.a.__class__ for f in r2.walk(True)] != [o.__class__ for o in o_of_idx]:
            break
        for i, f, o in par_nodes(r2):
            for sh in order:
                try:
                    p = f.pars(shared=sh)
                    answers.setdefault((i, sh), []).append((order, (p[0], p[1], p[2], p[3], p.n)))
                except Exception as e:
                    answers.setdefault((i, sh), []).append((order, ('raised', type(e).__name__)))
    for (i, sh), lst in answers.items():
        res['checks'] += 1
        o = o_of_idx[i]
        k = _kind(o)
        vals = {}
        for order, a in lst:
            vals.setdefault(a, []).append(order)
        # the answer of a mode asked FIRST on a fresh tree, judged by the token oracle
        first = next((a for order, a in lst if order[0] is sh), None)
        exp = None
        if sh is True:
            exp = orc.grouping(o)
        elif sh is None:
            po = orc.parent.get(id(o))
            if not (isinstance(o, ast.GeneratorExp) and isinstance(po, ast.Call) and len(po.args) == 1 and not po.keywords):
                exp = orc.grouping_any(o)       # (a sole genexp argument sharing the call's parentheses answers n=-1: not judged)
        if len(vals) > 1:
            (a1, o1), (a2, o2) = list(vals.items())[:2]
            judged = ''
            if exp is not None:
                wrong = [a for a in vals if a[0] == 'raised' or a[4] != exp[0] or ((a[0], a[1]), (a[2], a[3])) != exp[1]]
                judged = f'; the token stream gives {exp[0]} pair(s) spanning {exp[1]}, so {wrong} is not the node\'s parentheses'
            fail(f'C06|pars(shared={sh})|{k}|answer-depends-on-query-order',
                 f'{k} at {orc.span(o)}: pars(shared={sh}) = {a1} when the modes are asked in order {o1[0]} but {a2} in order {o2[0]}{judged}',
                 node=k, orders={str(a): [list(map(str, x)) for x in os_] for a, os_ in vals.items()})
        elif exp is not None and first is not None and sh is None:
            if first[0] == 'raised' or first[4] != exp[0] or ((first[0], first[1]), (first[2], first[3])) != exp[1]:
                fail(f'C06|pars(shared=None)|{k}|{"count" if first[0] == "raised" or first[4] != exp[0] else "span"}',
                     f'{k} at {orc.span(o)}: pars(shared=None) = {first} but {exp[0]} parenthesis pair(s) enclose it directly, spanning {exp[1]}', node=k)
    nodes = _judge_geometry(root, orc, o_of, res, fail, tally)
    _judge_views(root, orc, o_of, res, fail, tally)
    # --- find_*loc vs brute force ------------------------------------------------------------------------------------
    in_deco = set()
    for i, (f, d, pi) in enumerate(nodes):
        if pi in in_deco or (f.pfield and f.pfield.name == 'decorator_list'):
            in_deco.add(i)
    anc = {}
    for i, (f, d, pi) in enumerate(nodes):
        anc[i] = (anc[pi] | {pi}) if pi is not None else frozenset()
    ids = {id(f): i for i, (f, _, _) in enumerate(nodes)}
    # the scan is over CPython's own positions wherever the node has them (computed locations were judged above)
    locs = []
    for f, _, _ in nodes:
        o = o_of[id(f.a)]
        if orc.has_pos(o):
            (a, b), (c, d) = orc.span(o)
            locs.append((a, b, c, d))
        else:
            locs.append(tuple(f.loc))
    in_fstr = {i for i, (f, _, _) in enumerate(nodes) if id(o_of[id(f.a)]) in orc.in_fstr}
    # every node's own rectangle (deterministic), then random / boundary rectangles
    own = []
    seen_q = set()
    for l in locs:
        if (l[0], l[1]) < (l[2], l[3]) and l not in seen_q:
            seen_q.add(l)
            own.append(l)
    for q in own + [tuple(x) for x in _queries(rng, nodes, root._lines, nq, False)]:
        q = tuple(q)
        res['checks'] += 1
        cont = [i for i, l in enumerate(locs) if _contains(l, q)]
        exact = [i for i in cont if locs[i] == q]
        inside = [i for i, l in enumerate(locs) if _contains(q, l)]
        if any(i in in_fstr for i in cont) or any(i in in_fstr for i in inside):
            tally('excluded:find-query-touches-fstring-internals')     # CPython overlaps `{x=}` parts: no tree order
            continue
        if cont or inside:
            res['nontrivial'] += 1

        def deepest(cands):
            """the candidate all other candidates are ancestors of; 'amb' if the candidates do not form a chain"""
            if not cands:
                return None
            m = max(cands, key=lambda i: nodes[i][1])
            if any(c != m and c not in anc[m] for c in cands):
                return 'amb'
            return m

        def got(x):
            return None if x is None else ids[id(x)]

        def report(fn, exp, g, cls=None):
            if exp == 'amb':
                tally('excluded:find-ambiguous')
                return
            if exp == g:
                return
            ek = 'None' if exp is None else _kind(nodes[exp][0].a)
            gk = 'None' if g is None else _kind(nodes[g][0].a)
            if cls is None:
                cls = 'wrong-node'
                if exp is not None and exp in in_deco:
                    ek, cls = 'decorator', 'node-inside-decorator-not-reached'
            else:
                ek = 'shared-span'
            fail(f'C06|{fn}|{ek}|{cls}', f'{fn}{q}: returned {gk} {None if g is None else locs[g]}, brute force over all nodes gives '
                 f'{ek if exp is None else _kind(nodes[exp][0].a)} {None if exp is None else locs[exp]}', query=list(q))

        # find_contains_loc: lowest-level node that entirely contains the rectangle
        report('find_contains_loc', deepest(cont), got(root.find_contains_loc(*q)))
        report('find_contains_loc(allow_exact=False)', deepest([i for i in cont if locs[i] != q]), got(root.find_contains_loc(*q, False)))
        top_exp = min(exact, key=lambda i: nodes[i][1]) if exact else deepest(cont)
        g = got(root.find_contains_loc(*q, 'top'))
        if exact and g in exact and g != top_exp:
            report("find_contains_loc(allow_exact='top')", top_exp, g, 'lowest-exact-match-instead-of-highest')
        else:
            report("find_contains_loc(allow_exact='top')", top_exp, g)
        # find_in_loc: first (syntactic order) highest-level node inside the rectangle
        if inside:
            first_walk = inside[0]
            first_text = min(inside, key=lambda i: (locs[i][:2], nodes[i][1]))
            exp_in = first_walk if first_walk == first_text else 'amb'
        else:
            exp_in = None
        report('find_in_loc', exp_in, got(root.find_in_loc(*q)))
        # find_loc: exact match (highest / lowest), else find_in_loc, else find_contains_loc
        for top in (False, True):
            if exact:
                exp = min(exact, key=lambda i: nodes[i][1]) if top else max(exact, key=lambda i: nodes[i][1])
            elif exp_in is not None:
                exp = exp_in
            else:
                exp = deepest(cont)
            g = got(root.find_loc(*q, top))
            if top and exact and g in exact and g != exp:
                report('find_loc(exact_top=True)', exp, g, 'lowest-exact-match-instead-of-highest')
            else:
                report(f'find_loc(exact_top={top})', exp, g)
    return res


# ---------------------------------------------------------------------------------------------------------------------
# locations after accessor edits, with the caches populated beforehand

PERMS = list(itertools.permutations((True, False, None)))
STMTLIKE = (ast.stmt, ast.ExceptHandler, ast.match_case)
LC_CHAIN = [('new', ('first é',), {}), ('replace-longer', ('a much longer comment → été',), {}), ('replace-shorter', ('y',), {}),
            ('replace-full', ('    # 中文 full',), {'full': True}), ('delete', (None,), {})]


def _populate(root, k):
    """a client looking at every location first: fills the loc / bloc / pars caches of every node (query order k)"""
    order = PERMS[k % 6]
    for f in root.walk(True):
        try:
            if f.loc is None:
                continue
            f.bloc
            if isinstance(f.a, (ast.expr, ast.pattern)):
                for sh in order:
                    f.pars(shared=sh)
        except Exception:
            pass


def _edit_targets(root):
    """(statement-like targets, expression targets) as indices into list(root.walk(True)); the LAST statements of
    (nested) blocks first"""
    fl = list(root.walk(True))
    stm, last, exprs = [], [], []
    for i, f in enumerate(fl):
        a = f.a
        if isinstance(a, STMTLIKE):
            par = f.parent
            is_last = par is not None and f.pfield.idx is not None and f.pfield.idx == len(getattr(par.a, f.pfield.name)) - 1
            (last if is_last else stm).append(i)
        elif isinstance(a, ast.expr) and not isinstance(a, (ast.Slice, ast.FormattedValue, ast.JoinedStr, ast.Starred)):
            exprs.append(i)
    return last + stm, exprs


def _edit_prog(arg):
    try:
        return _edit_prog_inner(arg)
    except Exception as e:
        import traceback
        return {'fails': [(f'C06|edit-harness|{type(e).__name__}|raised', f'{type(e).__name__}: {e}',
                           {'src': arg[0], 'traceback': traceback.format_exc()[-1500:]})], 'tally': {}, 'checks': 1, 'nontrivial': 0}


def _edit_prog_inner(arg):
    """Deterministic product: for each target a chain of accessor edits on a fresh tree; before every edit all
    loc/bloc/pars are read (caches filled), after it EVERY node is judged against tokenize/ast.parse of the new source."""
    src, max_stmt, max_expr = arg
    res = {'fails': [], 'tally': {}, 'checks': 0, 'nontrivial': 0}

    def tally(k, n=1):
        res['tally'][k] = res['tally'].get(k, 0) + n

    try:
        ast.parse(src)
        root0 = _mk(src)
    except Exception:
        return res
    stmts, exprs = _edit_targets(root0)
    stmts = stmts[:max_stmt]
    if len(exprs) > max_expr:
        step = len(exprs) / max_expr
        exprs = [exprs[int(j * step)] for j in range(max_expr)]
    chains = []
    fl0 = list(root0.walk(True))
    for i in stmts:
        a = fl0[i].a
        chains.append((i, [('put_line_comment', nm, ar, kw) for nm, ar, kw in LC_CHAIN]))
        if not isinstance(a, BLOCKS) and not isinstance(a, ast.match_case):
            # source-only put (action=None) over the trailing comment of the statement: no node moves, but every enclosing
            # block's bounding location follows the new comment
            chains.append((i, [('put_line_comment', 'new', ('first é',), {}), ('put_src_tail', 'longer', ('# replaced by put_src → été, longer',), {}),
                               ('put_src_tail', 'shorter', ('#z',), {}), ('put_src_tail', 'none', ('',), {})]))
        for field in ('orelse', 'finalbody'):
            if getattr(a, field, None) and isinstance(a, ast.stmt):
                chains.append((i, [('put_line_comment', f'{field}:{nm}', ar + (field,), kw) for nm, ar, kw in LC_CHAIN[:3] + LC_CHAIN[4:]]))
        if isinstance(a, (ast.FunctionDef, ast.AsyncFunctionDef, ast.ClassDef)):
            chains.append((i, [('put_docstr', 'new', ('doc é\nsecond line',), {}), ('put_docstr', 'replace', ('x',), {}),
                               ('put_docstr', 'delete', (None,), {})]))
    for i in exprs:
        fi = fl0[i]
        if fi.pfield is not None and fi.pfield.idx is not None and fi.parent is not None:
            # structural edits of one element: the span replaced may cover several lines, the text put one (and v.v.)
            chains.append((i, [('replace', 'one-line', ('X',), {})]))
            chains.append((i, [('replace', 'multi-line', ('[é,\n  y]',), {})]))
            chains.append((i, [('remove', '', (), {})]))
        chains.append((i, [('par', 'force', (True,), {}), ('unpar', '', (), {})]))
        chains.append((i, [('unpar', 'only', (), {})]))
    # whitespace-only put_src(action='offset') at a few token gaps
    try:
        from props import C11 as _c11
        gaps = [g for g in _c11.gaps(src) if g[0] == g[2]][:: max(1, len(_c11.gaps(src)) // 4 or 1)][:4]
    except Exception:
        gaps = []
    for g in gaps:
        chains.append((None, [('put_src', 'offset', g, {})]))

    for ci, (ti, chain) in enumerate(chains):
        root = _mk(src)
        fl = list(root.walk(True))
        target = fl[ti] if ti is not None else None
        hist = []
        for si, (meth, name, args, kw) in enumerate(chain):
            _populate(root, ci + si)
            label = f'{meth}({name})'
            try:
                if meth == 'put_src':
                    ln, col, eln, ecol = args[:4]
                    node = _c11._innermost(root, ln, col, eln, ecol)
                    node.put_src(' ' if (ln, col) == (eln, ecol) else '   ', ln, col, eln, ecol, 'offset')
                elif meth == 'put_src_tail':
                    tl = target.loc
                    cm = Oracle(root.src).comments.get(tl[2])        # the comment token on the statement's last line
                    if cm is None or cm[0] < tl[3]:
                        break
                    target.put_src(args[0], tl[2], cm[0], tl[2], len(root._lines[tl[2]]), None)   # called on the statement that owns the line (documented)
                else:
                    getattr(target, meth)(*args, **kw)
            except Exception as e:
                tally(f'edit-refused:{meth}:{type(e).__name__}')
                break
            hist.append([meth, [x if isinstance(x, (int, str, type(None))) else str(x) for x in args], {k: str(v) for k, v in kw.items()}])
            new_src = root.src
            kind = _kind(target.a) if target is not None else 'gap'
            res['checks'] += 1

            def fail(sig, what, _label=label, _hist=list(hist), _new=new_src, _kind_=kind, _ti=ti, **w):
                parts = sig.split('|')
                parts[1] = f'{parts[1]} after {_label}'
                w.update(src=src, new_src=_new, edits=_hist, target_index=_ti, target_kind=_kind_)
                res['fails'].append(('|'.join(parts), f'after {_label} on {_kind_} (all locations read before): {what}', w))

            try:
                orc = Oracle(new_src)
            except SyntaxError as e:
                if meth in ('put_line_comment', 'put_docstr', 'put_src_tail'):
                    fail(f'C06|source|{kind}|no-longer-parses', f'the source no longer parses ({e.msg}): nodes keep locations of text that is gone; new source {new_src!r}')
                else:
                    tally(f'excluded:unparsable-after-{meth}')
                break
            except Exception:
                break
            o_of = _judge_nodes(root, orc, res, fail, tally)
            if o_of is None:
                if meth in ('put_line_comment',):
                    fail(f'C06|tree|{kind}|shape-differs-from-parse', 'a comment edit changed the tree')
                break
            _judge_geometry(root, orc, o_of, res, fail, tally)
            res['nontrivial'] += 1
            if res['fails']:
                break           # later steps of the chain would only repeat it
        tally('edit-chains')
    return res


def edit_sources(rng, n):
    """small programs for the edit product: the layout snippets, nested blocks with trailing comments, corpus programs"""
    out = ['def func(a):\n    for i in a:\n        if i:\n            call(i)  # old\n    return a\n\nclass cls:\n    def meth(self):\n'
           '        try:\n            pass\n        except Exception:\n            raise  # x\n',
           'if a:\n    b = 1  # c\nelif c:\n    d = 2; e = 3\nelse:\n    while x:\n        y  # é\n    else:\n        z\n',
           'try:\n    a\nexcept E:\n    b  # c\nelse:\n    c\nfinally:\n    d  # 日本\nwith a as b:\n    for i in j: pass\n',
           '@deco  # dc\nclass C(a=1, *b[1:2]):\n    """doc"""\n    def f(self): return 1  # r\n    async def g(self):\n        async with a: await b  # w\n',
           'if a: pass\nelif b: pass\nelse: pass\nfor i in j: pass\nelse: pass\nwhile a: pass\nelse: pass\ntry: pass\nfinally: pass\n',
           'match a:\n    case 1: pass  # c\n    case [x, *y] if x:\n        z = (x)  # d\n',
           'x = (a)  # c\ny = [\n    1,  # one\n    2,\n]  # end\nz = f(k=1, *a, *b)  ;  w = 2\n']
    # grouping parentheses glued to keywords / names (unpar() turns them into blanks and moves the parent's ends),
    # multi-byte text earlier on the same line
    out += ['ü = é and(a)or b', 'é = "ñ"; ü = not(a)', 'def f():\n    "é"; return(a) + b\n', 'ñ = [é for é in(a)if(b)]',
            'é = "日本" if(a)else(b)', 'x = é; y = 1 if ñ else(a)or b; z = (x)', 'ü = "é" in(a)is(b)', 'é = lambda: (yield(a))']
    out += SNIPPETS[:: 3]
    try:
        out += corpus.hard_snippets()[:: 2]
    except Exception:
        pass
    base = corpus.programs(rng, n, stdlib=0)
    out += [corpus.add_comments(p, rng, 0.5) for p in base]
    ok = []
    for p in out:
        try:
            ast.parse(p)
            ok.append(p)
        except Exception:
            pass
    return ok


def _bloc_cases(root):
    from fst.asttypes import ASTS_LEAF_BLOCK
    out = []
    lines = root._lines
    for f in root.walk(True):
        if f.a.__class__ in ASTS_LEAF_BLOCK and f.loc is not None:
            loc = f.loc
            out.append(([c06_scan.enc(lines[loc[2]]), loc[3]], f.bloc[3]))
    return out


def _corr_bloc(arg):
    """bloc end column of every block statement, on the fresh tree and after each step of the line-comment chain on the
    last statements of (nested) blocks, caches filled before every step: (Lean case, implementation answer)"""
    src, max_stmt = arg
    out = []
    try:
        root0 = _mk(src)
        out += _bloc_cases(root0)
        stmts, _ = _edit_targets(root0)
        for ci, ti in enumerate(stmts[:max_stmt]):
            root = _mk(src)
            target = list(root.walk(True))[ti]
            for si, (nm, ar, kw) in enumerate(LC_CHAIN):
                _populate(root, ci + si)
                try:
                    target.put_line_comment(*ar, **kw)
                    ast.parse(root.src)
                except Exception:
                    break
                out += _bloc_cases(root)
    except Exception as e:
        return {'exc': f'{type(e).__name__}: {e}', 'src': src, 'cases': out}
    return {'cases': out}


def span_layout_sources():
    """deterministic product for edits whose replaced span covers several lines: text before the span on its first
    line (ASCII / multi-byte) x the element (one line / several lines ending in an ASCII or a multi-byte line) x the
    container, always with further nodes after the span on its last line"""
    pres = ['"aaa"', '"ééé"', 'ü日']
    elems = ['[1,\n  2]', '[1,\n  "é"]', '(b)', 'g(\n)', '"""s\nt"""', '{1: é,\n 2: 3}']
    out = []
    for pre in pres:
        for el in elems:
            out.append(f'r = [{pre}, {el}, tail, other]')
            out.append(f'r = f({pre}, {el}, tail, k=other)')
            out.append(f'é = {pre}; r = ({el}, tail); z = other')
            out.append(f'if {pre} and {el} and tail: pass  # c')
            out.append(f'r = {{{pre}: {el}, tail: other}}')
    ok = []
    for p in out:
        try:
            ast.parse(p)
            ok.append(p)
        except SyntaxError:
            pass
    return ok


def _run_edits(ctx, n, max_stmt, max_expr):
    rng = random.Random(ctx.rng.random())
    layout = span_layout_sources()
    srcs = layout + edit_sources(rng, n)
    res = pmap(_edit_prog, [(p, 3, 40) for p in layout] + [(p, max_stmt, max_expr) for p in srcs[len(layout):]])
    seen = set()
    for p, r in zip(srcs, res):
        ctx.count('edit:' + p, r['nontrivial'] > 0, max(1, r['checks']))
        for k, v in r['tally'].items():
            d = ctx.dist.setdefault('edit_sweep', {})
            d[k] = d.get(k, 0) + v
        for sig, what, w in r['fails']:
            if (sig, w.get('src')) in seen:
                continue
            seen.add((sig, w.get('src')))
            ctx.fail(sig, what, w)
    ctx.notes['edit_programs'] = ctx.notes.get('edit_programs', 0) + len(srcs)
    ctx.notes['edit_judgements'] = ctx.notes.get('edit_judgements', 0) + sum(r['checks'] for r in res)


def _bistr_cases(rng, n):
    from fst.astutil import bistr
    pool = ['a', 'b', ' ', '(', 'é', 'ü', 'ж', '日', '本', '€', '😀', '𝒳', '\xa0', '\x7f', '\x80', '\u07ff', '\u0800', '\uffff', '\U00010000']
    strs = ['', 'abc', 'é', 'aé日😀b', '😀😀', '日本語x', 'x = "ñ"  # é']
    for _ in range(n):
        strs.append(''.join(rng.choice(pool) for _ in range(rng.randint(0, 9))))
    cases, impls = [], []
    for s in strs:
        lb = len(s.encode())
        for fn in ('c2b', 'b2c'):
            idxs = list(range(0, lb + 3))
            r = []
            for i in idxs:
                b = bistr(s)      # fresh object: the first call installs the lookup functions
                try:
                    r.append(getattr(b, fn)(i))
                except IndexError:
                    r.append(None)
            # and with the tables already built by the other direction
            b = bistr(s)
            b.c2b(0), b.b2c(0)
            r2 = []
            for i in idxs:
                try:
                    r2.append(getattr(b, fn)(i))
                except IndexError:
                    r2.append(None)
            cases.append({'f': 'C06.' + fn, 'line': c06_scan.enc(s), 'idx': idxs})
            impls.append(r)
            cases.append({'f': 'C06.' + fn, 'line': c06_scan.enc(s), 'idx': idxs})
            impls.append(r2)
    return cases, impls


def _blocks(ctx):
    rng = random.Random(ctx.rng.random())
    if ctx.quick:
        blocks = list(c06_scan.single_lines(c06_scan.ALPHA_SMALL, 3))
        blocks += [c06_scan.random_block(rng) for _ in range(500)]
        cap = 60
    else:
        blocks = list(c06_scan.single_lines(c06_scan.ALPHA_SMALL, 5))
        blocks += list(c06_scan.two_line_blocks(c06_scan.ALPHA_SMALL, 2))
        blocks += [c06_scan.random_block(rng) for _ in range(4000)]
        cap = 120
    return [(b, rng.randrange(1 << 30), cap) for b in blocks]


def _diff_batches(ctx, name, cases, impls, outs, nontriv=lambda a: a is not None and a != []):
    """cases carry a list of queries each; compare element-wise"""
    bad = 0
    first = None
    for c, io_, mo in zip(cases, impls, outs):
        m = mo.get('out', mo)
        qs = c.get('qs') or c.get('idx')
        if not isinstance(m, list) or len(m) != len(io_):
            bad += len(io_)
            first = first or {'case': {k: v for k, v in c.items() if k != 'qs'}, 'model': m}
            ctx.hints.append((name, c))
            continue
        key = (c['f'], str(c.get('lines', c.get('line'))), str(c.get('srcs')), c.get('delim'))
        for q, a, b in zip(qs, io_, m):
            ctx.corr_cases += 1
            ctx.count(str((key, q)), nontriv(a))
            if a != b:
                bad += 1
                if first is None:
                    first = {'f': c['f'], 'lines': [''.join(map(chr, l)) for l in c.get('lines', [c.get('line')])],
                             'srcs': c.get('srcs'), 'q': q, 'impl': a, 'model': b}
                if len(ctx.corr_disagreements) < 20:
                    ctx.corr_disagreements.append({'corr': name, 'f': c['f'], 'lines': c.get('lines', c.get('line')), 'q': q, 'impl': a, 'model': b})
                if len(ctx.hints) < 50:
                    ctx.hints.append((name, c))
    ctx.dist.setdefault('correspondence_cases', {})
    ctx.dist['correspondence_cases'][name] = ctx.dist['correspondence_cases'].get(name, 0) + sum(len(i) for i in impls)
    if bad and not any(n == name for _, n, _ in ctx.broken):
        ctx.brk('correspondence', name, f'{bad} answers differ; first: {first}')


def correspondence(ctx):
    q = ctx.quick
    # (1) \s on every code point, bistr on mixed strings
    cps = [c for c in range(0x110000) if not 0xd800 <= c <= 0xdfff]
    if q:
        cps = [c for c in cps if c < 0x3100 or c % 97 == 0]
    import re
    try:
        o = ctx.lean([{'f': 'C06.is_space', 'chars': cps}])[0]['out']
        bad = [c for c, m in zip(cps, o) if m != bool(re.match(r'\s', chr(c)))]
        ctx.corr_cases += len(cps)
        ctx.count('is_space', True, len(cps))
        if bad:
            ctx.brk('correspondence', 're \\s vs Pfst.Scan.isSpace', f'{len(bad)} code points differ, first {bad[:5]}')
    except Exception as e:
        ctx.brk('correspondence', 'is_space', f'driver error: {e}')
        return
    cases, impls = _bistr_cases(random.Random(ctx.rng.random()), 60 if q else 600)
    try:
        _diff_batches(ctx, 'bistr.c2b/b2c vs Pfst.Scan.c2b/b2c', cases, impls, ctx.lean(cases), lambda a: a is not None)
    except Exception as e:
        ctx.brk('correspondence', 'bistr', f'driver error: {e}')
    ctx.sample({'corr': 'bistr', 'case': cases[6], 'impl': impls[6]})
    # (2) scanners on generated line blocks (in chunks: the batches are large)
    blocks = _blocks(ctx)
    last = None
    for k in range(0, len(blocks), 1500):
        res = pmap(c06_scan.run_block, blocks[k:k + 1500])
        cases = [c for r in res for (c, _) in r]
        impls = [i for r in res for (_, i) in r]
        try:
            outs = ctx.lean(cases)
        except Exception as e:
            ctx.brk('correspondence', 'scanners', f'driver error: {e}')
            break
        by = {}
        for c, i, o in zip(cases, impls, outs):
            by.setdefault(c['f'], ([], [], []))
            for lst, x in zip(by[c['f']], (c, i, o)):
                lst.append(x)
        for fn, (cs, is_, os_) in sorted(by.items()):
            _diff_batches(ctx, f'common.{fn[4:]} vs Pfst.Scan', cs, is_, os_)
        last = (cases[-1], impls[-1])
        del res, cases, impls, outs, by
    if last:
        ctx.sample({'corr': 'scanners', 'lines': [''.join(map(chr, l)) for l in last[0]['lines']], 'f': last[0]['f'],
                    'q': last[0]['qs'][:2], 'impl': last[1][:2]})
    ctx.notes['scanner_blocks'] = len(blocks)
    # (2a) _params_offset on the text itself: multi-line spans, multi-byte text on the first / last line independently
    from fst.fst_core import _params_offset
    prng = random.Random(ctx.rng.random())
    pool = ['a', ' ', '(', 'é', '日', '😀', 'b,']
    pcases, pimpl = [], []
    line_kinds = [lambda: ''.join(prng.choice(['a', ' ', 'b', '(']) for _ in range(prng.randint(0, 6))),
                  lambda: ''.join(prng.choice(pool) for _ in range(prng.randint(0, 6)))]
    for _ in range(150 if q else 2500):
        lines = [prng.choice(line_kinds)() for _ in range(prng.randint(1, 3))]
        put = [prng.choice(line_kinds)() for _ in range(prng.choice([1, 1, 1, 2]))]
        qs, r = [], []
        for ln in range(len(lines)):
            for eln in range(ln, len(lines)):
                for col in range(len(lines[ln]) + 1):
                    for ecol in range(len(lines[eln]) + 1):
                        if ln == eln and ecol < col:
                            continue
                        po = _params_offset(lines, put, ln, col, eln, ecol)
                        qs.append([ln, col, eln, ecol])
                        r.append([po[0], po[1], po[2], po[3]])
        pcases.append({'f': 'C06.params_offset', 'lines': c06_scan.enc_lines(lines), 'put': c06_scan.enc_lines(put), 'qs': qs})
        pimpl.append(r)
    try:
        _diff_batches(ctx, 'fst_core._params_offset vs Pfst.Scan.paramsOffsetC', pcases, pimpl, ctx.lean(pcases), lambda a: True)
    except Exception as e:
        ctx.brk('correspondence', '_params_offset', f'driver error: {e}')
    # (2b) bloc end column (loc + trailing comment extent) on fresh and comment-edited trees
    srcs = edit_sources(random.Random(ctx.rng.random()), 20 if q else 300)
    res = pmap(_corr_bloc, [(p, 4 if q else 10) for p in srcs])
    bc = [c for r in res for c, _ in r['cases']]
    bi = [i for r in res for _, i in r['cases']]
    excs = [r for r in res if r.get('exc')]
    if excs:
        ctx.brk('correspondence', 'bloc on edited trees', f'{len(excs)} programs raised: {excs[0]["exc"]} on {excs[0]["src"][:200]!r}')
    try:
        mo = ctx.lean([{'f': 'C06.bloc_end', 'cases': bc[k:k + 4000]} for k in range(0, len(bc), 4000)])
        mb = [x for o in mo for x in o.get('out', [])]
        bad = [(c, i, m) for c, i, m in zip(bc, bi, mb) if i != m]
        for c, i in zip(bc, bi):
            ctx.corr_cases += 1
            ctx.count(str(c), i != c[1])
        ctx.dist.setdefault('correspondence_cases', {})['FST.bloc end vs Pfst.Scan.blocEndCol (fresh + after comment edits)'] = len(bc)
        if bad or len(mb) != len(bc):
            c, i, m = bad[0] if bad else (None, None, None)
            ctx.brk('correspondence', 'FST.bloc vs Pfst.Scan.blocEndCol', f'{len(bad)}/{len(bc)} differ; first: line '
                    f'{"".join(map(chr, c[0])) if c else None!r} loc end col {c[1] if c else None}: bloc end impl {i} model {m}')
    except Exception as e:
        ctx.brk('correspondence', 'bloc', f'driver error: {e}')
    # (3) pars() and find_*loc on corpus programs
    rng = random.Random(ctx.rng.random())
    progs = programs(rng, 120 if q else 1200, 6 if q else 100)
    res = pmap(_corr_prog, [(p, rng.randrange(1 << 30), 25 if q else 60) for p in progs])
    pcases, pimpl = [], []
    fcases, fimpl = [], []
    excs = [r for r in res if r.get('exc')]
    if excs:
        ctx.brk('correspondence', 'pars/find on corpus programs', f'{len(excs)} programs raised inside pfst; first: '
                f'{excs[0]["exc"]} on {excs[0]["src"][:300]!r}')
    for r in res:
        for c, i, k in r['pars']:
            pcases.append(c)
            pimpl.append(i)
            ctx.tally('pars_kind', k)
        if r['find']:
            fcases.append(r['find'][0])
            fimpl.append(r['find'][1])
    ctx.compare('FST.pars vs Pfst.Scan.parsModel', pcases, pimpl, keyf=lambda c: str((c['lines'], c['a'], c['shared'])),
                nontrivial=lambda c, io_: isinstance(io_, list) and io_[4] != 0)
    try:
        outs = ctx.lean(fcases)
    except Exception as e:
        ctx.brk('correspondence', 'find', f'driver error: {e}')
        return
    bad = 0
    wf_false = 0
    wf_plain_false = 0
    thm_bad = 0
    first = None
    for c, io_, mo in zip(fcases, fimpl, outs):
        m = mo.get('out', {})
        wf = m.get('wfd')
        wf_false += not wf
        wf_plain_false += not m.get('wf')
        for qq, a, b in zip(c['queries'], io_, m.get('r', [])):
            ctx.corr_cases += 1
            ctx.count(str((c['nodes'], qq)), any(x is not None for x in a))
            if a != b[:6]:
                bad += 1
                first = first or {'query': qq, 'impl': a, 'model': b[:6], 'nodes': c['nodes'][:40]}
                if len(ctx.hints) < 50:
                    ctx.hints.append(('find', c))
            nonempty = (qq[0], qq[1]) < (qq[2], qq[3])
            # findContainsD_bruteforce: wfListD + non-empty rectangle (or plain wfList);  findIn_bruteforce: plain wfList
            if ((m.get('wf') or (wf and nonempty)) and b[2:5] != b[6:9]) or (m.get('wf') and b[5] != b[9]):
                thm_bad += 1
                first = first or {'query': qq, 'model': b, 'nodes': c['nodes'][:12], 'decos': c.get('decos'), 'note': 'wf list but pass != brute force'}
    ctx.dist.setdefault('correspondence_cases', {})['find_*loc vs Pfst.Scan.findLoc/findContains/findIn'] = sum(len(i) for i in fimpl)
    ctx.notes['find_lists'] = len(fcases)
    ctx.notes['find_lists_wfListD_false'] = wf_false
    ctx.notes['find_lists_wfList_false'] = wf_plain_false
    if bad:
        ctx.brk('correspondence', 'find_*loc vs Pfst.Scan', f'{bad} answers differ; first: {first}')
    if thm_bad:
        ctx.brk('correspondence', 'find*_bruteforce on real lists', f'{thm_bad} well-formed lists where the pass differs from brute force: {first}')
    if fcases:
        ctx.sample({'corr': 'find', 'nodes': fcases[0]['nodes'][:6], 'queries': fcases[0]['queries'][:3], 'impl': fimpl[0][:3]})


def _run_sweep(ctx, nprog, nstd, nq):
    rng = random.Random(ctx.rng.random())
    progs = programs(rng, nprog, nstd)
    res = pmap(_sweep_prog, [(p, rng.randrange(1 << 30), nq) for p in progs])
    seen = set()
    for p, r in zip(progs, res):
        ctx.count('sweep:' + p, r['nontrivial'] > 0, max(1, r['checks']))
        for k, n in r['tally'].items():
            d = ctx.dist.setdefault('sweep', {})
            d[k] = d.get(k, 0) + n
        for sig, what, w in r['fails']:
            if (sig, w.get('src')) in seen:
                continue
            seen.add((sig, w.get('src')))
            ctx.fail(sig, what, w)
    ctx.notes['sweep_programs'] = ctx.notes.get('sweep_programs', 0) + len(progs)
    ctx.notes['sweep_checks'] = ctx.notes.get('sweep_checks', 0) + sum(r['checks'] for r in res)
    if progs:
        ctx.sample({'sweep': progs[0][:200]})


def sweep(ctx):
    if ctx.quick:
        _run_sweep(ctx, 260, 12, 30)
        _run_edits(ctx, 30, 8, 6)
    else:
        _run_sweep(ctx, 3000, 250, 60)
        _run_edits(ctx, 500, 14, 12)


def search(ctx):
    _run_sweep(ctx, 4000, 300, 80)
    _run_edits(ctx, 600, 14, 12)


def replay(ctx, data):
    w = data.get('witness')
    if not w or 'src' not in w:
        print('replay file names a broken obligation, not an input:', [b for b in data.get('broken', [])][:3])
        return
    sig = data.get('signature')
    if 'edits' in w:        # a failure of the after-edit product: re-run the whole product on that program
        r = _edit_prog((w['src'], 1000, 1000))
        for s, what, ww in r['fails']:
            if sig is None or s == sig:
                ctx.fail(s, what, ww)
                return
        return
    for seed in range(20):
        r = _sweep_prog((w['src'], seed, 200))
        for s, what, ww in r['fails']:
            if sig is None or s == sig:
                ctx.fail(s, what, ww)
                return


for _l in _THEOREMS.strip().splitlines():
    if _l.strip():
        THEOREMS.append(_l.split()[0])

LEVEL_TEXT = ('Lean 4 theorems about an executable model of the scanning layer under loc/pars/find_*loc: character<->byte '
              'conversion is a round trip, additive, monotone, identity on ASCII and maps bytes inside a multi-byte character '
              'to that character; next_frag returns exactly the first maximal non-space, non-comment, non-continuation run '
              'inside the bound (sound and complete for comment x lcont in {False, True}, sound for lcont=None); pars() = '
              'min(opening, closing) delimiters and, on the layout family pre (^g node )^g post with any spacing, any node '
              'text and a context without adjacent parentheses, reports exactly g pairs and the outermost span (induction on '
              'g, through the prev_frag state cache); find_contains_loc (as repaired: \'top\' honoured in the descent, decorators '
              'searched) equals the brute-force selection over all nodes on every geometrically well-formed node list, '
              'decorated definitions included (non-empty rectangles); find_in_loc / find_loc likewise on lists without '
              'nodes outside their parent. Tied to /repo by running model and implementation on '
              'the same inputs each run, and the property itself is judged on the real code by CPython ast + tokenize.')
LEVEL_NOTE = ('Partial: theorems are about the model (tie = differential, ~0.8M answers quick / ~25M thorough per run); '
              'prev_frag is proved only for one line without # / backslash before the fragment (the general mirror statement '
              'is false of the code: its forward scan stops at the first comment); pars_layout is single-line (multi-line '
              'layouts with comments/continuations: decide examples + correspondence + token-matcher sweep); the computed '
              'locations _loc_op/_loc_arguments/_loc_comprehension/_loc_withitem/_loc_match_case/_loc_decorator/bloc are not '
              'modelled, they are checked per node against an independent tokenize/ast oracle. The two defects of the search '
              'functions found by this package (C06-F1, C06-F2) are repaired (fixes/C06-F2.diff, fixes/C06-F1.diff); the model, '
              'the theorems (positive witnesses findContains_decorated_witness, findLoc_exactTop_witness) and the '
              'correspondence describe the repaired functions; find_loc on lists with decorated definitions is partial (its '
              'find_in_loc part is not proved equal to brute force there).')
TECHNIQUE = 'Lean 4 proof (list/arith induction, decide) + model-implementation correspondence + CPython-judged sweep'
