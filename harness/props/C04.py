"""C04 — formatting and comments outside the edited element are preserved byte for byte."""

import random

import corpus
import c04_corr as cc
import c04_oracle as co
from framework import pmap

ID = 'C04'
LEAN_MODULES = ['Pfst.Props.C04']
LEAN_DEPS = ['Pfst.Text', 'Pfst.TextLemmas', 'Pfst.Trivia', 'Pfst.TriviaLemmas', 'Pfst.Drv.C04']
THEOREMS = [
    'Pfst.C04.putSrc_flat', 'Pfst.C04.putSrc_delete', 'Pfst.C04.putSrc_normal', 'Pfst.C04.putSrc_lines_same',
    'Pfst.C04.shiftCol_eq', 'Pfst.C04.getSrc_before', 'Pfst.C04.getSrc_after', 'Pfst.C04.getSrc_container',
    'Pfst.C04.off_arith', 'Pfst.C04.c2b_bridge', 'Pfst.C04.dcol_bytes',
    'Pfst.C04.effective_call', 'Pfst.C04.options_block', 'Pfst.C04.set_options_effective', 'Pfst.C04.trivia_depends_on_effective',
    'Pfst.C04.placed_text', 'Pfst.C04.placed_bytes', 'Pfst.C04.placed_chars_false', 'Pfst.Text.off_putSrc_placed',
    'Pfst.C04.lead_in_bounds_partial', 'Pfst.C04.lead_only_trivia_partial', 'Pfst.C04.lead_none_spec',
    'Pfst.C04.lead_block_spec', 'Pfst.C04.trail_scan_partial',
    'Pfst.C04.triviaParams_total', 'Pfst.Trivia.oneParam_str', 'Pfst.Trivia.getTriviaParams_total',
    'Pfst.Text.getFlat_before', 'Pfst.Text.getFlat_after', 'Pfst.Text.getFlat_container', 'Pfst.Text.getSrc_flat',
    'Pfst.Text.off_putSrc_before', 'Pfst.Text.off_putSrc_after', 'Pfst.Text.off_mono',
    'Pfst.Trivia.scanUp_spec', 'Pfst.Trivia.spaceUp_spec', 'Pfst.Trivia.leadFinish_space', 'Pfst.Trivia.lead_modes',
]
RULE = ('correspondence: (a) FST._put_src on a real root, exhaustively over small line lists (<=3-4 lines over an alphabet with '
        'empty / multi-byte strings) x every ordered span x 10 put shapes (delete, empty, single, multi-line, with empty and '
        'astral-plane lines), and randomly on stdlib files, vs Pfst.Text.putSrc and vs a plain-Python flat splice; the byte '
        'deltas of _params_offset vs the model; (b) leading_trivia / trailing_trivia on generated line blocks (all '
        'combinations of blank/comment/continuation/code lines up to 4 (quick) or 6 (thorough) lines, plus sampled blocks up '
        'to 7 lines over a richer alphabet with tabs, form feeds, non-ASCII, odd backslashes), every bound position, every '
        'comments value none/block/all/line/int and space False/True/0..3/7, vs the Lean model; (c) get_trivia_params and '
        '_check_opt_trivia on single values and 0-3-tuples of bool/int/str; (d) the model of regex \\s vs CPython over all '
        'code points; (e) placement: real replace of an unparenthesized expression by a (multi-line, non-ASCII) call, byte positions '
        'of the new node and its children vs parse-at-origin + Pfst.Text.placeColBytes, ~70% with multi-byte text before. sweep: real structured edits (delete / replace / insert of statements and of expression-list '
        'elements, every trivia option, pep8space, elif_, docstr) on commented corpus programs (unique comments, some ending in a '
        'backslash / ascii art; injected multi-line str / bytes / f-string literals at every block depth; put code with '
        'multi-line literals; insertions into elif chains that re-indent the chain, judged by tokens; two-step histories: an '
        'expression is replaced by a call and then args[0] of the NEW call is replaced, ~70% with multi-byte text before the target on '
        'its line, judged by byte-identical text outside the element and by tree == fresh parse after each step; accessor '
        'histories: reads of .loc/.bloc/.src of every ancestor, then put_line_comment (longer / shorter / None / full) / put_docstr / '
        'par / unpar on a nested statement, then cut / remove / replace of an enclosing statement on the same live tree; option '
        'empty blocks: pure insertion into every empty orelse / finalbody / handlers x 12 endings of the preceding statement (`;`, comments, '
        'continuations) x 8 following trivia shapes x 4 nestings x 3 tails, every comment and original line must survive; '
        'channels: deterministic product of replace / remove / insert / slice delete / cut / copy x trivia, pep8space, docstr, elif_, '
        'pars values, each per call, in FST.options() and after FST.set_options(): equal outcomes), judged with tokenize and '
        'line comparison only. distinct = distinct inputs; non-trivial = output differs from input')
TRUSTED = [
    'pure insertions: a comment must keep following the same code on its line only where that is unambiguous (the previous element '
    'starts its own line); appending to an UNDELIMITED tuple puts the new element in front of a comment that follows the last element '
    '(the comment is outside the container): not judged',
    'modelled: fst_core._put_src (5 cases, source part) and _get_src, _params_offset on characters and bytes (bistr.c2b); '
    'fst_trivia.leading_trivia, trailing_trivia (incl. the one-line next_frag(comment=True) they use), get_trivia_params; '
    'fst_options._check_opt_trivia; regexes re_empty_line, re_comment_line_start, re_empty_line_or_cont, '
    're_empty_line_cont_or_comment, _re_next_frag_or_comment',
    'not modelled: the callers that choose bounds and splice rectangles (slice_stmtlike.SrcEdit, slice_exprlike, fst_misc '
    'separator repair, _get_indentable_lns / indentation of moved blocks): these are covered only by the sweep oracle on real '
    'edits; negative `space` integers (never produced by get_trivia_params); non-ASCII decimal digits and a trailing newline '
    'in trivia option strings; surrogate code points in source lines',
    'sweep oracle is conservative: flags only a comment token lost / duplicated / changed and an untouched non-blank line '
    'changed or reordered outside a generously computed allowed region (see harness/c04_oracle.py); edits whose result does '
    'not tokenize or that raise are not judged here (C01 / C12)',
]
ASSUMPTIONS = ['lines never contain a newline character (root._lines is split at "\\n")',
               'spans passed to _put_src are ordered and inside the source (ValidSpan); checked on every sweep edit by '
               'recording the real calls',
               'one structured edit is one atomic step']
LEVEL_TEXT = ('Lean 4 theorems about executable models: _put_src changes exactly the characters of the splice rectangle '
              '(flat-text refinement, all five code paths), spans before / after / around a splice keep their text at the '
              'coordinates shifted by the deltas _params_offset computes (character and byte versions); leading/trailing '
              'trivia ranges lie between the neighbour bound and the element and contain only blank / comment / continuation '
              'lines. Tied to /repo on every run by correspondence (exhaustive on small inputs) and by a tokenize-based '
              'sweep of real edits.')
LEVEL_NOTE = ('Theorems are about the models; the property for whole structured edits (choice of rectangle by the slice code) '
              'is checked by the sweep oracle, not proved. triviaParams_total holds for the repaired option check (non-empty '
              'strings anchored with \\Z); on a tree without that repair the correspondence of _check_opt_trivia breaks.')
TECHNIQUE = 'Lean 4 proof (list induction, omega) + model-implementation correspondence + tokenize oracle sweep'


# ---------------------------------------------------------------------------------------------------------------------

def _diff(ctx, name, cases, impls, nontriv=None):
    try:
        outs = ctx.lean(cases)
    except Exception as e:
        ctx.brk('correspondence', name, f'driver error: {e}')
        return
    bad = 0
    for i, (c, io_, mo) in enumerate(zip(cases, impls, outs)):
        ctx.corr_cases += 1
        m = mo.get('out', mo)
        ctx.count(c, True if nontriv is None else nontriv[i])
        if m != io_:
            bad += 1
            if len(ctx.corr_disagreements) < 20:
                ctx.corr_disagreements.append({'corr': name, 'case': _short(c), 'impl': _short(io_), 'model': _short(m)})
            ctx.hints.append((name, c))
    ctx.dist.setdefault('correspondence_cases', {})[name] = len(cases)
    if cases:
        ctx.sample({'corr': name, 'case': _short(cases[0]), 'impl': _short(impls[0])})
    if bad:
        ctx.brk('correspondence', name, f'{bad}/{len(cases)} cases differ; first: ' + str(ctx.corr_disagreements[-min(bad, 20)])[:1500])


def _short(o):
    s = repr(o)
    return o if len(s) < 1500 else s[:1500] + '...'


def _corr_put_src(ctx):
    q = ctx.quick
    res = pmap(cc.put_src_small, cc.put_src_small_inputs(q))
    cases = [c for lst in res for c, _ in lst]
    impls = [i for lst in res for _, i in lst]
    nontriv = [i.get('lines') != c['lines'] for c, i in zip(cases, impls)]
    _diff(ctx, '_put_src(small, exhaustive) vs Pfst.Text.putSrc', cases, impls, nontriv)
    ctx.exhaustive = True
    # random on stdlib files
    rng = random.Random(ctx.rng.random())
    files = corpus.stdlib_files(rng, 12 if q else 120)
    args = []
    for p in files:
        try:
            args.append((p.read_text(encoding='utf-8'), rng.randrange(1 << 30), 25 if q else 60))
        except Exception:
            continue
    res = pmap(cc.put_src_file, args)
    cases = [c for lst in res for c, _, _ in lst]
    impls = [i for lst in res for _, i, _ in lst]
    spec_bad = [(c, i) for lst in res for c, i, ok in lst if not ok]
    _diff(ctx, '_put_src(stdlib files, random) vs Pfst.Text.putSrc', cases, impls)
    for c, i in spec_bad[:3]:
        ctx.fail('C04|_put_src|raw|flat-text-splice', '_put_src result is not the flat-text splice of its arguments',
                 {'lines': c['lines'][:50], 'put': c['put'], 'a': c['a']})


def _corr_trivia(ctx):
    q = ctx.quick
    rng = random.Random(ctx.rng.random())
    blocks = cc.trivia_blocks(q, rng)
    fullmax = 3 if q else 4
    lead_items, trail_items = [], []
    for body, exh in blocks:
        full = exh and len(body) <= fullmax
        k = 60 if (q or not exh) else 300
        for el, col in (cc.LEAD_ELEMS if exh and len(body) <= 3 else [rng.choice(cc.LEAD_ELEMS)] if not exh else cc.LEAD_ELEMS[:2]):
            lines = body + [el]
            lead_items.append((lines, cc.lead_queries(lines, full, rng, k)))
        for el, ecol in (cc.TRAIL_ELEMS if exh and len(body) <= 3 else [rng.choice(cc.TRAIL_ELEMS)] if not exh else cc.TRAIL_ELEMS[:3]):
            lines = [el] + body
            trail_items.append((lines, cc.trail_queries(lines, full, rng, k)))
    for name, all_items, fn, runner in (('leading_trivia vs Pfst.Trivia.leadingTrivia', lead_items, 'C04.leading_trivia', cc.run_lead),
                                        ('trailing_trivia vs Pfst.Trivia.trailingTrivia', trail_items, 'C04.trailing_trivia', cc.run_trail)):
        bad = 0
        n = 0
        first = None
        for off in range(0, len(all_items), 400):          # bounded memory
            items = all_items[off:off + 400]
            impls = pmap(runner, items)
            cases = [{'f': fn, 'lines': lines, 'qs': qs} for lines, qs in items]
            try:
                outs = ctx.lean(cases)
            except Exception as e:
                ctx.brk('correspondence', name, f'driver error: {e}')
                break
            for c, io_, mo in zip(cases, impls, outs):
                m = mo.get('out', mo)
                for k, (qq, a, b) in enumerate(zip(c['qs'], io_, m if isinstance(m, list) else [m] * len(io_))):
                    n += 1
                    if a != b:
                        bad += 1
                        w = {'corr': name, 'lines': c['lines'], 'q': qq, 'impl': a, 'model': b}
                        if first is None:
                            first = w
                        if len(ctx.corr_disagreements) < 20:
                            ctx.corr_disagreements.append(w)
                        if len(ctx.hints) < 200:
                            ctx.hints.append((name, w))
                ctx.count({'l': c['lines'], 'f': fn}, True, n=len(c['qs']))
            if off == 0 and cases:
                ctx.sample({'corr': name, 'lines': cases[0]['lines'], 'q': cases[0]['qs'][:2], 'impl': impls[0][:2]})
        ctx.corr_cases += n
        ctx.dist.setdefault('correspondence_cases', {})[name] = n
        if bad:
            ctx.brk('correspondence', name, f'{bad}/{n} queries differ; first: ' + str(first)[:1500])


def _corr_params(ctx):
    vals = cc.trivia_values()
    args = [(k, v, neg) for k, v in vals for neg in (False, True)]
    impls = [cc.run_trivia_value(a) for a in args]
    cases = [{'f': 'C04.get_trivia_params', ('t' if k == 't' else 'v'): v, 'neg': neg} for k, v, neg in args]
    try:
        outs = ctx.lean(cases)
    except Exception as e:
        ctx.brk('correspondence', 'get_trivia_params', f'driver error: {e}')
        return
    bad = 0
    name = 'get_trivia_params/_check_opt_trivia vs Pfst.Trivia.getTriviaParams/checkOptTrivia'
    unmapped = []
    for c, io_, mo in zip(cases, impls, outs):
        ctx.corr_cases += 1
        ctx.count(c)
        m = dict(mo.get('out', mo))
        if m.get('params') is not None:
            m['params'] = [cc.tag(x) for x in m['params']]
        if m != io_:
            bad += 1
            if len(ctx.corr_disagreements) < 20:
                ctx.corr_disagreements.append({'corr': name, 'case': c, 'impl': io_, 'model': m})
        if io_['ok'] and not io_.get('legal'):
            unmapped.append(c.get('v', c.get('t')))
    ctx.dist.setdefault('correspondence_cases', {})[name] = len(cases)
    ctx.notes['trivia_values_accepted_by_check_options_but_not_mapped'] = sorted({repr(u) for u in unmapped})
    for u in unmapped[:1]:
        # the hypothesis/conclusion of triviaParams_total evaluated on the implementation itself
        ctx.fail('C04|check_options|trivia|accepted-not-mapped',
                 f'check_options accepts trivia={u!r} but get_trivia_params maps it to a comments value the trivia functions do '
                 'not handle (the edit raises KeyError / AssertionError later)', {'trivia_value': u})
    # a trailing newline is outside the model's string language (`$` vs `\\Z`): evaluate directly
    from fst.fst_options import _check_opt_trivia
    for v in ('all\n', 'block+3\n', ('all', 'line\n')):
        ctx.corr_cases += 1
        if _check_opt_trivia('trivia', v) is None:
            ctx.fail('C04|check_options|trivia|accepted-not-mapped',
                     f'check_options accepts trivia={v!r} (trailing newline) which get_trivia_params does not map to a handled value',
                     {'trivia_value': list(v) if isinstance(v, tuple) else v, 'tuple': isinstance(v, tuple)})
            break
    if bad:
        ctx.brk('correspondence', name, f'{bad}/{len(cases)} differ; first: ' + str(ctx.corr_disagreements[-min(bad, 20)])[:1200])
    # the regex \s
    import re
    real = [c for c in range(0x110000) if not 0xD800 <= c <= 0xDFFF and re.match(r'\s', chr(c))]
    mo = ctx.lean([{'f': 'C04.space_set'}])[0]
    ctx.corr_cases += 1
    if mo.get('out') != real:
        ctx.brk('correspondence', 'regex \\s vs Pfst.Trivia.isSpaceCh', f'model {mo.get("out")} real {real}')
    # the line regexes on the rich alphabet
    import fst.common as fc
    lines = cc.KINDS_RICH + ['  #', ' \t ', '\\\\', '\\ #', 'x', ' # é', '\r', ' \x0b']
    mo = ctx.lean([{'f': 'C04.regex', 'lines': lines}])[0].get('out')
    real = []
    for l in lines:
        m = fc.re_empty_line_cont_or_comment.match(l)
        real.append([bool(fc.re_comment_line_start.match(l)), bool(fc.re_empty_line_or_cont.match(l)),
                     None if not m else bool((g := m.group(1)) and g.startswith('#'))])
    ctx.corr_cases += len(lines)
    if mo != real:
        ctx.brk('correspondence', 'line regexes vs Pfst.Trivia.re*', str([(l, a, b) for l, a, b in zip(lines, real, mo or []) if a != b][:5]))


def _corr_place(ctx):
    q = ctx.quick
    rng = random.Random(ctx.rng.random())
    progs = corpus.programs(rng, 150 if q else 1500, stdlib=10 if q else 100) + co.HAND_PROGRAMS
    res = pmap(cc.place_cases, [(p, rng.randrange(1 << 30), 4 if q else 8) for p in progs])
    items = [it for lst in res for it in lst]
    name = 'replace(expr := call): positions of the new nodes vs Pfst.Text.placeLn/placeColBytes'
    try:
        outs = ctx.lean([c for c, _, _ in items])
    except Exception as e:
        ctx.brk('correspondence', name, f'driver error: {e}')
        return
    bad = nonplain = n = 0
    first = None
    for (c, impl, mb), mo in zip(items, outs):
        m = mo.get('out', mo)
        if not isinstance(m, dict) or m.get('lines') != impl['lines']:
            nonplain += 1           # pfst did more than one plain splice (spaces, parentheses): placement not comparable
            continue
        n += 1
        ctx.corr_cases += 1
        ctx.count({'l': c['lines'], 'a': c['a'], 'p': c['put']}, True)
        ctx.tally('place_multibyte_before_target', mb)
        if m['placed'] != impl['placed']:
            bad += 1
            w = {'corr': name, 'lines': c['lines'][c['a'][0]:c['a'][2] + 1], 'put': c['put'], 'a': c['a'],
                 'impl': impl['placed'][:8], 'model': m['placed'][:8]}
            first = first or w
            if len(ctx.corr_disagreements) < 20:
                ctx.corr_disagreements.append(w)
    ctx.dist.setdefault('correspondence_cases', {})[name] = n
    ctx.notes['place_not_a_plain_splice'] = nonplain
    if bad:
        ctx.brk('correspondence', name, f'{bad}/{n} differ; first: ' + str(first)[:1200])


def _corr_options(ctx):
    """option resolution: random sequences of set_options / with-options enter / exit, then get_option with or without a per
    call value, vs Pfst.Trivia.OptState / effective"""
    import json
    from fst import FST
    rng = random.Random(ctx.rng.random())
    vals = [True, False, 'all', 'block+1', ['none', 'all'], [False, False], 3, []]
    name = 'get_option/set_options/options() vs Pfst.Trivia.effective'
    cases, impls = [], []
    dflt = FST.get_option('trivia')
    for _ in range(150 if ctx.quick else 1500):
        ops = []
        depth = 0
        for _ in range(rng.randint(0, 6)):
            k = rng.choice(['set', 'enter', 'enter', 'exit'])
            if k == 'exit' and depth == 0:
                k = 'enter'
            if k == 'exit':
                depth -= 1
                ops.append(['exit'])
            else:
                depth += k == 'enter'
                ops.append([k, rng.choice(vals)])
        call = rng.choice([None, None] + vals)
        has_call = rng.random() < 0.5
        case = {'f': 'C04.opt_resolve', 'dflt': dflt, 'ops': ops}
        if has_call:
            case['call'] = call
        # real
        tup = lambda v: tuple(v) if isinstance(v, list) else v
        untup = lambda v: list(v) if isinstance(v, tuple) else v
        stack = []
        saved0 = FST.get_option('trivia')
        try:
            for o in ops:
                if o[0] == 'set':
                    FST.set_options(trivia=tup(o[1]))
                elif o[0] == 'enter':
                    cm = FST.options(trivia=tup(o[1]))
                    cm.__enter__()
                    stack.append(cm)
                else:
                    stack.pop().__exit__(None, None, None)
            eff = FST.get_option('trivia', {'trivia': tup(call)} if has_call else {})
            cur = FST.get_option('trivia')
            d = len(stack)
        finally:
            while stack:
                stack.pop().__exit__(None, None, None)
            FST.set_options(trivia=saved0)
        cases.append(case)
        impls.append({'effective': json.dumps(untup(eff), separators=(',', ':')), 'cur': json.dumps(untup(cur), separators=(',', ':')), 'depth': d})
    _diff(ctx, name, cases, impls)


def correspondence(ctx):
    _corr_put_src(ctx)
    _corr_place(ctx)
    _corr_options(ctx)
    _corr_trivia(ctx)
    _corr_params(ctx)


# ---------------------------------------------------------------------------------------------------------------------

def _programs(ctx, n, stdlib):
    rng = random.Random(ctx.rng.random())
    progs = corpus.programs(rng, n, stdlib=stdlib)
    out = []
    for p in progs:
        if rng.random() < 0.8:
            p = corpus.add_comments(p, rng, p=rng.choice([0.2, 0.4, 0.7]))
        out.append(p)
    return out + co.HAND_PROGRAMS


def _run_sweep(ctx, progs, per):
    # deterministic product first: comma-separated containers (sequences, key: value containers, undelimited subscript tuple) x
    # element shapes x comment layouts x delete / insert at every position x trivia values
    xp = co.expr_product()
    res = pmap(co.expr_product_cases, [xp[i::32] for i in range(32)])
    # par / unpar of nested expressions squeezed between alphanumerics, then a second edit on the parent expression
    res += [co.unpar_product_cases()]
    res += pmap(co.unpar_history_cases, [(p, ctx.rng.randrange(1 << 30), 3) for p in progs[:len(progs) // 2]])
    # unenclosed comma lists that get line continuations when a multi-line slice is put (string literals with '#' on the line)
    res += [co.expr_product_cases(co.linecont_product())]
    # re-indenting insertions (elif -> else: + if) x contents of the re-indented block x docstr option x channel
    res += [co.reindent_product_cases(co.reindent_product())]
    res += pmap(co.edit_cases, [(p, ctx.rng.randrange(1 << 30), per) for p in progs])
    # two-step histories (replace an expression by a call, then edit a child of the new node), multi-byte text before the target
    res += pmap(co.two_step_cases, [(p, ctx.rng.randrange(1 << 30), max(3, per // 2)) for p in progs])
    # pure insertion into every empty optional block x decorations of the preceding last statement x nesting (whole product)
    eb = co.empty_block_programs()
    res += pmap(co.empty_block_cases, [eb[i::32] for i in range(32)])
    # histories with trivia-changing accessors between cache-filling reads and structural edits of the enclosing blocks
    res += pmap(co.history_cases, [(p, ctx.rng.randrange(1 << 30), max(2, per // 4)) for p in progs[:len(progs) * 2 // 3 if ctx.quick else len(progs) // 3] + co.HAND_PROGRAMS])
    # every trivia-related option through all three channels (per call / FST.options() / FST.set_options()): same outcome
    res += pmap(co.channel_cases, [(p, ctx.rng.randrange(1 << 30), 1 if ctx.quick else 2) for p in progs[:len(progs) // 2 if ctx.quick else len(progs) // 4] + co.HAND_PROGRAMS])
    n = 0
    for lst in res:
        for it in lst:
            n += 1
            ctx.count(it.get('key') or {'s': it['src'], 'e': it['edit']}, it['changed'])
            ctx.tally('edit_op', it['op'])
            ctx.tally('edit_field', it['field'])
            ctx.tally('edit_outcome', it['outcome'])
            ctx.tally('trivia_option', it['edit'].get('trivia'))
            if it['op'] == 'replace2':
                ctx.tally('two_step_multibyte_before_target', it.get('mb_before'))
            if it.get('bad_spans'):
                ctx.tally('put_src_unordered_span', 'end_ln<0' if it['bad_spans'][0][2] < 0 else 'end_ln=ln-1')
            for sig, what, wit in co.classify(it):
                ctx.fail(sig, what, wit)
            if it['violations'] or n <= 3:
                ctx.sample({'edit': it['edit'], 'src': it['src'][:300], 'after': (it.get('after') or '')[:300]})
    ctx.notes['sweep_edits'] = ctx.notes.get('sweep_edits', 0) + n


def sweep(ctx):
    q = ctx.quick
    progs = _programs(ctx, 220 if q else 3000, 20 if q else 300)
    _run_sweep(ctx, progs, 10 if q else 24)


def search(ctx):
    progs = _programs(ctx, 2500, 250)
    _run_sweep(ctx, progs, 30)


def replay(ctx, data):
    w = data.get('witness')
    if w and 'trivia_value' in w:
        v = tuple(w['trivia_value']) if w.get('tuple') or isinstance(w['trivia_value'], list) else w['trivia_value']
        r = cc.run_trivia_value(('t', list(v), False) if isinstance(v, tuple) else ('v', v, False))
        if r['ok'] and not r.get('legal'):
            ctx.fail('C04|check_options|trivia|accepted-not-mapped', f'check_options accepts trivia={v!r} but it is not mapped', w)
        return
    if not w or 'edit' not in w:
        print('replay file names a broken obligation or a raw splice, not a structured edit:', str(data.get('broken', data.get('what')))[:300])
        if w and 'a' in w:
            impl, _, _ = cc.real_put_src(w['lines'], w['put'], *w['a'])
            lines = w['lines']
            ln, col, eln, ecol = w['a']
            flat = '\n'.join(lines)
            o1 = sum(len(x) + 1 for x in lines[:ln]) + col
            o2 = sum(len(x) + 1 for x in lines[:eln]) + ecol
            if '\n'.join(impl['lines']) != flat[:o1] + '\n'.join(w['put'] or ['']) + flat[o2:]:
                ctx.fail('replay', '_put_src result is not the flat-text splice', w)
        return
    op = w['edit'].get('op')
    it = (co.run_two_step if op == 'replace2' else co.run_history if op == 'history' else co.run_channels if op == 'channels' else co.run_empty_block if op == 'insert-empty' else co.run_unpar_history if op == 'unpar-history' else co.run_edit)(w['src'], w['edit'])
    for sig, what, wit in co.classify(it):
        ctx.fail(sig, what, w)
