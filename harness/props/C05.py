"""C05 — parsing is lossless and agrees with Python's parser in every parse mode."""

import ast
import random

import c05_frag as F
import c05_modes
import corpus
from framework import LEAN, pmap, write_if_changed

ID = 'C05'
LEAN_MODULES = ['Pfst.Props.C05']
LEAN_DEPS = ['Pfst.ParseWrap', 'Pfst.ParseWrapLemmas', 'Pfst.SeqFix', 'Pfst.TrailSep', 'Pfst.TrailSepLemmas']
THEOREMS = [
    'Pfst.C05.wrap_positions', 'Pfst.C05.embed_text', 'Pfst.C05.rebase_embed', 'Pfst.C05.rebase_embed_at',
    'Pfst.C05.astloc_whole', 'Pfst.C05.no_escape', 'Pfst.C05.verify_sound', 'Pfst.C05.escape_detected',
    'Pfst.C05.mode_total', 'Pfst.C05.modes_match_spec', 'Pfst.C05.class_modes_match_spec', 'Pfst.C05.wrappers_sound',
    'Pfst.C05.wrappers_observed', 'Pfst.C05.b2c_c2b_boundary', 'Pfst.C05.fixSeq_trailing', 'Pfst.C05.fixSeq_no_trailing',
    'Pfst.C05.trailing_sep_spec', 'Pfst.C05.trailing_comma_spec', 'Pfst.C05.trailing_semicolon_spec',
    'Pfst.C05.trailing_sep_same_language', 'Pfst.C05.trailing_sep_blanks', 'Pfst.C05.verify_comments_irrelevant', 'Pfst.C05.arg_single', 'Pfst.C05.importfrom_no_own_parens', 'Pfst.C05.match_cases_undo_indent',
]
RULE = ('(1) whole programs (snippets, generated, layout-mutated, commented, multi-byte, stdlib chunks) through exec/stmts/strict/'
        'all/eval/single and FST(src): source unchanged, tree == ast.parse with positions; (2) for every extended mode, fragments '
        'of its category cut out of CPython-parsed programs by CPython positions and CPython tokens (node spans, spans grown over '
        'enclosing parentheses, regions inside call/def/class/subscript/type-parameter delimiters, operator tokens, dedented '
        'blocks), each in 6-9 layout variants (leading/trailing comment lines with non-ASCII text, blank line, continuation-line '
        'first line, leading blanks), plus PHRASES: sequences (tuples, slices, call arguments, open sequence patterns, class-pattern '
        'arguments, with-items, type parameters, def/lambda arguments) re-assembled from program elements and non-ASCII atoms with '
        'generated separator layouts (separator on its own following line at assorted columns incl. the byte/character column where '
        'the previous element ended, trailing separators, comments, blank lines, no line continuations), expected tree = CPython on the '
        'genuine enclosing construct rebased (cross-checked with the continuation-joined text); every non-ASCII phrase is also parsed '
        'as its ASCII twin (non-ASCII characters of names/strings/comments replaced by x) in the sequence, single-element and `all` modes: '
        'acceptance, node kinds and CHARACTER positions must coincide (transliteration invariance, which CPython has); all parsed by fst.parsex.parse and FST(text, mode) and compared with the sub-tree of the full '
        'program rebased to the fragment (lines minus start line, first-line byte columns minus start column); a fragment counts '
        'as "must be accepted" only if CPython accepts it embedded in the genuine construct with the same structure; (3) malformed '
        'stream: the 46 strings of tests/data/data_parse_invalid_src.txt plus generated wrapper escapes / wrong-category strings '
        'for every mode, "invalid for the mode" decided by CPython\'s tokenizer (bracket matching) and by embedding in the genuine '
        'construct. distinct = distinct (mode, text); non-trivial = multi-line, non-ASCII or variant text')
TRUSTED = [
    'CPython ast.parse / tokenize are the judges (external parameter of the model); harness rebasing and fragment extraction in '
    'harness/c05_frag.py share no code with pfst',
    'modelled (Pfst/ParseWrap.lean): wrapper embedding, _offset_linenos (incl. the falsy end_lineno skip), _astloc_from_src, the '
    'harness rebasing rule, _verify_no_close_delimiters (line assembly + depth count), delimiter matching; extracted every run: '
    'mode table, class-mode table, wrapper families and their line deltas (Pfst/Gen/Modes.lean)',
    '_fix_undelimited_seq_parsed_delimited is modelled in Pfst/SeqFix.lean on top of the next_frag/prev_frag model of Pfst/Scan.lean (C06) and '
    'tied by replaying recorded real calls; _has_trailing_comma/_semicolon (repaired linear patterns) are modelled in Pfst/TrailSep.lean '
    '(deterministic scan, proved equal to the pattern language and to the language of the pre-repair pattern) and tied by '
    'correspondence; not modelled: CPython itself; '
    'parse__match_cases indentation undo (uses FST._get_indentable_lns), the dangling '
    'BoolOp/Compare internal parsers, parse_all category guessing, type_comments/feature_version parse_params — all exercised by '
    'the sweep with CPython as judge only',
    'excluded input classes: fragments inside f-strings; Store/Del-context expressions as expr fragments; block fragments that '
    'contain multi-line strings (cannot be dedented); sources containing \\r or \\f; `all` mode on non-module fragments is compared '
    'only when it returns the category the fragment was cut from; trailing-semicolon single expressions in strict/all; '
    '_Assign_targets text WITHOUT the trailing "=" (the Mode docstring calls the trailing "=" optional, the implementation and '
    'its own tests require it: treated as not required, tallied under fragment_rejected_not_required); Import/ImportFrom name '
    'lists spanning several lines (valid only inside the parentheses of the genuine construct) are compared when accepted, '
    'not required to be accepted',
]
ASSUMPTIONS = ['CPython 3.12 positions and tokenizer are correct', 'a fragment is valid for a mode iff CPython accepts it embedded in '
               'the genuine construct of that mode (gates in harness/c05_frag.py) with the structure it has in the program']
LEVEL_TEXT = ('Lean 4 theorems about an executable model of everything fst.parsex adds around CPython\'s parser: text of a span is '
              'invariant under wrapper embedding and line shift (any prefix/suffix/source), byte-exact first-line column shift, '
              'rebase∘embed = id on every position tree (the real _offset_linenos control flow), _astloc_from_src = whole source in '
              'bytes, delimiter no-escape iff depth never negative and ends at zero (soundness and completeness of the verification '
              'loop); kernel-checked totality/spec-agreement of the mode table, class-mode table and wrapper families regenerated '
              'from the working tree on every run.')
LEVEL_NOTE = ('CPython\'s parser is trusted, not modelled: agreement with it is established per run by differential sweep over every '
              'mode on fragments of real programs with CPython as judge. Theorems are about the model; tie = extraction + '
              'function-level correspondence (_astloc_from_src, _offset_linenos, _verify_no_close_delimiters, rebasing).')
TECHNIQUE = 'Lean 4 proof (induction over lists/nested trees, decide +kernel over regenerated tables) + extraction + correspondence + CPython-judged sweep'

# programs rich in the rarer categories and in multi-byte text before nodes on the same line
EXTRA = [
    'with open("é") as fé, (yield_ := g("ü")) as (a, b), h("日本"): pass',
    'with (\n    a("é") as b,  # ü\n    c as d,\n): pass',
    'with (a), (b) as c, (d, e) as f: pass',
    'try:\n    pass\nexcept (É, "ü".x) as é:  # c\n    pass\nexcept* T:\n    x\n' .replace('except* T:\n    x\n', 'except T:\n    x\n'),
    'try:\n    pass\nexcept* (A, B) as é:\n    y = "ü"; z\nexcept* C:\n    pass\n',
    'match é:\n    case {"ü": [x, *y], **r} if r:  # c\n        pass\n    case C(a, "é", k=ü, l=[1, 2]) | D() as z:\n        pass\n    case (1 |\n          2): pass\n    case "é", *_: pass\n    case [("ü"), (x)]: pass\n',
    'def f[T: (int, "é"), *Ts, **P](a: "ü", /, b: T = "é", *c: Ts, d: int = 1, **e: P.kwargs) -> T: pass',
    'class C[T, U: "é"]("ü".x, *b, metaclass=M("é"), **k): pass',
    'type A[T: "é", *Ts] = dict["ü", T]',
    '@é("ü").x\n@(yield_)\n@a[\n  1]\ndef f(): pass',
    'x = [é + ü for é in "ü" if é if not ü for ü, (a, b) in z("é") if a]',
    'x = {"é": ü async for ü in é if ü}',
    'f("é", *ü, a="日", **é, b=(c := 1), *d)',
    'é = ü = a.b = c[0] = (d, e) = [f, *g] = "é"',
    'a = "é" if ü else "日本" or not é and ü is not é < ñ not in x',
    'x = "é"[ü:"é":ñ, ..., a:b] + é[*ü, a] + é[::]',
    'from ü import (é as ñ, b,\n    c as d)\nimport é.ü as ñ, b',
    'lam = lambda é, /, ü="é", *a, b="ü", **k: (é, ü)',
    'x = f"é{ü!r:>{w}}" "é" + b\nx = -é ** ~ü + (not a)',
    'x = (  # c\n    "é",\n    ü,  # d\n)\ny = (a,)\nz = ((a), "é" "ü", b)',
    'async def f():\n    async with a as b: pass\n    async for é in ü: await é\n    return [x async for x in y]',
    'for é, (a, *b) in "ü", c: pass',
    'x = a if "é" else b; y = ü\nassert é, "ü"\nraise É("ü") from e\ndel a, b["é"]\nglobal g\n',
    'print("é", (yield), (yield x), (yield from "ü"), (a := "é"))',
]

CONST_MODES = ('Load', 'Store', 'Del')


def _px():
    from fst import parsex
    return parsex


# ---------------------------------------------------------------------------------------------------------------------
# extraction

def extract(ctx):
    write_if_changed(LEAN / 'Pfst' / 'Gen' / 'Modes.lean', c05_modes.emit_text())
    _, unloc = c05_modes.wrapper_table()
    ctx.notes['wrapper_probe_unlocated'] = unloc


# ---------------------------------------------------------------------------------------------------------------------
# (2) fragments

CLASS_CAT = {}


def _class_cat(mode):
    """gate category of a node-class mode"""
    if not CLASS_CAT:
        for n in dir(ast):
            c = getattr(ast, n)
            if isinstance(c, type) and issubclass(c, ast.AST):
                if issubclass(c, ast.expr):
                    CLASS_CAT[n] = {'Starred': 'expr_arglike', 'Slice': 'expr_slice', 'Tuple': 'Tuple'}.get(n, 'expr')
                elif issubclass(c, ast.stmt):
                    CLASS_CAT[n] = 'stmt'
                elif issubclass(c, ast.pattern):
                    CLASS_CAT[n] = 'pattern'
                elif issubclass(c, ast.type_param):
                    CLASS_CAT[n] = 'type_param'
                elif issubclass(c, ast.operator):
                    CLASS_CAT[n] = 'operator'
                elif issubclass(c, ast.unaryop):
                    CLASS_CAT[n] = 'unaryop'
                elif issubclass(c, ast.cmpop):
                    CLASS_CAT[n] = 'cmpop'
                elif issubclass(c, ast.boolop):
                    CLASS_CAT[n] = 'boolop'
    return CLASS_CAT.get(mode)


def _loc4(n):
    return [n.lineno, n.col_offset, n.end_lineno, n.end_col_offset]


def _compare(fr, r, T, dl, dc1):
    """None if the pfst result `r` for variant text T equals the expected sub-tree(s); else (class, detail)"""
    reb = lambda n: F.rebase(n, fr.l0, fr.c0, fr.dedent, dl, dc1, fr.nodedent)
    if fr.opcls is not None:
        return None if type(r) is fr.opcls else ('tree', f'got {type(r).__name__}, expected {fr.opcls.__name__}')
    if fr.container is None:
        exp = reb(fr.nodes[0])
        d1, d2 = F.dump(r), F.dump(exp)
        if d1 == d2:
            return None
        if F.dump(r, False) != F.dump(exp, False):
            return ('tree', _fd(F.dump(r, False), F.dump(exp, False)))
        return ('positions', _fd(d1, d2))
    cname, field = fr.container
    if type(r).__name__ != cname:
        return ('tree', f'got {type(r).__name__}, expected {cname}')
    fields = fr.nodes if field is None else [(field, fr.nodes)]
    for fname, lst in fields:
        got = getattr(r, fname, None)
        if not isinstance(got, list) or len(got) != len(lst):
            return ('tree', f'{fname}: {len(got) if isinstance(got, list) else got!r} elements, expected {len(lst)}')
        for g, x in zip(got, lst):
            if isinstance(x, ast.AST):
                exp = reb(x)
                d1, d2 = F.dump(g), F.dump(exp)
                if d1 != d2:
                    if F.dump(g, False) != F.dump(exp, False):
                        return ('tree', _fd(F.dump(g, False), F.dump(exp, False)))
                    return ('positions', _fd(d1, d2))
            elif g != x:
                return ('tree', f'{fname}: {g!r} != {x!r}')
    if _loc4(r) != F.whole_loc(T):
        return ('container-loc', f'{_loc4(r)} != whole source {F.whole_loc(T)}')
    return None


def _canon_expected(fr, T, dl, dc1):
    """JSON-able expected result (stored in the witness so that a replay needs no program)"""
    reb = lambda n: F.dump(F.rebase(n, fr.l0, fr.c0, fr.dedent, dl, dc1, fr.nodedent)) if isinstance(n, ast.AST) else n
    if fr.opcls is not None:
        return {'op': fr.opcls.__name__}
    if fr.container is None:
        return {'node': reb(fr.nodes[0])}
    cname, field = fr.container
    fields = fr.nodes if field is None else [(field, fr.nodes)]
    return {'container': cname, 'fields': {f: [reb(x) for x in lst] for f, lst in fields}, 'loc': F.whole_loc(T)}


def _canon_got(exp, r):
    if 'op' in exp:
        return {'op': type(r).__name__}
    if 'node' in exp:
        return {'node': F.dump(r)}
    return {'container': type(r).__name__,
            'fields': {f: [F.dump(x) if isinstance(x, ast.AST) else x for x in getattr(r, f, [])] for f in exp['fields']},
            'loc': _loc4(r) if hasattr(r, 'end_lineno') else None}


def _fd(a, b, ctx=50):
    n = min(len(a), len(b))
    i = next((k for k in range(n) if a[k] != b[k]), n)
    return f'@{i}: pfst={a[max(0, i - ctx):i + ctx]!r} cpython={b[max(0, i - ctx):i + ctx]!r}'


def _result_struct(fr, r):
    try:
        if fr.opcls is not None:
            return [F.dump(r, False)]
        if fr.container is None:
            return [F.dump(r, False)]
        cname, field = fr.container
        if field is None:
            return [(f, [F.dump(x, False) for x in getattr(r, f)]) for f in ('patterns', 'kwd_attrs', 'kwd_patterns')]
        return [F.dump(x, False) for x in getattr(r, field)]
    except Exception:
        return None


def run_fragment(fr, variants=True):
    """-> list of result dicts (one per variant)"""
    from fst import FST
    px = _px()
    out = []
    block = fr.dedent > 0 or fr.mode in ('stmt', 'ExceptHandler', '_ExceptHandlers', 'match_case', '_match_cases', '_decorator_list') \
        or _class_cat(fr.mode) == 'stmt'
    gmode = fr.mode if fr.mode in F.GATES else _class_cat(fr.mode)
    exp_struct = F.struct(fr.nodes)
    for vname, T, dl, dc1 in (F.variants(fr.text, block) if variants else [('base', fr.text, 0, 0)]):
        res = {'mode': fr.mode, 'kind': fr.kind, 'variant': vname, 'text': T}
        if '\r' in T or '\f' in T:
            continue
        if F.redos_risk(T):
            res['skip'] = 'redos-risk (C05-F7)'
            out.append(res)
            continue
        if not F.balanced(T):
            res['skip'] = 'unbalanced-extraction' if vname == 'base' else 'variant-unbalanced'
            out.append(res)
            if vname == 'base':
                break
            continue
        g = F.gate(gmode, T, 'must') if gmode else None
        must = g is not None and F.struct(g) == exp_struct
        if fr.opcls is not None:
            must = g is not None and type(g[0]) is fr.opcls
        res['must'] = must
        if vname == 'base' and not must:
            res['base_ungated'] = True
        try:
            r = px.parse(T, fr.mode)
        except SyntaxError as e:
            res['raised'] = type(e).__name__
            if must:
                res['fail'] = ('rejects-valid', f'{type(e).__name__}: {str(e)[:100]}')
            out.append(res)
            continue
        except RecursionError:
            continue
        except Exception as e:
            res['raised'] = type(e).__name__
            if must:
                res['fail'] = ('crash:' + type(e).__name__, str(e)[:100])
            out.append(res)
            continue
        if not must and _result_struct(fr, r) != exp_struct:
            res['skip'] = 'ungated-different'
            out.append(res)
            continue
        d = _compare(fr, r, T, dl, dc1)
        if d:
            res['fail'] = d
            res['expected'] = _canon_expected(fr, T, dl, dc1)
            out.append(res)
            continue
        res['root'] = type(r).__name__
        # FST construction: source kept, same tree
        try:
            f = FST(T, fr.mode)
            if f.src != T:
                res['fail'] = ('src-changed', _fd(f.src, T))
            else:
                d1 = F.dump(f.a)
                d2 = F.dump(px.parse(T, fr.mode))
                if d1 != d2:
                    res['fail'] = ('fst-tree-differs', _fd(d1, d2))
        except Exception as e:
            res['fail'] = ('fst-crash:' + type(e).__name__, str(e)[:100])
        # mode 'all': compared only when it returns the same category
        if vname == 'base' and fr.container is None and fr.opcls is None:
            try:
                ra = px.parse(T, 'all')
                if must and fr.mode == 'expr_all' and isinstance(ra, ast.expr):
                    # whatever expression `all` makes of the text must be the expression CPython sees in it
                    d1, d2 = F.dump(ra), F.dump(F.rebase(fr.nodes[0], fr.l0, fr.c0, fr.dedent, dl, dc1, fr.nodedent))
                    res['all'] = 'same'
                    if d1 != d2 and 'fail' not in res:
                        res['fail_all'] = ('tree' if F.dump(ra, False) != F.dump(fr.nodes[0], False) else 'positions', _fd(d1, d2))
                        res['expected'] = _canon_expected(fr, T, dl, dc1)
                elif type(ra) is type(fr.nodes[0]) and F.dump(ra, False) == F.dump(fr.nodes[0], False):
                    d1, d2 = F.dump(ra), F.dump(F.rebase(fr.nodes[0], fr.l0, fr.c0, fr.dedent, dl, dc1, fr.nodedent))
                    res['all'] = 'same'
                    if d1 != d2 and 'fail' not in res:
                        res['fail_all'] = ('positions', _fd(d1, d2))
                else:
                    res['all'] = 'other'
            except SyntaxError:
                res['all'] = 'raised'
            except Exception as e:
                res['all'] = 'crash'
        out.append(res)
    return out


NSHARDS = 6


def _frag_worker(arg):
    src, seed, per_kind, cap, shard = arg
    rng = random.Random(seed)
    try:
        P = F.Prog(src)
    except Exception:
        return []
    try:
        frs = F.fragments(P, rng, per_kind)
    except RecursionError:
        return []
    # cap per mode so that the expression modes do not crowd out the rest
    by_mode = {}
    for fr in frs:
        by_mode.setdefault(fr.mode, []).append(fr)
    out = []
    k = 0
    for m in sorted(by_mode):
        lst = by_mode[m]
        if len(lst) > cap:
            lst = rng.sample(lst, cap)
        for fr in lst:
            k += 1
            if k % NSHARDS == shard:
                out.extend(run_fragment(fr))
    return out


def _outcome(px, T, mode):
    try:
        r = px.parse(T, mode)
    except SyntaxError:
        return ('raised',)
    except RecursionError:
        return None
    except Exception as e:
        return ('crash', type(e).__name__)
    return ('tree', F.char_shape(r, T))


def _meta_check(fam, T):
    """transliteration invariance: replacing non-ASCII characters (in names / strings / comments) by ASCII ones changes the
    byte geometry but not the tokens, so acceptance, result kind and all positions counted in CHARACTERS must stay the same
    (CPython's parser has this invariance; every byte/character confusion in the position fix-ups breaks it)"""
    out = []
    if T.isascii() or F.redos_risk(T) or '\r' in T:
        return out
    A = F.ascii_twin(T)
    px = _px()
    for mode in F.META_MODES.get(fam, ()):
        o1, o2 = _outcome(px, T, mode), _outcome(px, A, mode)
        if o1 is None or o2 is None:
            continue
        res = {'mode': mode, 'kind': 'phrase:' + fam, 'variant': 'base', 'text': T, 'must': False, 'meta': True}
        if o1 != o2:
            if o1[0] != o2[0]:
                d = f'{o1[0]} with the non-ASCII text, {o2[0]} with its ASCII twin {A!r}'
            else:
                d = 'character positions / node kinds differ from the ASCII twin: ' + _fd(str(o1[1]), str(o2[1]))
            res['fail'] = ('nonascii-changes-outcome', d)
            res['expected'] = None
        out.append(res)
    return out


def _phrase_worker(arg):
    src, seed, n, var_frac = arg
    rng = random.Random(seed)
    P = None
    if src is not None:
        try:
            P = F.Prog(src)
        except Exception:
            P = None
    out = []
    for fam, T in F.phrase_texts(P, rng, n):
        out.extend(_meta_check(fam, T))
        for fr in F.phrase_frags(fam, T):
            if isinstance(fr, tuple):
                out.append({'mode': fr[1], 'kind': 'phrase:' + fam, 'variant': 'base', 'text': T, 'skip': 'oracle-disagree'})
                continue
            out.extend(run_fragment(fr, variants=rng.random() < var_frac))
    return out


def _single_worker(arg):
    mode, T = arg
    fr = F.single_frag(mode, T)
    if fr is None:
        return [{'mode': mode, 'kind': 'atom', 'variant': 'base', 'text': T, 'skip': 'atom-not-accepted-by-gate'}]
    return run_fragment(fr)


def _sig(r, cls):
    v = '' if r['variant'] == 'base' else '@' + r['variant']
    return f'C05|{r["mode"]}|{r["kind"]}|{cls}{v}'


def _report(ctx, results):
    for r in results:
        ctx.tally('fragment_mode', r['mode'])
        if 'skip' in r:
            ctx.tally('fragment_skipped', r['skip'])
            continue
        nontrivial = '\n' in r['text'] or not r['text'].isascii() or r['variant'] != 'base'
        ctx.count((r['mode'], r['text']), nontrivial)
        ctx.tally('fragment_variant', r['variant'])
        if r.get('must'):
            ctx.tally('fragment_must_accept', r['mode'])
        if 'raised' in r and 'fail' not in r:
            ctx.tally('fragment_rejected_not_required', r['mode'])
        if r.get('all'):
            ctx.tally('all_mode_on_fragment', r['all'])
        for key, mode in (('fail', r['mode']), ('fail_all', 'all')):
            if key in r:
                cls, detail = r[key]
                rr = dict(r, mode=mode)
                ctx.fail(_sig(rr, cls), f'parse({r["text"]!r}, {mode!r}) [{r["kind"]}, {r["variant"]}]: {cls}: {detail}',
                         {'kind': 'fragment', 'mode': mode, 'text': r['text'], 'fragment_kind': r['kind'], 'variant': r['variant'],
                          'class': cls, 'detail': detail, 'expected': r.get('expected')})


# ---------------------------------------------------------------------------------------------------------------------
# (1) native modes on whole programs

def _has_semicolon_after(src, node):
    try:
        P = F.Prog(src)
    except Exception:
        return True
    j = P.by_end.get((node.end_lineno, node.end_col_offset))
    j = P.fwd_over_parens((node.end_lineno, node.end_col_offset)) if j is not None else None
    return j is not None and P.tstr(j) == ';'


def _native_worker(src):
    from fst import FST
    px = _px()
    out = []
    if '\r' in src or '\f' in src or F.redos_risk(src):
        return out
    try:
        ref = ast.parse(src)
    except Exception:
        return out
    dref = F.dump(ref)

    def chk(mode, build, expected_dump, label):
        try:
            f = build()
        except Exception as e:
            out.append((mode, label, 'rejects-valid' if isinstance(e, SyntaxError) else 'crash:' + type(e).__name__, str(e)[:120], src))
            return
        if isinstance(f, ast.AST):
            d = F.dump(f)
        else:
            if f.src != src:
                out.append((mode, label, 'src-changed', _fd(f.src, src), src))
                return
            d = F.dump(f.a)
        if d != expected_dump:
            out.append((mode, label, 'tree-or-positions', _fd(d, expected_dump), src))
        else:
            out.append((mode, label, None, None, src))

    for mode in ('exec', 'stmts', 'Module', ast.Module):
        chk(str(getattr(mode, '__name__', mode)), lambda: FST(src, mode), dref, 'program')
    chk('exec', lambda: px.parse(src, 'exec'), dref, 'program-parse')
    chk('exec', lambda: FST.fromsrc(src), dref, 'program-fromsrc')
    # strict / all / FST(src): documented reduction
    body = ref.body
    if len(body) == 1 and isinstance(body[0], ast.Expr):
        # a single expression statement terminated by ';' is not an expression (`a ;` does not parse as one): it stays an Expr
        red = body[0] if _has_semicolon_after(src, body[0].value) else body[0].value
    elif len(body) == 1:
        red = body[0]
    else:
        red = ref
    if red is not None:
        dred = F.dump(red)
        chk('strict', lambda: FST(src, 'strict'), dred, 'program-reduced')
        chk('all', lambda: FST(src, 'all'), dred, 'program-reduced')
        chk('all', lambda: FST(src), dred, 'program-default-mode')
        chk('all', lambda: FST.parse_ast(src), dred, 'program-parse_ast')
    # single statements: stmt / single modes and eval for expression statements
    lines = src.split('\n')
    for s in body[:6]:
        if getattr(s, 'decorator_list', None):
            continue
        T = '\n'.join(lines[s.lineno - 1:s.end_lineno])
        if F.redos_risk(T):
            continue
        try:
            one = ast.parse(T)
        except Exception:
            continue
        if len(one.body) != 1:
            continue
        try:
            ri = ast.parse(T, mode='single')
        except SyntaxError:
            try:
                ri = ast.parse(T + '\n', mode='single')
            except SyntaxError:
                ri = None
        if ri is not None:
            _chk_text(out, 'single', T, F.dump(ri), 'statement')
            _chk_text(out, 'Interactive', T, F.dump(ri), 'statement')
        if isinstance(s, ast.Expr) and len(one.body) == 1 and isinstance(one.body[0], ast.Expr) \
                and not _has_semicolon_after(T, one.body[0].value):
            try:
                re_ = ast.parse(T, mode='eval')
            except SyntaxError:
                re_ = None
            if re_ is not None:
                _chk_text(out, 'eval', T, F.dump(re_), 'expression')
                _chk_text(out, 'Expression', T, F.dump(re_), 'expression')
    return out


def _chk_text(out, mode, T, expected_dump, label):
    from fst import FST
    try:
        f = FST(T, mode)
    except Exception as e:
        out.append((mode, label, 'rejects-valid' if isinstance(e, SyntaxError) else 'crash:' + type(e).__name__, str(e)[:120], T))
        return
    if f.src != T:
        out.append((mode, label, 'src-changed', _fd(f.src, T), T))
    elif F.dump(f.a) != expected_dump:
        out.append((mode, label, 'tree-or-positions', _fd(F.dump(f.a), expected_dump), T))
    else:
        out.append((mode, label, None, None, T))


def _report_native(ctx, rows):
    for mode, label, cls, detail, src in rows:
        ctx.tally('native_mode', mode)
        ctx.count((mode, label, src), '\n' in src or not src.isascii())
        if cls:
            ctx.fail(f'C05|{mode}|{label}|{cls}', f'{mode} on {label}: {cls}: {detail}',
                     {'kind': 'native', 'mode': mode, 'label': label, 'text': src, 'class': cls, 'detail': detail})


# ---------------------------------------------------------------------------------------------------------------------
# (3) malformed stream

def invalid_data_strings():
    """distinct sources of tests/data/data_parse_invalid_src.txt: `<repr of source>  <parse function>  **<Error>**` per line"""
    import re
    from framework import REPO
    p = REPO / 'tests' / 'data' / 'data_parse_invalid_src.txt'
    out = []
    seen = set()
    if not p.exists():
        return out
    for line in p.read_text().split('\n'):
        m = re.match(r"^('(?:[^'\\]|\\.)*'|\"(?:[^\"\\]|\\.)*\")\s+parse_\w+\s+\*\*.*\*\*\s*$", line)
        if not m:
            continue
        try:
            s = ast.literal_eval(m.group(1))
        except Exception:
            continue
        if s not in seen:
            seen.add(s)
            out.append(('data-file', s))
    return out


def semicolon_product():
    """one statement / element, layout trivia, then ';' (and what may follow): every kind of trivia between the node and the
    separator - blanks, closing parentheses, line continuations, comment lines"""
    out = []
    heads = ['a', 'f(x)', 'a, b', '"é"', '(a)', '(a\n)', 'a.b as c', 'a as b', 'é', 'x = 1', 'a,', '*a', 'yield', 'lambda: a']
    trivia = ['', ' ', ' \\\n', ' \\\n    ', '\\\n\\\n', ') \\\n']
    tails = ['', '\n', ' # c', ' b']
    for h in heads:
        for t in trivia:
            for tl in tails:
                out.append(h + t + ';' + tl)
    return out


def sibling_product():
    """a valid single element of a single-element mode with ONE extra sibling of every kind the container can hold, before
    and after it, in several layouts: never a single element"""
    fam = {
        'arg': (['a', 'a: int', 'args: *Ts', 'é: "ü"'], ['b', '/', '*', '*c', '**k', 'b=1', 'c: int', '*c: *Us', '**k: int', '*, d']),
        'keyword': (['k=v', '**d', 'é="ü"'], ['a', '*a', 'j=1', '**e', '"é"']),
        'withitem': (['a', 'a as b', '(a := 1)', 'f("é") as ü'], ['c', 'c as d', '(yield)']),
        'type_param': (['T', 'T: int', '*Ts', '**P'], ['U', 'U: str', '*Us', '**Q']),
        '_arglike': (['a', '*a', 'k=v', '**d', '*not a'], ['b', '*b', 'j=1', '**e']),
        'alias': (['a', 'a.b as c', 'a as b'], ['d', 'd as e', 'd.e']),
        'comprehension': (['for a in b', 'async for a in b if c'], ['for c in d', 'if e', 'async for x in y']),
        'ExceptHandler': (['except A: pass', 'except: pass'], ['except B as b: pass', 'else: pass', 'finally: pass']),
        'match_case': (['case 1: pass', 'case a if b: pass'], ['case _: pass', 'case [x]: pass']),
        'stmt': (['a = 1', 'pass', 'if a: pass'], ['b', 'import c', 'x: int']),
    }
    out = []
    for mode, (heads, sibs) in fam.items():
        block = mode in ('ExceptHandler', 'match_case', 'stmt')
        sp = [' ', '\n'] if mode == 'comprehension' else ['\n'] if block else [', ', '  # c é\n, ']
        for h in heads:
            for sb in sibs:
                for sep in sp:
                    out.append(h + sep + sb)
                    out.append(sb + sep + h)
    return out


MODE_GROUPS = [
    ['alias', 'Import_name', 'ImportFrom_name', '_aliases', '_Import_names', '_ImportFrom_names'],
    ['arg', 'arguments', 'arguments_lambda'], ['keyword', '_arglike', '_arglikes', 'expr_arglike'], ['withitem', '_withitems'],
    ['type_param', '_type_params'], ['comprehension', '_comprehensions', '_comprehension_ifs'], ['pattern', '_pattern_attrlikes'],
    ['expr', 'expr_all', 'expr_slice', 'Tuple_elt', 'Tuple', 'expr_arglike'], ['ExceptHandler', '_ExceptHandlers'],
    ['match_case', '_match_cases'], ['stmt', 'stmts', 'exec'], ['_decorator_list'], ['_Assign_targets'],
    ['operator', 'unaryop', 'cmpop', 'boolop'],
]


def own_delimiter_product():
    """every atom of every mode wrapped in its OWN parentheses, single- and multi-line, the closing parenthesis at assorted
    columns (incl. the column where the element ends on its line), with comment / trailing comma: CPython on the genuine
    construct decides whether the element may carry parentheses of its own (an expression may, an alias / arg / keyword /
    type parameter / comprehension may not).  -> [(label, text, modes)]"""
    out = []
    for mode, atoms in sorted(F.SINGLE_ATOMS.items()):
        group = next((g for g in MODE_GROUPS if mode in g), [mode])
        modes = sorted(set(group + ['all']))
        for X in atoms:
            if not X or '\n' in X and mode in ('ExceptHandler', 'match_case', 'stmt', '_ExceptHandlers', '_match_cases', '_decorator_list'):
                continue
            L = len(X.rsplit('\n', 1)[-1])
            for W in (f'({X})', f'( {X} )', f'(\n{X}\n)', f'(\n{X}\n' + ' ' * max(L - 1, 0) + ')', f'(\n{X}\n' + ' ' * L + ')',
                      f'(\n  {X}\n' + ' ' * (L + 1) + ')', f'(  # c\n{X}\n)', f'(\n{X},\n)', f'({X}\n)', f'(\n{X})', f'[\n{X}\n]'):
                out.append(('owndelims:' + mode, W, modes))
    return out


def generated_malformed(rng, n_random):
    out = []
    for s in semicolon_product():
        out.append(('semicolon:' + F.shape(s), s))
    for s in sibling_product():
        out.append(('siblings:' + F.shape(s), s))
    pairs = [(')', '('), (']', '['), ('}', '{')]
    mids = ['', '+', ',', '=', ' if ', ':', ' as c,', '->', ' for x in ', '.', ' and ', ' or ', '|', ':=', ' in ', '*']
    pres = ['', 'a', 'a,', 'a,b', 'a=1', '*a', 'a as b', 'x for x in y', 'a:b', '1', 'é', '"é"', 'T: int', '@a', 'if a', 'for a in b']
    sufs = ['', 'b', '*b', 'b,', 'b=2', 'ü', ' b for b in c']
    seps = ['', ' ', '\n', ' # c\n', ' \\\n', '\n\n', '\n# x, y\n', ' # 2) second, optional\n', '\n# ]\n', '\n# "\n# (\n']
    for c, o in pairs:
        for mid in mids:
            lab = f'escape{c}{mid.strip()}{o}'
            out.append((lab, f'{c}{mid}{o}'))
            out.append((lab, f'a{c}{mid}{o}b'))
            out.append((lab, f'{c}{mid}{o}b=2'))
            out.append((lab, f'a=1{c}{mid}{o}b=2'))
            out.append((lab, f'a{c}{mid}{o}*b'))
            for cm in ('# x, y', '# 2) second, optional', '# ], [', '# "', '# ('):      # code-like comment lines around a real escape
                out.append((lab, f'a\n{cm}\n{c}{mid}{o}b'))
                out.append((lab, f'a  {cm}\n{c}{mid}{o}\n{cm}\nb'))
    for _ in range(n_random):
        c, o = rng.choice(pairs)
        mid = rng.choice(mids)
        s1, s2, s3, s4 = (rng.choice(seps) for _ in range(4))
        out.append((f'escape{c}{mid.strip()}{o}', rng.choice(pres) + s1 + c + s2 + mid + s3 + o + s4 + rng.choice(sufs)))
    # unbalanced
    for s in ['(', ')', 'a(', 'a)', '[a', 'a]', '{', '}', '(a]', '[a)', 'a, (b', 'a) # (', '(a # )', 'f(a))', '((a)', 'a[1]]', 'é)', '(ü']:
        out.append(('unbalanced:' + F.shape(s), s))
    # wrong category / too many / trailing garbage (balanced)
    for s in ['a:b', 'a:b:c', 'a\nb', 'a;b', 'a; b', 'a;', 'a b', 'a,', 'a, b', 'a=1, b=2', 'a=1,', '*a', '**a', '*not a', '*a or b',
              'x for x in y', 'x for x in y, z', '*b for b in c', '(a) for a in b', '+ a for a in b', '.x for x in y', 'or a for a in b', 'for x in y', 'for x in y if z', 'if a', 'if a if b', 'if a else b', 'a if b',
              'a as b', 'a as b, c', 'a as b,', 'a.b as c', '* as b', 'a.b', '*', 'a := 1', 'yield', 'yield a', 'lambda', 'lambda: 1',
              'except: pass', 'except: pass\nexcept: pass', 'except: pass\nelse: pass', 'except: pass\nfinally: pass',
              'case 1: pass', 'case 1: pass\ncase 2: pass', 'case 1: pass\nx', 'case', '@a', '@a\n@b', '@a\nclass c: pass', 'a =', 'a = b', 'a = b =',
              'a = b = c', '= a', 'a: int', 'a: int = 1', 'a=1', 'T', 'T: int', 'T = int', '*T', '**P', 'T, U', 'T,', '1 as a', 'a | b',
              '1 | 2', 'a, *b', '*a, b', '{1: a}', 'C(a, b=1)', 'a, b=1', 'b=1, a', '+', '-', 'not', 'not in', 'is', 'is not', 'is  not',
              'not  in', 'and', 'or', '==', '+=', '+ +', 'and or', '~', '!', 'in', 'a +', '+ a', 'and a', 'a and', '< a', 'a <', '',
              ' ', '\n', '# c', '# c\n', '\\\n', 'a \\\n', 'pass', 'pass\npass', 'def f(): pass', 'import a', 'from a import b',
              'a, /, b', 'a, *, b', 'a=1, /', '*a, **b', 'a: int, b', '*a: int', '**a: int', 'a, b: int = 1', ' a', ' a\n b', 'a\n b',
              ' a, b', '  except: pass', ' case 1: pass', ' @a', '\na', '\n=a', 'a) = (b', 'é as ü', '"é"', 'ü: "é"', 'a\r', '\ra', 'a\rb',
              'a\x0cb', '\x0ca', 'a\x00', 'a # c', 'a # c\n', 'a\n# c', '# c\na', '(a)', '(a),', '((a))', '[a]', '[a for a in b]', '{a}', '{}',
              '()', '[]', '(,)', '(a,)', 'a[b]', 'a[b:c]', 'a(b)', 'a(b=1)', 'f(x for x in y)', 'None', 'True', '...', '1', '-1', '1+2j', '"s" "t"',
              'f"{a}"', 'f"{a!r:>{w}}"', "f'{a}' 'b'", 'a if b else c', 'not a', 'await a', 'a or b', '*a, *b', 'a[b], c', 'a.b.c', 'a.b()',
              'lambda x: x', 'lambda x=(1): x', 'x: y = z', 'x = yield', 'async for a in b', 'async for a in b if c',
              'except* A: pass', 'except (A, B) as e: pass', 'case [a, *b]: pass', 'case {"k": v}: pass', 'case a if b: pass',
              'with a: pass', 'a as (b, c)', '(a as b)', '(a) as b', '(a, b)', '(a, b) as c', 'a, (b)', '(yield)', '(a := 1)', 'a(b) as c',
              '@a.b(c)', '@(a)', '@a  # c', '@a\n# c\n@b', '@a\n\n@b', 'a.b as c, d', 'a as b, c as d', '*, a', 'a, b, c',
              'T: (int, str)', 'T: int = str', '*Ts = a', '**P = b', 'T, *Ts, **P', 'T,\nU', 'a = \\\nb =', 'a[0] = b.c =', '(a, b) = [c] =',
              '*a, b =', 'a =\nb =', 'a, b = c', 'k=v', '**k', 'k = v', 'k=v # c', 'k\n=\nv', 'k=(yield)', 'a, k=v', 'k=v, *a', 'k=v, **d',
              '*a, k=v', 'for a in b for c in d', 'for a, b in c', 'for (a) in b', 'for a in b, c', 'for a in (b, c)', 'for a in b if c if d',
              'for a in lambda: b', 'async for a in b for c in d', 'if a if b', 'if (a)', 'if a, b', 'if a for b in c', 'if lambda: a',
              'if a else b']:
        out.append((F.shape(s) or 'blank', s))
    return out


MAL_CLASS_MODES = ['Name', 'Constant', 'BinOp', 'Call', 'Tuple', 'List', 'Set', 'Starred', 'Slice', 'Dict', 'Lambda', 'FunctionDef', 'Assign',
                   'Expr', 'Pass', 'Import', 'MatchAs', 'MatchSequence', 'MatchStar', 'Add', 'Not', 'IsNot', 'And', 'TypeVar', 'ParamSpec',
                   'Module', 'Expression', 'Interactive', 'ExceptHandler', 'match_case', 'comprehension', 'arguments', 'arg', 'keyword',
                   'alias', 'withitem', '_arglikes', '_withitems', '_aliases']


def _mal_modes():
    return c05_modes.mode_literals() + ['_expr_arglikes'] + MAL_CLASS_MODES


def _mal_worker(arg):
    label, T = arg[0], arg[1]
    only = arg[2] if len(arg) > 2 else None
    px = _px()
    out = []
    if F.redos_risk(T):
        return out
    bal = F.balanced(T)
    wacky = any(c in T for c in '\r\x0c\x00')
    for mode in (only or _mal_modes()):
        gmode = mode if mode in F.GATES else _class_cat(mode)
        if mode in ('Module',):
            gmode = 'exec'
        elif mode == 'Expression':
            gmode = 'eval'
        elif mode == 'Interactive':
            gmode = 'single'
        elif mode == '_expr_arglikes':
            gmode = '_arglikes'
        try:
            r = px.parse(T, mode)
            got = type(r).__name__
        except SyntaxError:
            out.append((mode, label, T, 'raised', None))
            continue
        except RecursionError:
            continue
        except Exception as e:
            out.append((mode, label, T, 'crash:' + type(e).__name__, str(e)[:100]))
            continue
        # pfst returned a tree: was it allowed to?
        if not bal:
            out.append((mode, label, T, 'accepted-invalid', f'unbalanced source parsed to {got}'))
            continue
        # positions must at least lie inside the source
        bad = None
        nl = T.count('\n') + 1
        for a in ast.walk(r):
            if getattr(a, 'end_lineno', None) is not None and hasattr(a, 'lineno'):
                if not (1 <= a.lineno <= a.end_lineno <= nl) or a.col_offset < 0 or a.end_col_offset < 0:
                    bad = f'{type(a).__name__} at {a.lineno},{a.col_offset}..{a.end_lineno},{a.end_col_offset} outside the {nl}-line source'
                    break
        if bad and not wacky:
            out.append((mode, label, T, 'positions-outside', bad))
            continue
        if wacky or gmode is None:
            out.append((mode, label, T, 'accepted', got))
            continue
        g = F.gate(gmode, T, 'all')
        if g is None:
            out.append((mode, label, T, 'accepted-invalid', f'CPython rejects it in the genuine construct; parsed to {got}'))
            continue
        cls = getattr(ast, mode, None) if mode not in F.GATES else None
        if isinstance(cls, type) and mode not in ('Module', 'Expression', 'Interactive') and g and isinstance(g[0], ast.AST) \
                and not isinstance(r, cls):
            out.append((mode, label, T, 'accepted-invalid', f'mode {mode} returned {got}'))
            continue
        gm = F.gate(gmode, T, 'must')
        if gm is not None and mode in F.GATES:
            fr = _pseudo_frag(mode, gm)
            if fr is not None and _result_struct(fr, r) is not None and _result_struct(fr, r) != F.struct(gm):
                out.append((mode, label, T, 'tree', f'structure differs from CPython in the genuine construct: {got}'))
                continue
        if mode not in CONST_MODES:
            try:
                from fst import FST
                f = FST(T, mode)
                if f.src != T:
                    out.append((mode, label, T, 'src-changed', _fd(f.src, T)))
                    continue
            except Exception as e:
                out.append((mode, label, T, 'fst-crash:' + type(e).__name__, str(e)[:100]))
                continue
        out.append((mode, label, T, 'accepted', got))
    return out


CONTAINER_FIELD = {'_ExceptHandlers': 'handlers', '_match_cases': 'cases', '_Assign_targets': 'targets', '_decorator_list': 'decorator_list',
                   '_arglikes': 'arglikes', '_comprehensions': 'generators', '_comprehension_ifs': 'ifs', '_aliases': 'names',
                   '_Import_names': 'names', '_ImportFrom_names': 'names', '_withitems': 'items', '_type_params': 'type_params'}


def _pseudo_frag(mode, gm):
    if mode in ('exec', 'stmts', 'single', 'eval'):
        return None
    if mode == '_pattern_attrlikes':
        return F.Frag(mode, 'm', '', 1, 0, gm, ('_pattern_attrlikes', None))
    if mode in CONTAINER_FIELD:
        return F.Frag(mode, 'm', '', 1, 0, gm, ('x', CONTAINER_FIELD[mode]))
    if len(gm) != 1:
        return None
    return F.Frag(mode, 'm', '', 1, 0, gm)


def _report_mal(ctx, rows):
    for mode, label, T, cls, detail in rows:
        ctx.tally('malformed_outcome', cls.split(':')[0])
        ctx.count(('mal', mode, T), cls == 'raised')
        if cls in ('raised', 'accepted'):
            continue
        if cls.startswith('crash') and not F.balanced(T):
            # unbalanced source rejected with a non-SyntaxError exception: still rejected; tallied, not a property failure
            ctx.tally('malformed_rejected_by_other_exception', cls)
            continue
        ctx.fail(f'C05|{mode}|malformed:{label}|{cls}', f'parse({T!r}, {mode!r}): {cls}: {detail}',
                 {'kind': 'malformed', 'mode': mode, 'text': T, 'label': label, 'class': cls, 'detail': detail})


# ---------------------------------------------------------------------------------------------------------------------
# correspondence: model vs code

def _ser(a):
    pos = _loc4(a) if getattr(a, 'end_lineno', None) is not None and hasattr(a, 'lineno') else None
    if pos is None and hasattr(a, 'lineno') and hasattr(a, 'end_lineno'):
        pos = None
    return [pos, [_ser(c) for c in ast.iter_child_nodes(a)]]


def _flat(a, out):
    out.append(_loc4(a) if hasattr(a, 'lineno') and hasattr(a, 'end_lineno') and a.end_lineno is not None else None)
    for c in ast.iter_child_nodes(a):
        _flat(c, out)
    return out


def _rand_text(rng, nl=True):
    alpha = ['a', 'b', ' ', 'é', 'ü', '日', '😀', '(', ')', '#', ',', '\t', 'x']
    if nl:
        alpha += ['\n', '\n']
    return ''.join(rng.choice(alpha) for _ in range(rng.randint(0, 14)))


def _set_guard(ctx):
    """texts ending in a long run of blanks hang an unrepaired tree (C05-F7, uninterruptible regex): they are generated only
    when the timing probe shows linear behaviour"""
    slow = _timing_probe(ctx, report=False)
    F.REDOS_GUARD = bool(slow)
    ctx.notes['trailing_blank_runs_generated'] = not slow
    return slow


def correspondence(ctx):
    px = _px()
    rng = random.Random(ctx.rng.random())
    q = ctx.quick
    _set_guard(ctx)
    # (h) _has_trailing_comma / _has_trailing_semicolon vs the deterministic scan
    cases, impl = [], []
    triv = [' ', ' ', ')', '\n', '\t', ' # c\n', '#é,;\n', '\\\n', '\x0c', '\u00a0', '  ']
    maxrun = 8 if F.REDOS_GUARD else 60
    for _ in range(500 if q else 5000):
        nl = rng.randint(1, 4)
        lines = [''.join(rng.choice(['a', 'é', '"ü"', '(', 'b', ' ', '日']) for _ in range(rng.randint(1, 6))) for _ in range(nl)]
        ln = rng.randint(1, nl)
        col = rng.randint(0, len(lines[ln - 1]))
        tail = ''.join(rng.choice(triv) for _ in range(rng.randint(0, maxrun)))
        tail += rng.choice([',', ';', '', 'x', ',', ';', '#', '\\', ', b', '; c'])
        pre = '\n'.join(lines[:ln - 1] + [lines[ln - 1][:col]])
        src = pre + tail
        if rng.random() < 0.3:
            src += '\n' + ''.join(rng.choice(triv + ['x', ',']) for _ in range(rng.randint(0, 5)))
        bcol = len(lines[ln - 1][:col].encode())
        eln = ln if rng.random() < 0.95 else ln + rng.randint(1, 2)
        if eln != ln:
            bcol = 0        # (a byte column is only meaningful on its own line)
        for fn, sep in ((px._has_trailing_comma, ','), (px._has_trailing_semicolon, ';')):
            try:
                r = bool(fn(src, eln, bcol))
            except Exception as e:
                r = 'exc:' + type(e).__name__
            cases.append({'f': 'C05.trailing_sep', 'src': src, 'end_lineno': eln, 'end_col': bcol, 'sep': sep})
            impl.append(r)
    ctx.compare('_has_trailing_comma/_has_trailing_semicolon vs Pfst.TrailSep.hasTrailingSep', cases, impl,
                nontrivial=lambda c, o: o is True or not c['src'].isascii())
    # (a) _astloc_from_src
    cases, impl = [], []
    for _ in range(400 if q else 4000):
        s = _rand_text(rng)
        ln = rng.choice([1, 1, 2, 3])
        d = px._astloc_from_src(s, ln)
        cases.append({'f': 'C05.astloc', 'src': s, 'lineno': ln})
        impl.append([d['lineno'], d['col_offset'], d['end_lineno'], d['end_col_offset']])
    ctx.compare('_astloc_from_src vs Pfst.ParseWrap.astlocFromSrc', cases, impl,
                nontrivial=lambda c, o: not c['src'].isascii() or '\n' in c['src'])
    # (b) _offset_linenos on real trees (some nodes with a falsy / missing end_lineno)
    progs = corpus.programs(rng, 60 if q else 600, stdlib=4 if q else 40) + EXTRA
    cases, impl = [], []
    for src in progs:
        try:
            t = ast.parse(src)
        except Exception:
            continue
        nodes = [n for n in ast.walk(t) if hasattr(n, 'end_lineno')]
        for n in rng.sample(nodes, min(3, len(nodes))):
            c = rng.random()
            if c < 0.3:
                n.end_lineno = 0
            elif c < 0.5:
                n.end_lineno = None
        delta = rng.choice([-2, -1, -1, 1, 3, 0])
        case = {'f': 'C05.offset_linenos', 'tree': _ser(t), 'delta': delta}
        try:
            px._offset_linenos(t, delta)
        except Exception as e:
            impl.append({'exc': type(e).__name__})
        else:
            impl.append(_flat(t, []))
        cases.append(case)
    ctx.compare('_offset_linenos vs Pfst.ParseWrap.offsetLinenos', cases, impl, keyf=lambda c: (c['delta'], str(c['tree'])[:2000]),
                nontrivial=lambda c, o: c['delta'] != 0)
    # (c) _verify_no_close_delimiters
    cases, impl = [], []
    alpha = ['a', ' ', '(', ')', '(', ')', '[', ']', ',', '#', 'é', '日', 'b', '+']
    for _ in range(600 if q else 6000):
        lines = [''.join(rng.choice(alpha) for _ in range(rng.randint(0, 9))) for _ in range(rng.randint(1, 5))]
        e0ln = rng.randrange(len(lines))
        e0eln = rng.randrange(e0ln, len(lines))
        endln = rng.randrange(e0eln, len(lines))
        c0 = rng.randint(0, len(lines[e0ln]))
        c1 = rng.randint(c0 if e0eln == e0ln else 0, len(lines[e0eln]))
        a = [e0ln, len(lines[e0ln][:c0].encode()), e0eln, len(lines[e0eln][:c1].encode()), endln]
        if rng.random() < 0.05:
            a[4] = len(lines) + rng.randint(0, 1)
        if rng.random() < 0.03:
            a[0] = -1
        delims = rng.choice(['()', '()', '[]'])
        try:
            px._verify_no_close_delimiters(lines, *a, delims)
            r = True
        except SyntaxError:
            r = False
        except Exception as e:
            r = 'exc:' + type(e).__name__
        cases.append({'f': 'C05.verify', 'lines': lines, 'a': a, 'delims': delims})
        impl.append(r)
    # structured: an element, comment lines with code-like content, then the separator / an escape on a later line
    for _ in range(400 if q else 4000):
        dl = rng.choice(['()', '()', '[]'])
        o_, c_ = dl
        first = rng.choice(['a', '"é"', o_ + 'a' + c_, 'a' + c_, o_ + 'a'])
        tail1 = rng.choice(['', ' ', '  ' + rng.choice(F.CODE_COMMENTS), ',', c_, ' ' + o_])
        mids = [rng.choice([' ' * rng.randint(0, 3) + rng.choice(F.CODE_COMMENTS), '', '  ', c_ + ',' + o_, c_, o_ + 'x' + c_ + '  ' + rng.choice(F.CODE_COMMENTS)])
                for _ in range(rng.randint(0, 3))]
        last = rng.choice([', b', c_ + ',' + o_ + 'b', ',', 'b', rng.choice(F.CODE_COMMENTS) + ', b'])
        lines = [first + tail1] + mids + [last]
        a = [0, 0, 0, len(first.encode()), len(lines) - 1 - rng.choice([0, 0, 0, 1]) if len(lines) > 1 else 0]
        a[4] = max(a[4], 0)
        try:
            px._verify_no_close_delimiters(lines, *a, dl)
            r = True
        except SyntaxError:
            r = False
        except Exception as e:
            r = 'exc:' + type(e).__name__
        cases.append({'f': 'C05.verify', 'lines': lines, 'a': a, 'delims': dl})
        impl.append(r)
    ctx.compare('_verify_no_close_delimiters vs Pfst.ParseWrap.verifyNoClose', cases, impl,
                nontrivial=lambda c, o: o is False or any(not l.isascii() for l in c['lines']))
    # (d) the model's depth scan / matching vs CPython's tokenizer
    cases, impl = [], []
    for _ in range(300 if q else 3000):
        s = ''.join(rng.choice(['a', '(', ')', '+', ',', ' ', '(', ')']) for _ in range(rng.randint(0, 10)))
        cases.append({'f': 'C05.scan', 'src': s, 'delims': '()'})
        impl.append(F.balanced(s))
    try:
        outs = ctx.lean(cases)
        bad = []
        for c, io, mo in zip(cases, impl, outs):
            m = mo.get('out', mo)
            ctx.corr_cases += 1
            ctx.count(('scan', c['src']), '(' in c['src'] or ')' in c['src'])
            model_bal = m.get('depth') == 0
            model_match = m.get('match') == m.get('len')
            if model_bal != io or model_match != io:
                bad.append((c['src'], io, m))
        ctx.dist.setdefault('correspondence_cases', {})['scanDepth/matchClose vs CPython tokenizer bracket matching'] = len(cases)
        if bad:
            ctx.brk('correspondence', 'scanDepth/matchClose vs tokenizer', f'{len(bad)} differ, first {bad[0]}')
    except Exception as e:
        ctx.brk('correspondence', 'scan', f'driver error {e}')
    # (e) wrap_positions on the extracted wrapper families: text of a span in the wrapper (model) == in the source (model) ==
    #     plain Python byte slicing of the text actually handed to CPython
    wraps, _ = c05_modes.wrapper_table()
    fam = sorted({(pre, post) for _, pre, post, _ in wraps if pre.endswith('\n') and post.startswith('\n')})
    cases, impl = [], []
    for pre, post in fam:
        for _ in range(6 if q else 40):
            src = _rand_text(rng)
            sl = src.split('\n')
            ln = rng.randint(1, len(sl))
            eln = rng.randint(ln, len(sl))
            c0 = rng.randint(0, len(sl[ln - 1]))
            c1 = rng.randint(c0 if eln == ln else 0, len(sl[eln - 1]))
            b0, b1 = len(sl[ln - 1][:c0].encode()), len(sl[eln - 1][:c1].encode())
            full = (pre + src + post).split('\n')
            k = pre.count('\n')
            seg = [l.encode() for l in full[ln - 1 + k:eln + k]]
            seg[-1] = seg[-1][:b1]
            seg[0] = seg[0][b0:]
            want = [b.decode() for b in seg]
            cases.append({'f': 'C05.span', 'pre': pre[:-1], 'src': src, 'post': post[1:], 'a': [ln, b0, eln, b1]})
            impl.append({'src': want, 'wrapped': want})
    ctx.compare('wrap_positions on extracted wrapper families vs text handed to CPython', cases, impl,
                nontrivial=lambda c, o: not c['src'].isascii() or '\n' in c['src'])
    ctx.notes['wrapper_families_newline_delimited'] = len(fam)
    # (g) _fix_undelimited_seq_parsed_delimited: real calls recorded while parsing undelimited multi-line sequences (and
    #     wrapper escapes) in expr / pattern modes, replayed through the Lean model
    real_fix = px._fix_undelimited_seq_parsed_delimited
    rec = []

    def rec_fix(src, ast_, field='elts', lineno=2, delims='()'):
        elts = getattr(ast_, field)
        case = {'f': 'C05.fix_seq', 'lines': src.split('\n'), 'e0': _loc4(elts[0]), 'en': _loc4(elts[-1]), 'ast_end': ast_.end_lineno,
                'lineno': lineno, 'delims': delims}
        if len(elts) > 1:
            case['e1'] = elts[1].lineno
        try:
            real_fix(src, ast_, field, lineno, delims)
        except SyntaxError:
            rec.append((case, None))
            raise
        except Exception as e:
            rec.append((case, {'exc': type(e).__name__}))
            raise
        rec.append((case, _loc4(ast_)))

    texts = [T for fam, T in F.phrase_texts(None, rng, 500 if q else 5000) if fam in ('tuple', 'tuple-star', 'patterns')]
    texts += [T for _, T in invalid_data_strings() + generated_malformed(rng, 100 if q else 1000)]
    px._fix_undelimited_seq_parsed_delimited = rec_fix
    try:
        for T in texts:
            if F.redos_risk(T):
                continue
            for mode in ('expr', 'pattern'):
                try:
                    px.parse(T, mode)
                except Exception:
                    pass
    finally:
        px._fix_undelimited_seq_parsed_delimited = real_fix
    ctx.compare('_fix_undelimited_seq_parsed_delimited (recorded real calls) vs Pfst.SeqFix.fixSeq', [c for c, _ in rec], [o for _, o in rec],
                keyf=lambda c: str(c)[:1500], nontrivial=lambda c, o: len(c['lines']) > 1 or any(not l.isascii() for l in c['lines']))
    ctx.notes['fix_seq_calls'] = len(rec)
    ctx.notes['fix_seq_raises'] = sum(1 for _, o in rec if o is None)
    ctx.notes['fix_seq_nonascii_multiline'] = sum(1 for c, o in rec if o and len(c['lines']) > 1 and any(not l.isascii() for l in c['lines']))
    # (i) parse_arg's "exactly one parameter" check on both of its paths: CPython's arguments shape of the wrapper -> model verdict
    def _shape(a):
        return [len(a.posonlyargs), len(a.args), int(a.vararg is not None), len(a.kwonlyargs), len(a.kw_defaults), int(a.kwarg is not None),
                len(a.defaults)]

    atoms = ['a', 'b: int', 'c=1', '/', '*', '*d', '**k', 'e: "é"', '*f: *Ts', 'args: *Ts', '**k: int', 'g: int = 2']
    texts = set(sibling_product()[:0])
    for _ in range(300 if q else 3000):
        texts.add(', '.join(rng.sample(atoms, rng.randint(1, 3))))
    texts.update(t for t in sibling_product() if ':' in t or '*' in t or t[:1] in 'ab')
    cases, impl = [], []
    for T in sorted(texts):
        m = F._p('def f(\n' + T + '\n): pass')
        star = False
        if m is None:
            m = F._p('def f(*\n' + T + '\n): pass')
            star = True
        if m is None or len(m.body) != 1 or not isinstance(m.body[0], ast.FunctionDef) or m.body[0].returns is not None:
            continue
        try:
            px.parse_arg(T)
            r = True
        except SyntaxError:
            r = False
        except Exception as e:
            r = 'exc:' + type(e).__name__
        cases.append({'f': 'C05.arg_check', 'shape': _shape(m.body[0].args), 'star': star, 'src': T})
        impl.append(r)
    ctx.compare("parse_arg accepts vs Pfst.ParseWrap.argNormalOk/argStarOk on CPython's arguments shape", cases, impl,
                keyf=lambda c: c['src'], nontrivial=lambda c, o: c['star'] or o is True)
    # (j) parse_ImportFrom_name / parse__ImportFrom_names: "names end where the wrapper statement ends" on CPython's positions
    texts = sorted({W for lab, W, _ in own_delimiter_product() if lab.split(':')[1] in MODE_GROUPS[0]}
                   | {t for t in sibling_product() if ' as ' in t or t[:1] in 'ad'} | set(F.SINGLE_ATOMS['ImportFrom_name'])
                   | set(F.SINGLE_ATOMS['_ImportFrom_names']) | {'a as b  # c', 'a \\\n as b', '(a as b,\n c)', '(a,\n b\n  )', 'a,\nb'})
    cases, impl = [], []
    for T in texts:
        if F.redos_risk(T) or F._semi(T):
            continue
        m = F._p('from . import \\\n' + T) or F._p('from . import \\\n' + F._lcont(T))
        if m is None or len(m.body) != 1 or not isinstance(m.body[0], ast.ImportFrom):
            continue
        st = m.body[0]
        for fn, single in ((px.parse_ImportFrom_name, True), (px.parse__ImportFrom_names, False)):
            try:
                fn(T)
                r = True
            except SyntaxError:
                r = False
            except Exception as e:
                r = 'exc:' + type(e).__name__
            cases.append({'f': 'C05.importfrom_check', 'alias': _loc4(st.names[-1]), 'stmt': _loc4(st), 'n': len(st.names), 'single': single,
                          'src': T})
            impl.append(r)
    ctx.compare("parse_ImportFrom_name/_names accept vs Pfst.ParseWrap.importFromNameOk/endsWithStmt on CPython's positions", cases, impl,
                keyf=lambda c: (c['src'], c['single']), nontrivial=lambda c, o: '(' in c['src'] or '\n' in c['src'])
    # (k) parse__match_cases: Lean undoIndent applied to CPython's positions of the cases indented under a genuine match statement
    #     (multi-line strings kept verbatim) == the positions pfst returns
    cases, impl = [], []
    for T in F.SINGLE_ATOMS['match_case'] + F.SINGLE_ATOMS['_match_cases']:
        for vname, V, dl, dc1 in F.variants(T, True):
            if not V.strip() or F.redos_risk(V):
                continue
            g = F.g_cases(V)
            sl = F.string_lines(V)
            if not g or sl is None:
                continue
            try:
                r = px.parse(V, '_match_cases')
            except Exception:
                continue
            if len(r.cases) != len(g):
                continue
            ind = [i + 1 for i in range(V.count('\n') + 1) if i + 1 not in sl]
            for gc, rc in zip(g, r.cases):
                cases.append({'f': 'C05.undo_indent', 'tree': _ser(gc), 'k': 1, 'ind': ind, 'src': V})
                impl.append(_flat(rc, []))
    ctx.compare("pfst match_case positions vs Pfst.ParseWrap.undoIndent of CPython's positions in the genuine match statement", cases, impl,
                keyf=lambda c: (c['src'], str(c['tree'])[:300]), nontrivial=lambda c, o: '"""' in c['src'] or "'''" in c['src'])
    # (f) rebasing: Lean rebaseAt on CPython's positions of the full program == positions pfst returns for the fragment
    cases, impl = [], []
    for src in progs[:40 if q else 300] + EXTRA:
        try:
            P = F.Prog(src)
            frs = F.fragments(P, rng, 2)
        except Exception:
            continue
        for fr in frs:
            if fr.container is not None or fr.opcls is not None or fr.dedent or fr.mode not in F.GATES:
                continue
            if rng.random() > 0.25:
                continue
            try:
                r = px.parse(fr.text, fr.mode)
            except Exception:
                continue
            if F.dump(r, False) != F.dump(fr.nodes[0], False):
                continue
            cases.append({'f': 'C05.rebase', 'tree': _ser(fr.nodes[0]), 'l0': fr.l0, 'c0': fr.c0})
            impl.append(_flat(r, []))
    ctx.compare('pfst fragment positions vs Pfst.ParseWrap.rebaseAt of CPython full-program positions', cases, impl,
                keyf=lambda c: (c['l0'], c['c0'], str(c['tree'])[:1500]), nontrivial=lambda c, o: c['l0'] > 1 or c['c0'] > 0)


# ---------------------------------------------------------------------------------------------------------------------

def _programs(ctx, n, stdlib):
    rng = random.Random(ctx.rng.random())
    return corpus.programs(rng, n, stdlib=stdlib) + EXTRA


def _run_all(ctx, nprog, nstd, per_kind, cap, n_random_mal, n_phrase_jobs=48, n_phrase=40):
    progs = _programs(ctx, nprog, nstd)
    # (1)
    rows = [r for lst in pmap(_native_worker, progs + [t for t in semicolon_product() if F._p(t) is not None]) for r in lst]
    _report_native(ctx, rows)
    ctx.notes['native_checks'] = len(rows)
    # (2)
    jobs = []
    for p in progs:
        seed = ctx.rng.randrange(1 << 30)
        jobs.extend((p, seed, per_kind, cap, sh) for sh in range(NSHARDS))
    res = pmap(_frag_worker, jobs)
    results = [r for lst in res for r in lst]
    _report(ctx, results)
    ctx.notes['fragment_parses'] = len(results)
    # (2a) deterministic product: single-element atoms of every mode x every layout variant
    sres = [r for lst in pmap(_single_worker, [(m, T) for m, lst in sorted(F.SINGLE_ATOMS.items()) for T in lst]) for r in lst]
    _report(ctx, sres)
    ctx.notes['single_product_parses'] = len(sres)
    ctx.notes['single_product_must_accept'] = sum(1 for r in sres if r.get('must'))
    ctx.notes['single_product_atoms_not_gated'] = sorted({(r['mode'], r['text']) for r in sres if r.get('skip') == 'atom-not-accepted-by-gate'})
    # (2b) phrases: re-separated sequences (separators on following lines, trailing separators, non-ASCII on every line)
    pj = [(p if i % 3 else None, ctx.rng.randrange(1 << 30), n_phrase, 0.25) for i, p in enumerate(progs[:n_phrase_jobs])]
    pres = [r for lst in pmap(_phrase_worker, pj) for r in lst]
    _report(ctx, pres)
    ctx.notes['phrase_parses'] = len(pres)
    ctx.notes['phrase_oracle_disagreements'] = sum(1 for r in pres if r.get('skip') == 'oracle-disagree')
    for r in pres:
        if 'skip' not in r and r.get('must'):
            ctx.tally('phrase_must_accept', r['mode'] + '|' + r['kind'])
            if '\n' in r['text'] and not r['text'].isascii() and '\\\n' not in r['text']:
                ctx.tally('phrase_multiline_nonascii_no_continuation', r['mode'])
    ok = [r for r in results if 'fail' not in r and 'skip' not in r and 'raised' not in r and r['variant'] != 'base' and '\n' in r['text']]
    if ok:
        r = ok[len(ok) // 2]
        ctx.sample({'fragment': {k: r[k] for k in ('mode', 'kind', 'variant', 'text')}})
    # (3)
    rng = random.Random(ctx.rng.random())
    strings = invalid_data_strings() + generated_malformed(rng, n_random_mal) + own_delimiter_product()
    ctx.notes['malformed_strings'] = len(strings)
    ctx.notes['malformed_from_data_file'] = sum(1 for x in strings if x[0] == 'data-file')
    rows = [r for lst in pmap(_mal_worker, strings) for r in lst]
    _report_mal(ctx, rows)
    ctx.notes['malformed_parses'] = len(rows)
    modes_seen = set(ctx.dist.get('fragment_must_accept', {}))
    ctx.notes['extended_modes_with_required_fragments'] = len(modes_seen & set(c05_modes.mode_literals()))
    ctx.notes['mode_literals_without_required_fragment'] = sorted(set(c05_modes.mode_literals()) - modes_seen
                                                                 - {'all', 'strict', 'exec', 'eval', 'single', 'stmts'})


def _time_parse(px, T, mode):
    import time
    best = 1e9
    for _ in range(3):
        t = time.perf_counter()
        try:
            px.parse(T, mode)
        except Exception:
            pass
        best = min(best, time.perf_counter() - t)
    return best


def _timing_probe(ctx, report=True):
    """a tree must be produced at all: parse time must not explode with the number of blanks after the last node"""
    px = _px()
    out = []
    for mode, head in (('all', 'a'), ('expr', 'a'), ('withitem', 'a'), ('type_param', 'T')):
        t8 = _time_parse(px, head + ' ' * 8 + '# c', mode)
        t20 = _time_parse(px, head + ' ' * 20 + '# c', mode)
        ctx.count(('timing', mode), True)
        if t20 > 0.02 and t20 > 100 * max(t8, 2e-5):
            out.append(mode)
            if report:
                ctx.fail(f'C05|{mode}|trailing-blanks|exponential-time',
                         f'parse({head!r} + 20 blanks + "# c", {mode!r}) takes {t20:.3f}s vs {t8:.5f}s with 8 blanks (x4 per 2 blanks: '
                         f'40 blanks never finish)', {'kind': 'timing', 'mode': mode, 'text': head + ' ' * 20 + '# c', 'class': 'exponential-time'})
    return out


def sweep(ctx):
    _timing_probe(ctx)
    _set_guard(ctx)
    if ctx.quick:
        _run_all(ctx, 70, 6, 2, 5, 150)
    else:
        _run_all(ctx, 900, 120, 4, 10, 2500, 400, 120)


def search(ctx):
    """A proof / extraction / correspondence obligation broke: evaluate the property itself on the implementation, wider."""
    _set_guard(ctx)
    _run_all(ctx, 500, 60, 4, 8, 1500, 200, 100)


def replay(ctx, data):
    w = data.get('witness')
    if not w:
        print('replay file names a broken obligation, not an input:', data.get('broken', [])[:3])
        return
    px = _px()
    mode, T = w['mode'], w['text']
    if w['kind'] == 'malformed':
        rows = [r for r in _mal_worker((w.get('label', 'replay'), T)) if r[0] == mode and r[3] not in ('raised', 'accepted')]
        for r in rows:
            ctx.fail('replay', f'{r[3]}: {r[4]}', w)
        return
    if w['kind'] == 'timing':
        if w['mode'] in _timing_probe(ctx, report=False):
            ctx.fail('replay', 'parse time explodes with the number of trailing blanks', w)
        return
    if w['kind'] == 'native':
        rows = [r for r in _native_worker(T) if r[2]]
        for r in rows:
            ctx.fail('replay', f'{r[0]} {r[1]}: {r[2]}: {r[3]}', w)
        return
    from fst import FST
    cls = w.get('class', '')
    if cls == 'nonascii-changes-outcome':
        if _outcome(px, T, mode) != _outcome(px, F.ascii_twin(T), mode):
            ctx.fail('replay', f'parse({T!r}, {mode!r}) behaves differently from its ASCII twin', w)
        return
    try:
        r = px.parse(T, mode)
    except Exception as e:
        ctx.fail('replay', f'parse({T!r}, {mode!r}) raises {e!r}; recorded: {cls}', w)
        return
    exp = w.get('expected')
    if exp:
        got = _canon_got(exp, r)
        if got != exp:
            ctx.fail('replay', f'parse({T!r}, {mode!r}) differs from the sub-tree of the full construct: '
                     + _fd(str(got), str(exp)), w)
            return
    try:
        f = FST(T, mode)
        if f.src != T:
            ctx.fail('replay', 'FST(...).src differs from the source', w)
        elif F.dump(f.a) != F.dump(px.parse(T, mode)):
            ctx.fail('replay', 'FST(...).a differs from parse(...)', w)
    except Exception as e:
        ctx.fail('replay', f'FST({T!r}, {mode!r}) raises {e!r}', w)
