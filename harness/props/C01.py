"""C01 — after any successful edit the source text still parses to exactly the live tree."""

import ast
import copy
import json
import random

import corpus
import edits
import util
from framework import pmap

ID = 'C01'
LEAN_MODULES = ['Pfst.Props.C01', 'Pfst.Props.C01b', 'Pfst.Props.C01c']
LEAN_DEPS = ['Pfst.Edit', 'Pfst.EditLemmas', 'Pfst.Sep', 'Pfst.SepLemmas', 'Pfst.Drv.C01b', 'Pfst.CanDel', 'Pfst.Gen.CanDelAll']
THEOREMS = ['Pfst.C01.text_before', 'Pfst.C01.text_after', 'Pfst.C01.text_new', 'Pfst.C01.replace_wf', 'Pfst.C01.steps_wf',
            'Pfst.C01.refused_identity']
# separator / delimiter primitives (`_trail_sep`, `_maybe_ins_sep`, `_fix_Tuple`): lean/Pfst/Props/C01b.lean, harness/c01b.py
THEOREMS += ['Pfst.C01b.target_iff', 'Pfst.C01b.trailSep_spec', 'Pfst.C01b.trailSep_none', 'Pfst.C01b.trailSep_del_local',
             'Pfst.C01b.maybeInsSep_post', 'Pfst.C01b.maybeInsSep_local', 'Pfst.C01b.fixTuple_singleton',
             'Pfst.C01b.fixTuple_delimited', 'Pfst.C01b.fixTuple_delimits_partial', 'Pfst.C01b.fixTuple_empty']
# "delete all elements" decision of statement-like list fields (`_can_del_all`): lean/Pfst/CanDel.lean, Props/C01c.lean, harness/c01c.py
THEOREMS += ['Pfst.C01c.canDelAll_iff_valid', 'Pfst.C01c.canDelAll_raw', 'Pfst.C01c.valid_preserved', 'Pfst.C01c.table_matches_model',
             'Pfst.C01c.table_grammar_agrees', 'Pfst.C01c.table_rows_wellformed', 'Pfst.C01c.table_sound_complete', 'Pfst.C01c.table_class_after']


def extract(ctx):
    """regenerate lean/Pfst/Gen/CanDelAll.lean: the real `_can_del_all` on real nodes + CPython's verdict on the emptied statement"""
    import c01c
    import framework
    rows = c01c.table()
    framework.write_if_changed(framework.LEAN / 'Pfst' / 'Gen' / 'CanDelAll.lean', c01c.lean_text(rows))
    ctx.notes['can_del_all_rows'] = len(rows)
    ctx.notes['can_del_all_rows_where_code_and_cpython_disagree'] = [f"{r['kind']}.{r['field']} h={r['handlers']} e={r['orelse']} f={r['finalbody']}"
                                                                     for r in rows if r['canNorm'] != r['parsesAfter']]


RULE = ('a FIXED corpus of programs (hand-written snippets covering every node type + generated programs + layout mutators; '
        'independent of VERIF_SEED so that the unchanged tree is triaged once) is edited by seed-determined histories of '
        'structured edits: replace / attribute assignment / remove / cut / del item / insert / append / put_slice / view slice '
        'assignment, code as source, pure AST or FST, donors of the same syntactic category taken from other programs, '
        'norm=True. After EVERY successful step: ast.parse(root.src) must equal the live tree in structure, contexts and all '
        'positions (CPython is the judge). For single-node replacements the Lean model (1-D splice + sub-tree replacement) '
        'predicts the position of every other node and is compared with pfst; the proved well-formedness checker wfT is run '
        'on pfst\'s post-state. A second, deterministic product sweep (harness/c01_targets.py) puts every element of a per-kind '
        'alphabet (underscore / multi-byte / parenthesised / starred / keyword forms) at every position of ~140 slice container '
        'shapes (every entry of _PUT_SLICE_HANDLERS incl. empty and tight forms such as `lambda: 0`, `lambda*a: 0`, `f()`, '
        '`class C: pass`), deletes every span, puts two elements at once, continues with a second step, and runs every '
        'statement-list operation on blocks whose statements carry trailing semicolons, comments and multi-byte text in '
        'multi-line, joined and header-line layouts; every primitive field (identifiers incl. alias name / asname, module, '
        'level, keyword.arg, handler / pattern names, type parameter names, operators, constants) of every node of ~80 '
        'adversarial sources (names containing keywords as substrings, blanks and continuations around dots and `as`, '
        'multi-byte text) is set to every value of a small alphabet; same CPython judge. distinct = distinct (program, step) or product case; '
        'non-trivial = the edit succeeded and changed the source')
TRUSTED = ['modelled (C01c, Pfst/CanDel.lean, tied by extraction harness/c01c.py -> Gen/CanDelAll.lean on every run): slice_stmtlike._can_del_all, '
           'the decision whether a slice edit may remove every element of body / handlers / orelse / finalbody / cases, with the block '
           'grammar it protects; proved for every shape: under normalisation it allows the deletion iff the statement stays valid, '
           'validity is kept by allowed steps, nothing is refused without normalisation; the table theorems (decide over the '
           'regenerated rows) tie the model to the real function and the grammar model to CPython. Assumed: the decision reads only '
           'the node kind and which optional lists are non-empty (rows with one and with two handlers are extracted)',
           'modelled (C01b, Pfst/Sep.lean, tied by harness/c01b.py): FST._trail_sep, _maybe_ins_sep, _is_delimited_seq, '
           '_maybe_add_singleton_comma, _fix_Tuple / _fix_undelimited_seq / _delimit_node (source effect; tree decisions '
           '"enclosed by parents / unparenthesised NamedExpr" and element pars() are inputs), _fix_joined_alnums (\\w for '
           'non-ASCII characters is an input from Python re), the per-line rewrite of _maybe_add_line_continuations; proved: '
           'what _trail_sep finds and deletes, what _maybe_ins_sep inserts, that it is idempotent, the singleton comma. The '
           'node offsetting these functions trigger is C11\'s model; here it is judged by ast.parse on the post-state',
           'modelled: the document-level shape of a single-node replacement (text splice + sub-tree replacement + offsetting), '
           'see Pfst/Edit.lean; C04 models _put_src, C11 _offset, C09 the parenthesisation decision',
           'NOT modelled: the ~90 individual _put_one_* handlers, fst_put_slice.py / slice_exprlike.py / slice_stmtlike.py '
           'separator, delimiter, indentation and trivia editing: reached only by the CPython-judged sweep (sampling, not proof)']
ASSUMPTIONS = ['CPython ast.parse is the judge of "parses to"; one API call is one atomic step',
               'norm=True and default pars are set for every edit (the property excludes option settings that disable them)']
LEVEL_TEXT = ('Lean 4 theorems about a 1-D document model: a single-node replacement keeps the tree well formed and every other '
              'node on its text, for every tree/path/replacement, and by induction for every sequence of edits (steps_wf); '
              'tied to /repo by predicting all node positions of real replace() calls and by running the proved checker on '
              'pfst post-states. Also modelled with their own theorems: the separator / delimiter primitives of sequence edits '
              '(C01b, correspondence on real calls) and the "delete all elements" decision with the block grammar it protects '
              '(C01c, table extracted from the real function and from CPython on every run). The CPython-judged sweeps over all '
              'edit families (histories on a fixed corpus + deterministic products: containers, blocks, primitive fields, moves, '
              'par/unpar, optional children deleted / added, line-comment and docstring puts) check the external hypothesis per '
              'case and are the only tie for unmodelled handlers.')
LEVEL_NOTE = ('Partial: handlers are not modelled individually; "CPython parses the post-state to the live tree" is checked per '
              'case on a fixed corpus (sampling). Genuine defects found on the pinned tree are repaired (fix: commits) or listed '
              'in known_findings.json.')
TECHNIQUE = 'Lean 4 proof (induction over trees and edit sequences, decide over extracted tables) + model/implementation correspondence + CPython-judged sweep'

CORPUS_SEED = 20260925          # the sweep corpus does not depend on VERIF_SEED (triaged once on the unchanged tree)


def corpus_programs(n, stdlib=0):
    rng = random.Random(CORPUS_SEED)
    return corpus.programs(rng, n, stdlib=stdlib)


_DONORS = None


def donors():
    global _DONORS
    if _DONORS is None:
        _DONORS = edits.Donors(corpus_programs(120))
    return _DONORS


def _history(arg):
    """(program index, src, seed, steps) -> list of step results"""
    idx, src, seed, steps = arg
    from fst import FST
    rng = random.Random(seed)
    out = []
    try:
        root = FST(src, 'exec')
    except Exception:
        return out
    dn = donors()
    hist = []
    for step in range(steps):
        rec = edits.random_edit(rng, root, dn)
        if rec is None:
            continue
        before_ast = root.a
        sig = edits.edit_signature(before_ast, rec)
        before_src = root.src
        pre1d = None
        if rec['op'] in ('replace', 'setattr'):
            try:
                tgt_ast = edits.nav(root.a, [tuple(p) for p in rec['path']])
                pre1d = ser1d(root.a, list(root.lines), tgt_ast)
            except Exception:
                pre1d = None
        try:
            edits.apply_edit(root, rec)
        except Exception as e:
            out.append({'idx': idx, 'step': step, 'op': rec['op'], 'sig': sig, 'raised': type(e).__name__})
            # C12's subject: state must be unchanged; here we only need a usable tree to go on
            try:
                if root.src != before_src:
                    root = FST(before_src, 'exec')
            except Exception:
                break
            continue
        hist.append(rec)
        d = util.tree_equals_parse(root)
        res = {'idx': idx, 'step': step, 'op': rec['op'], 'sig': sig, 'form': rec.get('form')}
        if d:
            cls = 'no-parse' if d.startswith('source no longer parses') else ('structure' if d.startswith('structure') else 'positions')
            res.update(fail=d, cls=cls, witness={'src': src, 'history': copy.deepcopy(hist), 'before_src': before_src,
                                                  'after_src': root.src})
            out.append(res)
            # restart from the (re-parsed) current source if it still parses, else stop this history
            try:
                root = FST(root.src, 'exec')
                hist = []
                src = root.src
            except Exception:
                break
            continue
        if pre1d is not None and isinstance(pre1d[1], list):
            try:
                new_tgt = edits.nav(root.a, [tuple(p) for p in rec['path']])
                mc = _model_case(before_src.split('\n'), pre1d[0], pre1d[1], list(root.lines), root.a, new_tgt)
                if mc:
                    res['model'] = mc
            except Exception as e:
                res['model_exc'] = repr(e)[:100]
        out.append(res)
    return out


# ---- 1-D serialisation for the Lean replacement model ---------------------------------------------------------------

def _line_starts(lines):
    out, o = [], 0
    for l in lines:
        out.append(o)
        o += len(l) + 1
    return out


def _pt(lines, starts, lineno, col_bytes):
    l = lines[lineno - 1]
    return starts[lineno - 1] + len(l.encode()[:col_bytes].decode(errors='ignore'))


def ser1d(root_ast, lines, target=None):
    """positioned nodes only (children of unpositioned nodes are spliced into their parent); decorated defs start at their
    first decorator. Returns (tree, index path of target or None)."""
    starts = _line_starts(lines)
    counter = [0]
    found = [None]

    def kids_of(n, path):
        out = []
        for c in util.soc(n):
            if getattr(c, 'end_col_offset', None) is not None:
                out.append(go(c, path + [len(out)]))
            else:
                if c is target:
                    found[0] = 'unpositioned'
                sub = kids_of_flat(c, path, len(out))
                out.extend(sub)
        return out

    def kids_of_flat(n, path, base):
        out = []
        for c in util.soc(n):
            if getattr(c, 'end_col_offset', None) is not None:
                out.append(go(c, path + [base + len(out)]))
            else:
                out.extend(kids_of_flat(c, path, base + len(out)))
        return out

    def go(n, path):
        i = counter[0]
        counter[0] += 1
        if n is target:
            found[0] = path
        ln, col = n.lineno, n.col_offset
        decos = getattr(n, 'decorator_list', None)
        if decos:
            d = decos[0]
            if (d.lineno, d.col_offset) < (ln, col):
                ln, col = d.lineno, d.col_offset
                # the '@' precedes the decorator expression; the span start only needs to be <= every child start
        s = _pt(lines, starts, ln, col)
        e = _pt(lines, starts, n.end_lineno, n.end_col_offset)
        return [i, [s, e], kids_of(n, path)]

    if getattr(root_ast, 'end_col_offset', None) is not None:
        tree = go(root_ast, [])
    else:
        i = counter[0]
        counter[0] += 1
        total = sum(len(l) + 1 for l in lines)
        tree = [i, [0, total], kids_of(root_ast, [])]
    return tree, found[0]


def _sub_at(tree, path):
    t = tree
    for i in path:
        t = t[2][i]
    return t


def _model_case(before_lines, before_ast_tree, tpath, after_lines, after_ast, after_target):
    """build the Lean case for one successful single-node replacement; returns (case, expected flat) or None"""
    b = '\n'.join(before_lines)
    a = '\n'.join(after_lines)
    p = 0
    m = min(len(a), len(b))
    while p < m and a[p] == b[p]:
        p += 1
    q = 0
    while q < m - p and a[len(a) - 1 - q] == b[len(b) - 1 - q]:
        q += 1
    pre_tree = before_ast_tree
    tnode = _sub_at(pre_tree, tpath)
    post_tree, ppath = ser1d(after_ast, after_lines, after_target)
    if ppath != tpath:
        return None
    pnode = _sub_at(post_tree, ppath)
    # rectangle: from the first changed character (or the old node start) to the OLD NODE END; the new text ends at the
    # NEW NODE END.  Everything after must be unchanged, otherwise (trailing trivia was put too) the case is outside
    # the model's hypothesis and is skipped.
    s = min(p, tnode[1][0], pnode[1][0])
    e = tnode[1][1]
    newlen = pnode[1][1] - s
    if newlen < 0 or a[pnode[1][1]:] != b[e:] or a[:s] != b[:s]:
        return None
    if pnode[1][0] != s or tnode[1][0] != s:
        return None     # text was inserted/removed in front of the node (e.g. a separating blank): ancestors sharing the start move with it
    # virtual spans: the target occupies exactly the rectangle, before and after
    tnode[1] = [s, e]
    pnode[1] = [s, s + newlen]

    def rel(t, base):
        return [100000 + t[0], [t[1][0] - base, t[1][1] - base], [rel(k, base) for k in t[2]]]

    sub = rel(pnode, s)
    case = {'f': 'C01.replace', 'tree': pre_tree, 'sub': sub, 'path': tpath, 's': s, 'e': e, 'newlen': newlen}
    exp = []

    def flat(t, under):
        exp.append([t[1][0], t[1][1]])
        for k in t[2]:
            flat(k, under)

    flat(post_tree, False)
    return case, exp


def correspondence(ctx):
    """separator / delimiter primitives (`_trail_sep`, `_maybe_ins_sep`, `_fix_Tuple`, ...): Lean models vs the real functions"""
    import c01b
    c01b.correspondence_c01b(ctx)


def sweep(ctx):
    q = ctx.tier == 'quick'
    nprog = 400 if q else 3000
    progs = corpus_programs(nprog, stdlib=0 if q else 100)
    # VERIF_SEED only selects the per-history seeds deterministically from the fixed corpus
    jobs = [(i, p, CORPUS_SEED * 1000 + i, 6 if q else 12) for i, p in enumerate(progs)]
    # hard shapes (corpus.HARD_SNIPPETS), appended AFTER the fixed corpus so that its histories stay what they were
    for rep in range(6 if q else 40):
        jobs += [(100000 + 1000 * rep + i, p, CORPUS_SEED * 1000 + 100000 + 1000 * rep + i, 4 if q else 8) for i, p in enumerate(corpus.hard_snippets())]
    res = pmap(_history, jobs)
    n = 0
    for lst in res:
        for r in lst:
            if 'raised' in r:
                ctx.tally('raised', r['raised'])
                continue
            n += 1
            ctx.tally('op', r['op'])
            ctx.count((r['idx'], r['step']), True)
            if 'fail' in r:
                sig = f'C01|{r["sig"][0]}|{r["sig"][1]}|{r["sig"][2]}|{r["cls"]}'
                ctx.fail(sig, f'{r["op"]} at {r["sig"][1]} ({r["sig"][2]}): {r["fail"][:300]}', r['witness'])
    ctx.notes['successful_edits'] = n
    # targeted product sweep (deterministic): every slice container shape x position x element alphabet (+ a second step on
    # the edited container), statement blocks with trailing semicolons / comments / multi-byte text x every block operation
    import c01_targets
    tcases = c01_targets.container_cases(thorough=not q) + c01_targets.block_cases()
    tn = 0
    for lst in pmap(c01_targets.run_case, tcases):
        for r in lst:
            if 'setup_error' in r:
                ctx.brk('harness', 'c01_targets set-up', str(r)[:200])
            elif 'raised' in r:
                ctx.tally('target_raised', f"{r['cls']}.{r['field']}:{r['raised']}")
            else:
                tn += 1
                ctx.count(('t', tuple(r['case']), r['op'], r.get('start'), r.get('stop')), True)
                ctx.tally('target_op', f"{r['cls']}.{r['field']}")
                if 'fail' in r:
                    ctx.fail(c01_targets.signature(r), f"{r['op']} on {r['cls']}.{r['field']} of {r['src']!r} -> {r.get('after')!r}: {r['fail'][:200]}", r)
    ctx.notes['targeted_successful_ops'] = tn
    # primitive fields (identifiers, operators, constants) of every node of adversarial sources set to every value of a
    # small alphabet through attribute assignment
    pn = 0
    for lst in pmap(c01_targets.run_prim_case, c01_targets.prim_cases()):
        for r in lst:
            if 'setup_error' in r:
                ctx.brk('harness', 'c01_targets prim set-up', str(r)[:200])
            elif 'raised' in r:
                ctx.tally('prim_raised', f"{r['cls']}.{r['field']}:{r['raised']}")
            else:
                pn += 1
                ctx.count(('p', tuple(r['case'][1:]), r['node'], r['field'], r['vi']), True)
                ctx.tally('prim_field', f"{r['cls']}.{r['field']}")
                if 'fail' in r:
                    ctx.fail(c01_targets.prim_signature(r), f"{r['cls']}.{r['field']} = {r['value']} on {r['src']!r} -> {r.get('after')!r}: {r['fail'][:200]}", r)
    ctx.notes['primitive_field_sets'] = pn
    # statements moved between blocks of different depth (re-indentation of multi-line literals, continuation lines,
    # nested blocks), elif conversion
    mn = 0
    for lst in pmap(c01_targets.run_move_case, c01_targets.move_cases()):
        for r in lst:
            if 'raised' in r:
                ctx.tally('move_raised', f"{r['op']}:{r['raised']}")
            else:
                mn += 1
                ctx.count(('m', tuple(r['case'][1:]), r['op']), True)
                ctx.tally('move_op', r['op'])
                if 'fail' in r:
                    ctx.fail(c01_targets.move_signature(r), f"{r['op']} of {c01_targets.MOVE_STMTS[r['case'][1]]!r} in {r['src']!r} -> {r.get('after')!r}: {r['fail'][:200]}", r)
    ctx.notes['moved_statements'] = mn
    # par() / unpar() as edit steps (also with the node's parentheses queried first), followed by a replacement that
    # consults them; tight layouts where a parenthesis is glued to keywords on both sides
    rn = 0
    for lst in pmap(c01_targets.run_par_case, c01_targets.par_cases()):
        for r in lst:
            if 'setup_error' in r:
                ctx.brk('harness', 'c01_targets par set-up', str(r)[:200])
            elif 'raised' in r:
                ctx.tally('par_raised', f"{r['field']}:{r['raised']}")
            elif 'unparsable_accessor' in r:
                ctx.tally('par_not_judged', 'unpar removed needed parentheses / par(force=True) added unwanted ones (caller\'s request; par and unpar are not among the edits C01 lists: only positions are judged)')
            else:
                rn += 1
                ctx.count(('r', r['case'][1], r['node'], r['op']), True)
                ctx.tally('par_op', r['field'])
                if 'fail' in r:
                    ctx.fail(c01_targets.par_signature(r), f"{r['op']} on {r['cls']} of {r['src']!r} -> {r.get('after')!r}: {r['fail'][:200]}", r)
    ctx.notes['par_unpar_steps'] = rn
    # optional single-node fields (TypeVar.bound, returns, annotation, Slice parts, Dict key -> **, kw_defaults, vararg, MatchAs.pattern
    # ...): delete / delete-then-put-back / replace with the child plain, parenthesised, multi-line parenthesised, multi-byte, nested
    on = 0
    for lst in pmap(c01_targets.run_opt_case, c01_targets.opt_cases()):
        for r in lst:
            if 'setup_error' in r:
                ctx.brk('harness', 'c01_targets opt set-up', str(r)[:200])
                continue
            if 'raised' in r:
                ctx.tally('opt_raised', f"{r['cls']}.{r['field']}:{r['op']}:{r['raised']}")
            on += 1
            ctx.count(('o', r['case'][1], r['vi'], r['var'], r['op']), True)
            ctx.tally('opt_field', f"{r['cls']}.{r['field']}")
            if 'fail' in r:
                ctx.fail(c01_targets.opt_signature(r), f"{r['op']} (step {r['step']}) on {r['cls']}.{r['field']} of {r['src']!r} -> {r.get('after')!r}: {r['fail'][:200]}", r)
    ctx.notes['optional_field_steps'] = on
    # ADDING an absent optional child (vararg next to a bare `*`, returns, annotation, Slice parts, cause, msg, `as` target, bound,
    # handler type, guard, Dict key in front of `**`) where neighbours contain the characters the put searches for (`*`, `:`, `=`,
    # `)`, `->`, `as`, `from` inside defaults, annotations and strings); then delete it again / replace it
    an = 0
    for lst in pmap(c01_targets.run_add_case, c01_targets.add_cases()):
        for r in lst:
            if 'setup_error' in r:
                ctx.brk('harness', 'c01_targets add set-up', str(r)[:200])
                continue
            if 'raised' in r:
                ctx.tally('add_raised', f"{r['cls']}.{r['field']}:{r['raised']}")
            an += 1
            ctx.count(('a', r['case'][1], r['vi'], r['var'], r['fi']), True)
            ctx.tally('add_field', f"{r['cls']}.{r['field']}")
            if 'fail' in r:
                ctx.fail(c01_targets.add_signature(r), f"{r['op']} (step {r['step']}) {r['value']!r} to {r['cls']}.{r['field']} of {r['src']!r} -> {r.get('after')!r}: {r['fail'][:200]}", r)
    ctx.notes['optional_child_added_steps'] = an
    # line-comment and docstring puts (named by the property): every statement of sources whose statements share lines with block
    # headers and with each other (`else: c; d`, `finally: b; c`, `def f(): a; b`), every comment / docstring text, put twice
    cn = 0
    for lst in pmap(c01_targets.run_cmt_case, c01_targets.cmt_cases()):
        for r in lst:
            if 'setup_error' in r:
                ctx.brk('harness', 'c01_targets comment/docstr set-up', str(r)[:200])
                continue
            if 'raised' in r:
                ctx.tally('cmt_raised', f"{r['case'][0]}:{r['cls']}:{r['raised']}")
            cn += 1
            ctx.count(('l', r['case'][0], r['case'][1], r['var'], r['node'], r['si'], r['second']), True)
            ctx.tally('cmt_api', 'put_line_comment' if r['case'][0] == 'l' else 'put_docstr')
            if 'fail' in r:
                ctx.fail(c01_targets.cmt_signature(r), f"{r['op']} (call {r['step']}) on {r['cls']} of {r['src']!r} -> {r.get('after')!r}: {r['fail'][:200]}", r)
    ctx.notes['line_comment_and_docstring_puts'] = cn
    # witnesses of REPAIRED findings are regression inputs: a 'fixed' entry suppresses nothing, so a witness that fails again
    # (repair reverted or not yet applied) is reported under its own signature
    import framework
    nfixed = 0
    for e in framework.load_known(ID):
        w = e.get('witness')
        if e.get('kind') != 'fixed' or not isinstance(w, dict) or ('history' not in w and 'case' not in w):
            continue
        nfixed += 1
        tmp = framework.Ctx(ID, ctx.tier, ctx.seed)
        try:
            check_known(tmp, e)
        except Exception:
            continue
        if tmp.failures:
            ctx.fail(e.get('signature_of_witness') or f'{e["id"]}|regressed', 'REGRESSION of repaired finding ' + e['id'] + ': ' + e['what'], w)
    ctx.notes['fixed_witnesses_replayed'] = nfixed
    # correspondence: Lean replacement model vs pfst positions, and the proved checker wfT on pfst post-states
    cases, exps, metas = [], [], []
    for lst in res:
        for r in lst:
            if 'model' in r:
                cases.append(r['model'][0])
                exps.append(r['model'][1])
                metas.append(r)
    try:
        outs = ctx.lean(cases)
    except Exception as ex:
        ctx.brk('correspondence', 'replace model', f'driver error {ex}')
        outs = []
    bad = 0
    skipped = 0
    for c, exp, r, o in zip(cases, exps, metas, outs):
        o = o.get('out', o)
        if not o.get('applicable') or not o.get('wf_pre'):
            skipped += 1            # hypothesis of replace_wf not met by this real case (rectangle touches a neighbour)
            continue
        ctx.corr_cases += 1
        got = [[x[1], x[2]] for x in o['flat']]
        if got != exp or not o.get('wf_post'):
            bad += 1
            if len(ctx.corr_disagreements) < 10:
                diffs = [(i, a, b) for i, (a, b) in enumerate(zip(got, exp)) if a != b][:5]
                ctx.corr_disagreements.append({'corr': 'replace model', 'sig': r['sig'], 'first_diffs(model,pfst)': diffs,
                                               'lens': [len(got), len(exp)], 'wf_post': o.get('wf_post')})
    ctx.notes['replace_model_cases'] = len(cases)
    ctx.notes['replace_model_hypothesis_not_met'] = skipped
    if cases:
        ctx.sample({'replace_model_case': {k: cases[0][k] for k in ('path', 's', 'e', 'newlen')}, 'nodes': len(exps[0])})
    if bad:
        ctx.brk('correspondence', 'Pfst.Edit.replaceAt vs pfst positions after replace()',
                f'{bad} cases differ; first {ctx.corr_disagreements[0]}')


def check_known(ctx, entry):
    """replay the witness of a listed finding: while it still fails it is reported (KNOWN-FINDING line)"""
    from fst import FST
    w = entry['witness']
    if 'case' in w:
        import c01_targets
        d = (c01_targets.replay_prim(w) if w['case'][0] == 'p' else c01_targets.replay_move(w) if w['case'][0] == 'm' else c01_targets.replay_par(w) if w['case'][0] == 'r' else c01_targets.replay_opt(w) if w['case'][0] == 'o' else c01_targets.replay_add(w) if w['case'][0] == 'a' else c01_targets.replay_cmt(w) if w['case'][0] in ('l', 'd') else c01_targets.replay(w))
        if d:
            ctx.fail(entry['id'], entry['what'], w)
        return
    root = FST(w['src'], 'exec')
    for rec in w['history']:
        try:
            edits.apply_edit(root, rec)
        except Exception:
            return
        d = util.tree_equals_parse(root)
        if d:
            ctx.fail(entry['id'], entry['what'], w)      # matched by id: the witness IS the listed finding
            return


def search(ctx):
    """something broke: run the whole fixed corpus with long histories"""
    old = ctx.tier
    ctx.tier = 'thorough'
    try:
        sweep(ctx)
    finally:
        ctx.tier = old


def replay(ctx, data):
    from fst import FST
    w = data.get('witness')
    if not w:
        return
    if 'case' in w:                 # a witness of the targeted product sweeps
        import c01_targets
        d = (c01_targets.replay_prim(w) if w['case'][0] == 'p' else c01_targets.replay_move(w) if w['case'][0] == 'm' else c01_targets.replay_par(w) if w['case'][0] == 'r' else c01_targets.replay_opt(w) if w['case'][0] == 'o' else c01_targets.replay_add(w) if w['case'][0] == 'a' else c01_targets.replay_cmt(w) if w['case'][0] in ('l', 'd') else c01_targets.replay(w))
        if d:
            ctx.fail('replay', d, w)
        return
    if 'history' not in w:          # a witness of the separator / delimiter correspondence
        import c01b
        return c01b.replay_c01b(ctx, data)
    root = FST(w['src'], 'exec')
    for rec in w['history']:
        edits.apply_edit(root, rec)
        d = util.tree_equals_parse(root)
        if d:
            ctx.fail('replay', d, w)
            return
