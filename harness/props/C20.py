"""C20 — options and edits are isolated per call, per block and per thread."""

import json
import random
import sys
import threading
import time

import c20_api as API
import c20_domain
import c20_preempt as PRE
import c20_run as R
from framework import LEAN, pmap, write_if_changed

ID = 'C20'
LEAN_MODULES = ['Pfst.Props.C20']
THEOREMS = [
    'Pfst.C20.set_invalid_identity', 'Pfst.C20.set_error_identity', 'Pfst.C20.set_invalid_any_position',
    'Pfst.C20.exec_frame', 'Pfst.C20.block_restores', 'Pfst.C20.block_restores_all', 'Pfst.C20.exec_clean',
    'Pfst.C20.percall_no_leak', 'Pfst.C20.percall_transparent', 'Pfst.C20.eff_merged',
    'Pfst.C20.percall_present_decides', 'Pfst.C20.percall_absent_consults', 'Pfst.C20.eff_present_shields',
    'Pfst.C20.eff_all_present_independent', 'Pfst.C20.effSetNorm_all_present_independent',
    'Pfst.C20.effSetNorm_present_shields', 'Pfst.C20.eff_absent_consults',
    'Pfst.C20.phase_given_ignores_top', 'Pfst.C20.phase_empty_is_defaults', 'Pfst.C20.phase_none_inherits',
    'Pfst.C20.memo_effective_transparent', 'Pfst.C20.memo_raw_not_transparent',
    'Pfst.C20.trivia_positions', 'Pfst.C20.real_trivia_line_is_trailing_only',
    'Pfst.C20.thread_frame', 'Pfst.C20.thread_local_step', 'Pfst.C20.machine_exec',
    'Pfst.C20.interleave', 'Pfst.C20.interleave_exec', 'Pfst.C20.stepVis_is_schedule',
    'Pfst.C20.real_tables_wf', 'Pfst.C20.real_set_invalid', 'Pfst.C20.real_block_restores_all',
]
RULE = ('(00) API surface: every public FST/FSTView entry point taking **options (54 call shapes: append, prepend, extend, '
        'prextend, insert, put, put_slice, get, get_slice, copy, cut, remove, replace, as_, put_docstr, sub, subn; node, '
        'view, statement, element, optional field, Set) x every global option x its accepted non-default values: the '
        'option passed to the call under library defaults must equal the bare call inside with options(k=v); (0) deterministic preemption inside calls: two threads edit their own copy() of one module with a non-ASCII '
        'line; thread A is parked at every line event of every method executing on a shared line object, B runs its whole '
        'script or is itself parked at sampled points; each result compared with the same script alone; (a) check_options on random 1-4 key mappings over the probe domain (23 names x 50 values incl. mutable list '
        'values for `op`, both all=True and '
        'all=False) vs the table-driven model; (b) random option programs (get_option / edit call with per-call options / '
        'set_options / with options(): nested up to depth 3 / raise / try-except; invalid names and values at every key '
        'position, raises at every statement position) run on the real API in one thread, get_options() snapshot after '
        'every step, compared step by step with the Lean interpreter; every valid edit call on a fresh tree is re-run with '
        'the observed effective options passed explicitly under default options and must give the same text; (c) 2-4 real '
        'threading.Threads, each with its own program, trees and edits, stepped in lock-step under a random schedule '
        '(one API step per tick; for pairs of short programs EVERY interleaving is played), compared with the Lean machine under the same schedule, with the same programs run '
        'alone in a fresh thread, and with the big-step model; (d) direct evaluation of the property on every run '
        '(state unchanged by a rejected set/enter, block keys restored on normal and exceptional exit, no change by '
        'get/call, own options stable between own steps, registry empty after calls) plus free-running threads with a '
        '1 microsecond switch interval vs solo results; (k) own defaults: a worker thread sets defaults D while the '
        'importing thread holds defaults M in a block; the worker\'s _get_opt_eff_* answers and edit texts (incl. slice '
        'copies/cuts of arglike-only arguments) for per-call options O must equal those of a pristine thread given O plus '
        'D per call, over the assignments of every resolver group; (i) `trivia`: the full cross product of 26 documented tokens and '
        'near-misses x positions (alone, 1-tuple, both positions of a 2-tuple, 3-tuples): the real check function vs the '
        'per-position model over extracted token classes, and set_options/options()/an edit call vs the documented '
        'per-position grammar written down independently, with a second option in the same call that must stay unset; '
        '(j) entry points that set options internally (reconcile(): ok and four inputs that make it fail MIDWAY) as '
        'catalogue calls: get_options() by value before/after, inside caller blocks naming other options, followed by '
        'option-sensitive edits, in lock-step threads vs solo; (g) option-dependent READ accessors (own_src/own_lines with and '
        'without docstr=, get_docstr, get_line_comment, copy(), get_slice()) on the SAME long-lived node objects of the '
        'thread before/inside/after blocks (left normally and by exception) and around set_options, each read compared '
        'with the same read on a fresh tree in the same thread at the same moment; the same node read from two threads '
        'with different defaults; (h) nested option dicts of sub(): copy_options/repl_options in {None, {}, dict} x '
        'top-level options x block defaults, compared with the same call where each phase is given explicitly what the '
        'rule None=inherit / dict=as given says it sees (resolution cross-checked with Pfst.Options.phaseView); (f) three-level lookup: for the options read by each '
        '_get_opt_eff_* resolver EVERY (block default x per-call mapping: each key absent or present with each accepted '
        'value incl. None) is run as with options(D): call(O) on operations the resolver decides (emptying a Set, '
        'Delete.targets, an If body, a MatchOr; paren-sensitive copies/puts) against the model, and directly: a call that '
        'passes a key must give the same resolver answers and edit text under any default for that key as under library '
        'defaults; (e) option OBJECTS: a program owns one object per mutable option '
        'value and reuses it for every step; after every step each is compared by value with the pristine probe value, '
        'get_options() is compared by value (type+repr coding) before/after every non-setting step, identical calls '
        '(same edit, per-call codes, defaults) must give identical text; edits consuming `op`/`op_side` (Compare slices, '
        'three identical insertions) and par()/unpar() variants followed by an unrelated edit of the same tree compared '
        'with that edit run alone on the intermediate source; `_MODIFYING` must be empty after every API call (solo and '
        'lock-step). distinct = distinct programs / mappings; non-trivial = the '
        'option store leaves the defaults or a validation error occurs')
TRUSTED = [
    'modelled: fst_options.check_options (incl. the empty / "__options_checked" early return), set_options '
    '(validate all -> snapshot -> update), options() (enter = set_options, exit = update(old) in finally), get_option, '
    'get_options, the five _get_opt_eff_* resolvers, the threading.local store as Thread -> dict with lazily created '
    'default entries; the _check_opt_* functions enter as an extensional table over the probe domain (regenerated each run)',
    'not modelled: the text produced by an edit (the model predicts the options an edit call sees; the edit text is '
    'compared real-vs-real: alone vs concurrent, and implicit vs explicit options); the _MODIFYING registry is only '
    'checked directly (empty after every call, concurrent = solo), its reentrancy counter belongs to C12',
    'not modelled: aliasing of mutable option objects: option values are immutable data in the model (getOption/call '
    'provably leave the stored values alone, percall_no_leak); that a call does not mutate the object it was handed, or '
    'the object held in the thread default store, is covered only by the by-value/deep-copy checks of the harness',
    'memoised reads: the model states which cache keys are transparent (memo_effective_transparent / '
    'memo_raw_not_transparent); the tie to fst.py is behavioural only: every option-dependent read on a long-lived node '
    'must equal the read on a fresh tree (= no memo). Accessors covered: own_src, own_lines, get_docstr, '
    'get_line_comment, copy, get_slice; reconcile() trivia_* parameters and dump() are not covered. reconcile() is the only '
    'library entry point that sets options internally (grep of options(/set_options(/_OPTIONS in src/fst); it is in the '
    'catalogue with inputs failing midway',
    'not modelled: values outside the probe domain (the table is extensional on the probe values); validation of '
    'per-call options by edits is taken to be check_options(options) at entry (checked per call: an edit given options '
    'that check_options rejects must raise the same exception and leave its tree unchanged)',
    'a mapping containing the internal key "__options_checked" is not validated by check_options (modelled as the code '
    'is: per-call options with that key are accepted unchecked; set_options still rejects it because it is no option)',
]
ASSUMPTIONS = [
    'the atomic step of the model is one API call on one thread; preemption INSIDE one pfst call (bytecode-level '
    'interleaving under the GIL, or free-threaded builds) is outside the executable model. It is exercised (i) '
    'deterministically for the only state different trees share - the line objects (astutil.bistr, lazily built '
    'c2b/b2c tables) two copy()s of one module have in common: with sys.settrace thread A is parked at EVERY line event '
    'inside a method running on a shared line object while B runs through or is parked at sampled points of its own; '
    '(ii) empirically by the free-running thread sweep (sys.setswitchinterval(1e-6)). Per-node caches belong to one tree '
    'and are not shared between trees; module-level state is the option store and the _MODIFYING registry (modelled / '
    'checked per call)',
    'threading.local gives every thread its own __dict__, initialised by _ThreadOptions.__init__ (CPython semantics)',
    'a with-block is entered and left by the thread that created it (generators moved across threads are out of scope)',
]
LEVEL_TEXT = ('Lean 4 theorems about an executable model of the option store: a rejected set_options/options() returns the '
              'store untouched wherever the bad key stands; a with-block restores its keys for EVERY body (nested blocks, '
              'sets, raises, try/except; induction on programs) and the whole dict when the body leaves nothing dirty; '
              'get_option / edit calls never write; steps of one thread never touch another thread\'s dict; for EVERY '
              'schedule each thread\'s observations and final options equal its solo run (induction on schedules), and the '
              'small-step machine equals the big-step interpreter. The _check_opt_* tables are re-extracted from the '
              'imported module and the theorems re-checked against them on every run.')
LEVEL_NOTE = ('Theorems are about the model; the tie to /repo is (i) extensional table extraction each run, (ii) step-by-step '
              'differential runs of random programs on the real API incl. real threads in lock-step. Edit texts are not '
              'predicted by the model; bytecode-level preemption inside a call is outside the model (tested empirically).')
TECHNIQUE = ('Lean 4 proof (induction over programs and over schedules, noninterference on association-list stores) + '
             'table extraction + model-implementation correspondence on real threads')

GEN_PATH = LEAN / 'Pfst' / 'Gen' / 'Options.lean'


# ---- extraction -----------------------------------------------------------------------------------------------------

def extract(ctx):
    d = R.dom()
    txt = c20_domain.lean_table(d)
    changed = write_if_changed(GEN_PATH, txt)
    ctx.notes['table'] = {'names': len(d.names), 'values': len(d.values), 'globals': len(d.global_names),
                          'rewritten': bool(changed)}
    if not R.at_defaults():
        ctx.brk('extraction', 'defaults', 'get_options() of a fresh process differs from _GLOBAL_OPTIONS_W_DEFAULTS')
    ctx.exhaustive = False


_TABLES = None


def tables():
    global _TABLES
    if _TABLES is None:
        _TABLES = R.dom().tables()
    return _TABLES


# ---- helpers --------------------------------------------------------------------------------------------------------

def _sig(a):
    return 'C20|' + a[0]


def _pretty(x):
    """decode [[name code, value code], ...] lists for messages"""
    d = R.dom()
    if (isinstance(x, list) and x and all(isinstance(p, list) and len(p) == 2 and all(isinstance(i, int) for i in p) for p in x)
            and all(0 <= p[0] < len(d.names) and 0 <= p[1] < len(d.values) for p in x)):
        return '{' + ', '.join(f'{d.names[n]}={d.value_repr(v)}' for n, v in x) + '}'
    if isinstance(x, list) and x and all(isinstance(i, int) for i in x) and all(0 <= i < len(d.names) for i in x):
        return '[' + ', '.join(d.names[i] for i in x) + ']'
    return json.dumps(x, default=str)[:120]


def _report_anomalies(ctx, anomalies, witness):
    for a in anomalies:
        ctx.fail(_sig(a), f'{a[0]}: ' + ' ; '.join(_pretty(x) for x in a[1:])[:600], dict(witness, anomaly=a))


def _nontrivial(trace, dflt):
    return any(o[0] == 'err' or o[-1] != dflt for o in trace)


def _first_diff(a, b):
    for i, (x, y) in enumerate(zip(a, b)):
        if x != y:
            return {'step': i, 'impl': x, 'model': y}
    if len(a) != len(b):
        return {'step': min(len(a), len(b)), 'impl_len': len(a), 'model_len': len(b),
                'impl': a[len(b):len(b) + 1], 'model': b[len(a):len(a) + 1]}
    return None


_FIRST = {}


def _disagree(ctx, name, case, detail):
    rec = {'corr': name, 'case': case, 'detail': detail}
    _FIRST.setdefault(name.split(' [')[0], rec)
    if len(ctx.corr_disagreements) < 20:
        ctx.corr_disagreements.append(rec)
    ctx.hints.append((name, case))


# ---- (a) check_options on whole mappings ----------------------------------------------------------------------------

def _check_cases(rng, n):
    d = R.dom()
    g = R.Gen(rng, tables())
    cases, impls = [], []
    for _ in range(n):
        all_ = rng.random() < 0.5
        kvs = g.kvs('call' if all_ else 'set', p_bad=rng.choice([0.0, 0.3, 0.6]))
        if rng.random() < 0.08 and kvs:
            kvs.insert(rng.randrange(len(kvs) + 1), [d.name_code[c20_domain.MARKER], d.true_code])
        try:
            kw = d.dec_kvs(kvs)
            ret = d.fo.check_options(kw, all_)
            impl = None if ret is kw else ['returned-a-different-mapping', -1]     # `return options`
            if impl is None and kw:
                ret2 = d.fo.check_options(kw, all_, True)                           # mark_checked=True: a marked COPY
                if c20_domain.MARKER in kw:
                    ok = ret2 is kw
                else:
                    ok = ret2 is not kw and ret2 == dict(kw, **{c20_domain.MARKER: True}) and c20_domain.MARKER not in kw
                if not ok:
                    impl = ['mark_checked-result-wrong', -1]
        except ValueError as e:
            kind, name = c20_domain.classify_error(str(e))
            impl = [kind, d.name_code.get(name, -1)]
        except Exception:
            impl = ['crash', -1]
        cases.append({'f': 'C20.check', 'kvs': kvs, 'all': all_})
        impls.append(impl)
    return cases, impls


# ---- (b) one thread -------------------------------------------------------------------------------------------------

_REF_CACHE = {}


def _reference_check(views):
    """An edit call on a fresh tree must give the text it gives when the options it sees (per-call value, else thread
    default) are all passed explicitly under default thread options."""
    d = R.dom()
    bad = []
    for eid, view, res in views:
        key = (eid, tuple(d.enc(v) for v in view.values()))
        if key not in _REF_CACHE:
            R.reset_options()
            _REF_CACHE[key] = R.run_edit(eid, R.copy_opts(view), None)
        if _REF_CACHE[key] != res:
            bad.append([R.EDIT_NAMES[eid], {k: d.enc(v) for k, v in view.items()}, res[:120], _REF_CACHE[key][:120]])
    return bad


def _solo_case(prog):
    try:
        out = R.run_solo(prog)
        views = out.pop('views')
        out['refbad'] = _reference_check(views)
        return out
    except Exception as e:
        import traceback
        return {'harness_error': traceback.format_exc()[-800:]}
    finally:
        R.reset_options()


def _gen_programs(ctx, n):
    rng = random.Random(ctx.rng.random())
    g = R.Gen(rng, tables())
    return [g.program() for _ in range(n)]


def _dflt():
    d = R.dom()
    return d.enc_map(d.fo._GLOBAL_OPTIONS_W_DEFAULTS)


def _compare_solo(ctx, name, progs, outs):
    cases = [{'f': 'C20.run', 'prog': p} for p in progs]
    try:
        mouts = ctx.lean(cases)
    except Exception as e:
        ctx.brk('correspondence', name, f'driver error: {e}')
        return
    dflt = _dflt()
    bad = 0
    for p, io_, mo in zip(progs, outs, mouts):
        ctx.corr_cases += 1
        if 'harness_error' in io_:
            bad += 1
            _disagree(ctx, name, p, io_['harness_error'])
            continue
        m = mo.get('out', mo)
        ctx.count(p, _nontrivial(io_['trace'], dflt))
        feats = R.prog_features(p)
        ctx.tally('block_depth', feats['depth'])
        ctx.tally('ends_with_exception', io_['exc'])
        for o in io_['trace']:
            ctx.tally('step_kind', o[0] if o[0] != 'err' else 'err:' + str(o[1]).split(':')[0])
        _report_anomalies(ctx, io_['anomalies'], {'prog': p})
        if not isinstance(m, dict) or 'trace' not in m:
            bad += 1
            _disagree(ctx, name, p, {'model': m})
            continue
        diff = None
        if io_['trace'] != m['trace']:
            diff = _first_diff(io_['trace'], m['trace'])
        elif io_['exc'] != m['exc'] or io_['final'] != m['final']:
            diff = {'exc/final': [io_['exc'], m['exc'], io_['final'], m['final']]}
        if diff:
            bad += 1
            _disagree(ctx, name, p, diff)
        if io_['refbad']:
            bad += 1
            _disagree(ctx, name + ' [edit text is a function of the options the call sees]', p, io_['refbad'][:3])
    ctx.tally('correspondence_cases', name)
    ctx.dist['correspondence_cases'][name] = len(progs)
    if progs:
        ctx.sample({'corr': name, 'prog': progs[0], 'impl_trace_head': outs[0].get('trace', [])[:2]})
    if bad:
        ctx.brk('correspondence', name, f'{bad}/{len(progs)} programs differ; first: '
                + json.dumps(_FIRST.get(name), default=str)[:1500])


# ---- (c) several real threads in lock-step --------------------------------------------------------------------------

def _thread_case(arg):
    progs, seed = arg[0], arg[1]
    plan = arg[2] if len(arg) > 2 else None
    rng = random.Random(seed)
    try:
        R.reset_options()
        main_before = R.Runner().snap()
        ls = R.LockStep(progs, rng, plan=plan)
        results, sched = ls.run()
        main_after = R.Runner().snap()
        solo = [R.run_solo_thread(p) for p in progs]
        refbad = []
        for r in results:
            refbad += _reference_check(r.pop('views'))
        for r in solo:
            r.pop('views')
        return {'results': results, 'sched': sched, 'solo': solo, 'main_before': main_before, 'main_after': main_after,
                'refbad': refbad, 'registry': R.registry_size()}
    except Exception:
        import traceback
        return {'harness_error': traceback.format_exc()[-800:]}
    finally:
        R.reset_options()


def _gen_thread_cases(ctx, n):
    rng = random.Random(ctx.rng.random())
    g = R.Gen(rng, tables())
    out = []
    for _ in range(n):
        k = rng.choice([2, 2, 3, 3, 4])
        out.append(([g.program() for _ in range(k)], rng.randrange(1 << 30)))
    return out


def _merges(a, b):
    """all interleavings of a steps of thread 0 with b steps of thread 1"""
    if a == 0 or b == 0:
        return [[0] * a + [1] * b]
    return [[0] + m for m in _merges(a - 1, b)] + [[1] + m for m in _merges(a, b - 1)]


def _gen_enumerated(ctx, npairs, cap):
    """two threads with short programs: EVERY interleaving of their API steps (incl. the halting turn)"""
    rng = random.Random(ctx.rng.random())
    g = R.Gen(rng, tables())
    out = []
    for _ in range(npairs):
        progs = []
        for t in range(2):
            kv = g.kvs('set', 0.0) or [[g.glob[7], R.dom().true_code]]
            body = g.stmts(0, 1)
            shapes = [
                [['catch', [['block', kv, body + [['raise']]]]], ['get', kv[0][0], []]],
                [['set', kv], ['call', g.kvs('call', 0.0), rng.choice(R.OPT_IDS)], ['get', kv[0][0], []]],
                [['block', kv, [['call', [], rng.randrange(len(R.EDITS))]]], ['call', [], R.PERSIST]],
            ]
            progs.append(rng.choice(shapes))
        steps = [len(R.run_solo_thread(p)['trace']) + 1 for p in progs]
        ms = _merges(steps[0], steps[1])
        rng.shuffle(ms)
        for m in ms[:cap]:
            out.append((progs, rng.randrange(1 << 30), m))
    return out


def _compare_threads(ctx, name, tcases, outs):
    cases = []
    keep = []
    bad = 0
    tcases = [(tc[0], tc[1]) for tc in tcases]
    for (progs, seed), o in zip(tcases, outs):
        if 'harness_error' in o:
            ctx.corr_cases += 1
            bad += 1
            _disagree(ctx, name, {'progs': progs, 'seed': seed}, o['harness_error'])
            continue
        cases.append({'f': 'C20.threads', 'progs': progs, 'sched': o['sched']})
        keep.append(((progs, seed), o))
    try:
        mouts = ctx.lean(cases)
    except Exception as e:
        ctx.brk('correspondence', name, f'driver error: {e}')
        return
    dflt = _dflt()
    for ((progs, seed), o), mo in zip(keep, mouts):
        ctx.corr_cases += 1
        wit = {'progs': progs, 'seed': seed, 'sched': o['sched']}
        m = mo.get('out', mo)
        ctx.count({'p': progs, 's': o['sched']}, any(_nontrivial(r['trace'], dflt) for r in o['results']))
        ctx.tally('threads', len(progs))
        ctx.tally('schedule_len', min(len(o['sched']) // 10 * 10, 60))
        switches = sum(1 for a, b in zip(o['sched'], o['sched'][1:]) if a != b)
        ctx.tally('schedule_switches', min(switches // 5 * 5, 40))
        diffs = []
        for t, (r, s) in enumerate(zip(o['results'], o['solo'])):
            _report_anomalies(ctx, r['anomalies'], dict(wit, thread=t))
            # the property itself, real vs real: concurrently == alone
            for fld in ('trace', 'exc', 'final', 'edits', 'tree'):
                if r[fld] != s[fld]:
                    d = _first_diff(r[fld], s[fld]) if isinstance(r[fld], list) else [r[fld], s[fld]]
                    ctx.fail(f'C20|thread|concurrent!=solo|{fld}',
                             f'thread {t} of {len(progs)} obtains a different {fld} when run concurrently (lock-step '
                             f'schedule) than alone: {json.dumps(d, default=str)[:300]}', dict(wit, thread=t))
                    break
        if o['main_before'] != o['main_after']:
            ctx.fail('C20|thread|default-visible|main', 'options of the controlling thread changed while only other threads '
                     'called set_options/options()', wit)
        if o['registry']:
            ctx.fail('C20|registry|not-empty-after-call', '_MODIFYING keeps entries after all threads finished', wit)
        if not isinstance(m, dict) or 'threads' not in m:
            bad += 1
            _disagree(ctx, name, wit, {'model': m})
            continue
        if not m['solo_equal']:
            diffs.append('model: scheduled machine differs from big-step solo run (contradicts Pfst.C20.interleave_exec)')
        for t, (r, mt) in enumerate(zip(o['results'], m['threads'])):
            if not mt['halted']:
                diffs.append({'thread': t, 'model not halted at the end of the schedule': True})
            elif r['trace'] != mt['trace']:
                diffs.append({'thread': t, **_first_diff(r['trace'], mt['trace'])})
            elif r['exc'] != mt['exc'] or r['final'] != mt['final']:
                diffs.append({'thread': t, 'exc/final': [r['exc'], mt['exc'], r['final'], mt['final']]})
        if o['refbad']:
            diffs.append({'edit text is not a function of the options the call sees': o['refbad'][:3]})
        if diffs:
            bad += 1
            _disagree(ctx, name, wit, diffs[:3])
    ctx.tally('correspondence_cases', name)
    ctx.dist['correspondence_cases'][name] = len(tcases)
    if keep:
        (progs, seed), o = keep[0]
        ctx.sample({'corr': name, 'threads': len(progs), 'sched': o['sched'][:40], 'prog0': progs[0]})
    if bad:
        ctx.brk('correspondence', name, f'{bad}/{len(tcases)} thread cases differ; first: '
                + json.dumps(_FIRST.get(name), default=str)[:1500])


# ---- the effective-option resolvers: three-level lookup (key present in the call / thread-block default / library) ---

def _groups():
    """(resolver functions, option names they read, edits whose observable behaviour they decide)"""
    return [
        (['_get_opt_eff_pars_arglike'], ['pars_arglike', 'pars'], R.PARS_IDS),
        (['_get_opt_eff_norm_self', '_get_opt_eff_set_norm_self'], ['norm_self', 'norm', 'set_norm'], R.NORM_IDS),
        (['_get_opt_eff_norm_get', '_get_opt_eff_set_norm_get'], ['norm_get', 'norm', 'set_norm'], R.NORM_IDS),
    ]


def _assignments(names):
    """every mapping over `names`: each name absent or present with each value set_options accepts (None included)"""
    d = R.dom()
    acc = {n: vs for n, vs, _ in tables()[False]}
    out = [[]]
    for nm in names:
        if nm not in d.name_code:
            continue
        c = d.name_code[nm]
        vals = [v for v in acc.get(c, []) if c20_domain._is_plain(d.values[v])]
        out = [kv + ext for kv in out for ext in [[]] + [[[c, v]] for v in vals]]
    return out


def _resolver_programs():
    """`with options(**D): call(**O)` for EVERY D and O over the options a resolver reads (absent / each value incl.
    None), every call on an operation the resolver decides; compared with the model step by step like any program"""
    out = []
    for _, names, eids in _groups():
        asg = _assignments(names)
        for i, D in enumerate(asg):
            body = [['catch', [['call', O, eids[(i + j) % len(eids)]]]] for j, O in enumerate(asg)]
            out.append([['block', D, body]])
    return out


def _shield_case(arg):
    """the property itself, no model: a key PRESENT in the call's options (whatever its value, None included) decides;
    a thread/block default for that key must not change the outcome.  Oracle: the same call under library defaults."""
    fns, eids, O, Ds = arg
    d = R.dom()
    F = d.FST
    bad = []
    n = 0
    try:
        R.reset_options()
        base_r = [repr(getattr(F, fn)(d.dec_kvs(O))) for fn in fns] + [repr(F.get_option(d.names[k], d.dec_kvs(O))) for k, _ in O]
        base_e = [R.run_edit(e, d.dec_kvs(O), None) for e in eids]
        for D in Ds:
            R.reset_options()
            try:
                with F.options(**d.dec_kvs(D)):
                    got_r = [repr(getattr(F, fn)(d.dec_kvs(O))) for fn in fns] + [repr(F.get_option(d.names[k], d.dec_kvs(O))) for k, _ in O]
                    got_e = [R.run_edit(e, d.dec_kvs(O), None) for e in eids]
            except Exception as e:
                bad.append(['harness', repr(e), D, O])
                continue
            n += len(got_r) + len(got_e)
            names = list(fns) + ['get_option(' + d.names[k] + ')' for k, _ in O]
            for nm, a, b in zip(names, got_r, base_r):
                if a != b:
                    bad.append([nm, D, O, a, b])
            for e, a, b in zip(eids, got_e, base_e):
                if a != b:
                    bad.append([R.EDIT_NAMES[e], D, O, a, b])
        return {'bad': bad, 'n': n}
    except Exception:
        import traceback
        return {'harness_error': traceback.format_exc()[-600:]}
    finally:
        R.reset_options()


def _shield_sweep(ctx, full):
    rng = random.Random(ctx.rng.random())
    d = R.dom()
    jobs = []
    for fns, names, eids in _groups():
        for O in _assignments(names):
            if not O:
                continue
            present = [d.names[k] for k, _ in O]
            Ds = [D for D in _assignments(present) if D]
            if not full and len(Ds) > 8:
                Ds = rng.sample(Ds, 8)
            jobs.append((fns, eids, O, Ds))
    # the same for arbitrary options and every fresh-tree edit: defaults for keys the call passes are irrelevant
    g = R.Gen(rng, tables())
    for _ in range(300 if not full else 3000):
        O = [kv for kv in g.kvs('call', 0.0) if kv[0] in g.glob and c20_domain._is_plain(d.values[kv[1]])]
        if not O:
            continue
        Ds = []
        for _ in range(3):
            sub = rng.sample(O, rng.randint(1, len(O)))
            Ds.append([[k, rng.choice([v for v in g.accG[k] if c20_domain._is_plain(d.values[v])])] for k, _ in sub])
        jobs.append(([], rng.sample(R.OPT_IDS, 3), O, Ds))
    outs = pmap(_shield_case, jobs)
    n = 0
    for (fns, eids, O, Ds), o in zip(jobs, outs):
        if 'harness_error' in o:
            ctx.brk('correspondence', 'C20.sweep.shield', o['harness_error'])
            break
        n += o['n']
        ctx.count(['shield', O, Ds], True, n=max(1, len(Ds)))
        for b in o['bad'][:3]:
            if b[0] == 'harness':
                ctx.brk('correspondence', 'C20.sweep.shield', str(b))
                continue
            what, D, O_, got, alone = b
            ctx.fail('C20|call|default-overrides-passed-option|' + what,
                     f'inside `with FST.options{_pretty(D)}` the call {what} with per-call options {_pretty(O_)} gives '
                     f'{got[:120]!r}; the same call under library defaults gives {alone[:120]!r}: a default for an option '
                     f'the call passes itself changed the outcome', {'defaults': D, 'call': O_, 'what': what})
    ctx.notes['shield_comparisons'] = n


# ---- a thread's OWN defaults decide: thread default == the same values passed per call ------------------------------

def _thread_default_case(arg):
    """Worker thread W sets defaults D (set_options) while the calling thread - the one that imported the library -
    holds defaults M in an options() block.  What W's resolvers and edits answer for per-call options O must equal the
    answers of a pristine thread (nobody holds any default) given O plus D's values per call for the names O lacks."""
    fns, eids, D, M, Os = arg
    d = R.dom()
    F = d.FST

    def answers(opt_lists, defaults):
        out = []

        def body():
            if defaults:
                F.set_options(**d.dec_kvs(defaults))
            for O in opt_lists:
                row = [repr(getattr(F, fn)(d.dec_kvs(O))) for fn in fns]
                row += [R.run_edit(e, d.dec_kvs(O), None) for e in eids]
                out.append(row)
            out.append(d.enc_map(F.get_options()))
        R.run_in_fresh_thread(body)
        return out
    try:
        R.reset_options()
        with F.options(**d.dec_kvs(M)):
            got = answers(Os, D)
            mine = d.enc_map(F.get_options())
        R.reset_options()
        merged = [O + [kv for kv in D if kv[0] not in {k for k, _ in O}] for O in Os]
        ref = answers(merged, [])
        bad = []
        names = list(fns) + [R.EDIT_NAMES[e] for e in eids]
        for O, g, r in zip(Os, got[:-1], ref[:-1]):
            for nm, a, b in zip(names, g, r):
                if a != b:
                    bad.append([nm, O, a, b])
        exp_snap = d.enc_map(dict(d.fo._GLOBAL_OPTIONS_W_DEFAULTS, **d.dec_kvs(D)))
        if got[-1] != exp_snap:
            bad.append(['get_options', [], got[-1], exp_snap])
        return {'bad': bad, 'n': len(names) * len(Os)}
    except Exception:
        import traceback
        return {'harness_error': traceback.format_exc()[-600:]}
    finally:
        R.reset_options()


def _thread_default_sweep(ctx, full):
    rng = random.Random(ctx.rng.random())
    d = R.dom()
    jobs = []
    for fns, names, eids in _groups():
        asg = [a for a in _assignments(names)]
        Ds = asg if full or len(asg) <= 20 else [[]] + rng.sample(asg[1:], 19)
        for D in Ds:
            others = [a for a in asg if a and a != D]
            Ms = [[]] + rng.sample(others, min(2 if not full else 4, len(others)))
            Os = [[]] + rng.sample(asg[1:], min(2, len(asg) - 1))
            for M in Ms:
                if D or M:
                    jobs.append((fns, eids, D, M, Os))
    outs = pmap(_thread_default_case, jobs, chunksize=1)
    n = 0
    for (fns, eids, D, M, Os), o in zip(jobs, outs):
        if 'harness_error' in o:
            ctx.brk('correspondence', 'C20.sweep.thread-default', o['harness_error'])
            break
        n += o['n']
        ctx.count(['thread-default', D, M, Os], True)
        for what, O, got, ref in o['bad'][:2]:
            ctx.fail('C20|thread|default-not-own|' + what,
                     f'a thread that did set_options{_pretty(D) if D else "()"} while the importing thread holds '
                     f'options{_pretty(M) if M else "()"}: {what} with per-call options {_pretty(O) if O else "{}"} gives '
                     f'{str(got)[:120]!r}; a pristine thread given the same values per call gives {str(ref)[:120]!r}',
                     {'thread_default': D, 'main_default': M, 'call': O, 'what': what})
    ctx.notes['thread_default_comparisons'] = n


# ---- the whole public API surface: option passed to the call == the same option as thread/block default -------------

def _api_case(arg):
    name, v = arg
    d = R.dom()
    F = d.FST
    val = lambda: (list(d.values[v]) if isinstance(d.values[v], list) else d.values[v])
    bad = []
    try:
        E = API.entries(F)
        for en, f in E:
            R.reset_options()
            a = f({name: val()})
            with F.options(**{name: val()}):
                b = f({})
            same_snap = R.at_defaults()
            if a != b:
                bad.append([en, a, b])
            if not same_snap:
                bad.append([en, 'get_options() not at defaults afterwards', ''])
                R.reset_options()
            if R.registry_size():
                bad.append([en, 'registry not empty', ''])
                R.registry_clear()
        return {'bad': bad, 'n': len(E)}
    except Exception:
        import traceback
        return {'harness_error': traceback.format_exc()[-600:]}
    finally:
        R.reset_options()


def _api_surface_sweep(ctx):
    """every public entry point of FST / FSTView taking **options x every global option x its accepted non-default
    values: `entry(..., k=v)` under library defaults == `entry(...)` inside `with FST.options(k=v)`"""
    d = R.dom()
    acc = {n: vs for n, vs, _ in tables()[False]}
    jobs = []
    for name in d.global_names:
        c = d.name_code[name]
        dft = d.enc(d.fo._GLOBAL_OPTIONS_W_DEFAULTS[name])
        vals = [v for v in acc.get(c, []) if c20_domain._is_plain(d.values[v]) and v != dft]
        for v in vals[:4 if ctx.quick else 8]:
            jobs.append((name, v))
    outs = pmap(_api_case, jobs, chunksize=1)
    n = 0
    for (name, v), o in zip(jobs, outs):
        if 'harness_error' in o:
            ctx.brk('correspondence', 'C20.api-surface', o['harness_error'])
            break
        n += o['n']
        ctx.count(['api', name, v], True, n=o['n'])
        for en, a, b in o['bad'][:3]:
            ctx.fail(f'C20|call|per-call!=block-default|{en}|{name}',
                     f'{en}(..., {name}={d.value_repr(v)}) under library defaults gives {a[:120]!r}; the same call without the '
                     f'option inside `with FST.options({name}={d.value_repr(v)})` gives {b[:120]!r}',
                     {'api': en, 'option': name, 'value': v})
    ctx.notes['api_surface_comparisons'] = n
    ctx.notes['api_entry_points'] = len(API.entries(d.FST))


# ---- preemption inside library calls on state shared between trees (line objects after copy()) --------------------

def _preempt_job(arg):
    si, ka, kb, pa, pbs = arg
    F = R.dom().FST
    src = PRE.sources()[si]
    out = []
    try:
        r1 = PRE.run(F, src, ka, kb, pa, None)
        nB = r1['cnt']['B']
        todo = [(None, r1)]
        step = max(1, nB // pbs) if pbs else nB + 1
        for pb in range(0, nB, step):
            todo.append((pb, None))
        for pb, r in todo:
            r = r or PRE.run(F, src, ka, kb, pa, pb)
            bad = None
            if r['hung']:
                bad = 'a thread did not finish'
            elif r['res'] != r['solo']:
                t = 'A' if r['res'].get('A') != r['solo'].get('A') else 'B'
                bad = f'thread {t} gets {r["res"].get(t)!r}, alone {r["solo"].get(t)!r}'
            elif not r['master_ok']:
                bad = 'the tree both copies were made from changed'
            elif not all(PRE.parses(v) for v in r['res'].values() if not v.startswith('EXC')):
                bad = 'result does not parse'
            out.append({'pa': pa, 'pb': pb, 'where': r['where'], 'bad': bad})
        return {'si': si, 'ka': ka, 'kb': kb, 'runs': out}
    except Exception:
        import traceback
        return {'harness_error': traceback.format_exc()[-600:]}
    finally:
        R.reset_options()


def _preempt_sweep(ctx):
    """EVERY preemption point of thread A inside a method running on a shared line object x (B runs through | B is
    parked at sampled points of its own, A finishes first): both threads edit their own copy and must get the solo
    result"""
    F = R.dom().FST
    q = ctx.quick
    jobs = []
    for si, src in enumerate(PRE.sources()):
        for ka, kb in ((0, 0), (1, 2)) if q else ((0, 0), (1, 2), (2, 1), (0, 1)):
            nA = PRE.run(F, src, ka, kb, None, None)['cnt']['A']
            for pa in range(nA):
                jobs.append((si, ka, kb, pa, 5 if q else 16))
    outs = pmap(_preempt_job, jobs, chunksize=2)
    n = 0
    for o in outs:
        if 'harness_error' in o:
            ctx.brk('correspondence', 'C20.preempt', o['harness_error'])
            break
        for r in o['runs']:
            n += 1
            ctx.count(['preempt', o['si'], o['ka'], o['kb'], r['pa'], r['pb']], True)
            if r['bad']:
                fa = r['where'].get('A', '?').split(':')[0]
                fb = r['where'].get('B', '-').split(':')[0] if r['pb'] is not None else '-'
                kind = 'both-inside' if r['pb'] is not None and 'B' in r['where'] else 'one-inside'
                ctx.fail(f'C20|thread|preempt|{kind}|{fa}|{fb}',
                         f'two threads editing their own copies of one module (shared line objects): thread A preempted at '
                         f'{r["where"].get("A")}' + (f', thread B preempted at {r["where"].get("B")}, A finishes first'
                                                   if kind == 'both-inside' else ', B runs its whole script meanwhile')
                         + f': {r["bad"]}',
                         {'preempt': {'src': PRE.sources()[o['si']], 'ka': o['ka'], 'kb': o['kb'], 'pa': r['pa'], 'pb': r['pb']}})
    ctx.notes['preemption_interleavings'] = n


def correspondence(ctx):
    _api_surface_sweep(ctx)
    _preempt_sweep(ctx)
    q = ctx.quick
    # (a)
    rng = random.Random(ctx.rng.random())
    cases, impls = _check_cases(rng, 3000 if q else 40000)
    ctx.compare('check_options(mapping, all) vs Pfst.Options.checkOptions', cases, impls,
                nontrivial=lambda c, io_: io_ is not None)
    # (b)
    progs = _gen_programs(ctx, 2500 if q else 30000)
    outs = pmap(_solo_case, progs)
    _compare_solo(ctx, 'option program on one thread vs Pfst.Options.execL', progs, outs)
    rprogs = _resolver_programs()
    routs = pmap(_solo_case, rprogs, chunksize=1)
    _compare_solo(ctx, 'every (block default x per-call value incl. None) of the _get_opt_eff_* options vs Pfst.Options.execL',
                  rprogs, routs)
    # (c)
    tcases = _gen_thread_cases(ctx, 240 if q else 3000)
    touts = pmap(_thread_case, tcases, chunksize=1)
    _compare_threads(ctx, 'lock-step threads vs Pfst.Options.runVis (and vs solo)', tcases, touts)
    ecases = _gen_enumerated(ctx, 3 if q else 40, 126 if q else 500)
    eouts = pmap(_thread_case, ecases, chunksize=1)
    _compare_threads(ctx, 'two threads, every interleaving of short programs vs Pfst.Options.runVis (and vs solo)', ecases, eouts)
    ctx.notes['enumerated_schedules'] = len(ecases)


# ---- sweep: the property itself on the real code, no model ---------------------------------------------------------

# validity of a value as DOCUMENTED (docstring of FST.options / comment table of _GLOBAL_OPTIONS_W_DEFAULTS), written
# down here independently of the _check_opt_* functions; only options whose documented domain is a plain enumeration
_T, _F = ('bool', 'True'), ('bool', 'False')
_s = lambda x: ('str', repr(x))
_NONE = ('NoneType', 'None')
DOC_DOMAIN = {
    'raw': {_T, _F, _s('auto')}, 'coerce': {_T, _F}, 'promote': {_T, _F, _s('identifier'), _s('all')},
    'elif_': {_T, _F}, 'pep8space': {_T, _F, ('int', '1')}, 'docstr': {_T, _F, _s('strict')},
    'pars': {_T, _F, _s('auto')}, 'pars_walrus': {_T, _F, _NONE}, 'pars_arglike': {_T, _F, _NONE},
    'set_norm': {_s('star'), _s('call')}, 'op_side': {_s('left'), _s('right')},
    'args_as': {_NONE} | {_s(x) for x in ('pos', 'arg', 'kw', 'arg_only', 'kw_only', 'pos_maybe', 'arg_maybe', 'kw_maybe')},
}
DOC_UNDECIDED = {('pep8space', ('float', '1.0'))}     # `1.0 == 1`: the documentation does not say


import re as _re
_DOC_LEAD = _re.compile(r'(all|block|none)?([+-]\d*)?$')
_DOC_TRAIL = _re.compile(r'(all|block|none|line)?([+-]\d*)?$')


def _doc_triv_pos(t, trailing):
    """one position of `trivia` as documented: bool | int | 'all'/'block'/'none' (+ 'line' only for TRAILING), each
    optionally followed by '+'/'-' and digits, or just such a suffix.  None = the documentation does not decide ('')"""
    if isinstance(t, int):
        return True
    if not isinstance(t, str):
        return False
    if t == '':
        return None
    return bool((_DOC_TRAIL if trailing else _DOC_LEAD).match(t))


def doc_trivia_valid(v):
    if isinstance(v, tuple):
        if len(v) == 0:
            return True
        if len(v) == 1:
            return _doc_triv_pos(v[0], True)
        if len(v) == 2:
            a, b = _doc_triv_pos(v[0], False), _doc_triv_pos(v[1], True)
            return False if a is False or b is False else None if a is None or b is None else True
        return False
    return _doc_triv_pos(v, False)


def _trivia_product(ctx):
    """the full cross product documented tokens x positions of `trivia`: (i) the real check function vs the
    per-position model (Pfst.Options.checkTrivia over the extracted token classes), (ii) set_options vs the
    documented grammar written down above, with another option in the same call that must not be set on rejection"""
    d = R.dom()
    T = c20_domain.TRIV_TOKENS
    n = len(T)
    shapes = [(False, [i]) for i in range(n)] + [(True, [])] + [(True, [i]) for i in range(n)]
    shapes += [(True, [i, j]) for i in range(n) for j in range(n)]
    shapes += [(True, [i, j, k]) for i in (0, 5, 8) for j in (0, 8) for k in (0, 8)]
    cases, impls = [], []
    other = 'coerce' if 'coerce' in d.global_names else d.global_names[0]
    for tup, ix in shapes:
        v = tuple(T[i] for i in ix) if tup else T[ix[0]]
        try:
            d.fo.check_options({'trivia': v}, False)
            acc = True
        except Exception:
            acc = False
        cases.append({'f': 'C20.trivia', 'tuple': tup, 'toks': ix})
        impls.append(acc)
        doc = doc_trivia_valid(v)
        if doc is None:
            continue
        ctx.count(['triv', tup, ix], not doc)
        for api in ('set_options', 'options'):
            R.reset_options()
            before = d.FST.get_options()
            ran = False
            try:
                if api == 'set_options':
                    d.FST.set_options(**{other: False, 'trivia': v})
                    ok = True
                else:
                    with d.FST.options(**{other: False, 'trivia': v}):
                        ran = True
                    ok = True
            except Exception:
                ok = ran
            after = d.FST.get_options()
            if ok != doc:
                ctx.fail('C20|set|documented-' + ('invalid-accepted' if ok else 'valid-rejected') + '|trivia',
                         f'{api}({other}=False, trivia={v!r}) is ' + ('accepted' if ok else 'rejected') + ' against the '
                         'documented per-position grammar (leading: all/block/none, trailing: all/block/none/line)',
                         {'name': 'trivia', 'value': repr(v), 'api': api})
            if not doc and (api == 'options' or not ok) and after != before:
                ctx.fail('C20|set|rejected-but-state-changed', f'{api}({other}=False, trivia={v!r}): options changed '
                         f'({other} is now {after.get(other)!r})', {'name': 'trivia', 'value': repr(v), 'api': api})
        if not doc:
            r = R.run_edit(R.EDIT_NAMES.index('cut_stmt'), {'trivia': v}, None)
            if 'EXC ValueError: invalid' not in r:
                ctx.fail('C20|edit|invalid-item-accepted', f'an edit call with trivia={v!r} is not refused up front: {r[:100]!r}',
                         {'name': 'trivia', 'value': repr(v), 'api': 'edit'})
    R.reset_options()
    ctx.compare('_check_opt_trivia on every documented token x position vs Pfst.Options.checkTrivia', cases, impls,
                nontrivial=lambda c, io_: True)


def _doc_sweep(ctx):
    """documented-invalid values and unknown names must be rejected by set_options and leave get_options() unchanged;
    documented-valid ones must be accepted"""
    d = R.dom()
    n = 0
    for name, dom_ in DOC_DOMAIN.items():
        if name not in d.global_names:
            continue
        for v in d.values:
            key = c20_domain._key(v) if c20_domain._is_plain(v) else ('object', str(id(v)))
            if (name, key) in DOC_UNDECIDED:
                continue
            R.reset_options()
            before = d.enc_map(d.FST.get_options())
            try:
                d.FST.set_options(**{name: v})
                ok = True
            except Exception:
                ok = False
            after = d.enc_map(d.FST.get_options())
            n += 1
            ctx.count(['doc', name, key], key not in dom_)
            if ok != (key in dom_):
                ctx.fail('C20|set|documented-' + ('invalid-accepted' if ok else 'valid-rejected') + '|' + name,
                         f'set_options({name}={v!r}) ' + ('is accepted' if ok else 'is rejected')
                         + ' against the documented domain', {'name': name, 'value': repr(v)})
            if not ok and after != before:
                ctx.fail('C20|set|rejected-but-state-changed', f'set_options({name}={v!r}) raised and changed options',
                         {'name': name, 'value': repr(v)})
    for name in c20_domain.BOGUS_NAMES + sorted(d.fo._DYN_OPTIONS) + [c20_domain.MARKER]:
        R.reset_options()
        before = d.FST.get_options()
        try:
            d.FST.set_options(**{name: True})
            ctx.fail('C20|set|unknown-name-accepted', f'set_options({name}=True) is accepted', {'name': name})
        except Exception:
            pass
        if d.FST.get_options() != before:
            ctx.fail('C20|set|rejected-but-state-changed', f'set_options({name}=True) changed options', {'name': name})
        n += 1
    R.reset_options()
    return n


def _doc_multi(ctx, rng, n):
    """2-4 keyword arguments over the documented domains, one documented-invalid item (or unknown name) at EVERY
    position: set_options, options() and an edit call must all reject and change nothing; without the bad item all
    three must accept"""
    d = R.dom()
    names = [x for x in DOC_DOMAIN if x in d.global_names]
    plain = [v for v in d.values if c20_domain._is_plain(v)]

    def pick(name, valid):
        vs = [v for v in plain if (c20_domain._key(v) in DOC_DOMAIN[name]) == valid
              and (name, c20_domain._key(v)) not in DOC_UNDECIDED]
        return rng.choice(vs)

    for _ in range(n):
        k = rng.choice([2, 2, 3, 4])
        ns = rng.sample(names, k)
        good = [(x, pick(x, True)) for x in ns[:-1]]
        if rng.random() < 0.3:
            bad = (rng.choice(c20_domain.BOGUS_NAMES), True)
        else:
            bad = (ns[-1], pick(ns[-1], False))
        eid = rng.choice(R.OPT_IDS)
        for pos in range(len(good) + 1):
            items = good[:pos] + [bad] + good[pos:]
            kw = dict(items)
            wit = {'kwargs': [[a, repr(b)] for a, b in items], 'bad_position': pos}
            ctx.count(['docmulti', wit['kwargs']], True)
            for api in ('set_options', 'options', 'edit'):
                R.reset_options()
                before = d.FST.get_options()
                ran = False
                try:
                    if api == 'set_options':
                        d.FST.set_options(**kw)
                    elif api == 'options':
                        with d.FST.options(**kw):
                            ran = True
                    else:
                        r = R.run_edit(eid, dict(kw), None)
                        if 'EXC ValueError: invalid' in r:
                            raise ValueError(r)
                    rejected = False
                except ValueError:
                    rejected = not ran
                except Exception:
                    rejected = not ran
                after = d.FST.get_options()
                if not rejected:
                    ctx.fail(f'C20|{api}|invalid-item-accepted', f'{api}(**{kw!r}) is accepted although item {pos} '
                             f'({bad[0]}={bad[1]!r}) is not a valid option/value', dict(wit, api=api))
                if list(after.items()) != list(before.items()) or d.enc_map(after) != d.enc_map(before):
                    ctx.fail(f'C20|{api}|rejected-but-state-changed', f'{api}(**{kw!r}) changed the options', dict(wit, api=api))
        # control: without the bad item everything is accepted
        R.reset_options()
        try:
            old = d.FST.set_options(**dict(good))
            now = d.FST.get_options()
            if any(d.enc(now[a]) != d.enc(b) for a, b in good):
                ctx.fail('C20|set_options|valid-not-set', f'set_options(**{dict(good)!r}) did not set the values', {'kwargs': repr(good)})
        except Exception as e:
            ctx.fail('C20|set_options|documented-valid-rejected', f'set_options(**{dict(good)!r}) raised {e!r}', {'kwargs': repr(good)})
    R.reset_options()


def _shape_programs(rng, n):
    """programs aimed at the four clauses: a bad key at every position of a set / block; a raise at every position of a
    block body (nested); per-call options followed by a plain call"""
    d = R.dom()
    g = R.Gen(rng, tables())
    out = []
    for _ in range(n):
        c = rng.random()
        pre = ['set', g.kvs('set', 0.0)]
        if c < 0.3:
            good = g.kvs('set', 0.0)
            while len(good) < 2:
                good = g.kvs('set', 0.0)
            names = {a for a, _ in good}
            for pos in range(len(good) + 1):
                nm = rng.choice([x for x in g.glob + g.other if x not in names])
                acc = g.accG.get(nm, [])
                badv = rng.choice([v for v in range(len(d.values)) if v not in acc])
                kv = good[:pos] + [[nm, badv]] + good[pos:]
                out.append([pre, ['catch', [['set', kv]]], ['catch', [['block', kv, [['set', g.kvs('set', 0.0)]]]]],
                            ['get', rng.choice(g.glob), []]])
        elif c < 0.75:
            body = g.stmts(2, rng.choice([2, 3, 4]))
            for pos in range(len(body) + 1):
                b = body[:pos] + [['raise']] + body[pos:]
                out.append([pre, ['catch', [['block', g.kvs('set', 0.0), b]]], ['get', rng.choice(g.glob), []]])
        else:
            eid = rng.choice(R.OPT_IDS + [R.PERSIST])
            out.append([pre, ['call', [], eid], ['call', g.kvs('call', 0.0), eid], ['call', [], eid],
                        ['catch', [['call', g.kvs('call', 0.9), eid]]], ['call', [], eid]])
    return out


def _focus_programs():
    """deterministic part: every mutable option value (lists accepted by `op`) x every op_side x every Compare edit,
    as a per-call object reused by three identical calls, as a block default and as a set default; every edit of the
    catalogue twice in a row with no options"""
    d = R.dom()
    g = R.Gen(random.Random(0), tables())
    out = []
    for L in g.op_lists:
        for side in g.sides or [None]:
            kv = [[g.n_op, L]] + ([[g.n_op_side, side]] if side is not None else [])
            for e in R.CMP_IDS:
                out.append([['call', kv, e], ['call', kv, e], ['call', kv, e]])
                out.append([['block', kv, [['call', [], e], ['call', [], e], ['call', [], e]]], ['get', g.n_op, []]])
                out.append([['set', kv], ['call', [], e], ['call', [], e], ['call', [], e], ['get', g.n_op, []]])
                out.append([['catch', [['block', kv, [['call', kv[:1], e], ['raise']]]]], ['call', kv, e]])
    for e in range(len(R.EDITS)):
        out.append([['call', [], e], ['call', [], e]])
    # entry points that set options internally (reconcile), made to fail midway: alone, inside the caller's own block
    # naming OTHER options, after a set; each followed by option-sensitive edits whose text the solo run fixes
    cut, wal, sd = R.EDIT_NAMES.index('cut_stmt'), R.EDIT_NAMES.index('walrus'), R.EDIT_NAMES.index('set_del')
    follow = [['call', [], cut], ['call', [], wal], ['call', [], sd]]
    blk = [kv for kv in ([d.name_code.get('elif_'), d.false_code if hasattr(d, 'false_code') else d.enc(False)],
                         [d.name_code.get('pep8space'), d.enc(1)]) if kv[0] is not None]
    for e in R.RECONCILE_IDS:
        out.append(follow + [['call', [], e]] + follow)
        out.append([['block', blk, [['call', [], e]] + follow]] + follow)
        out.append([['set', blk[:1]], ['call', [], e]] + follow + [['catch', [['block', blk[1:], [['call', [], e], ['raise']]]]]] + follow)
    # option-dependent READS on the thread's long-lived nodes: before / inside / after blocks (left normally and by
    # exception), around set_options, first read inside or outside, for every value of every option reads depend on
    acc = g.accG
    for nm in ('docstr', 'trivia', 'pars', 'norm', 'norm_get', 'set_norm'):
        if nm not in d.name_code:
            continue
        c = d.name_code[nm]
        for v in [v for v in acc.get(c, []) if c20_domain._is_plain(d.values[v])][:6]:
            kv = [[c, v]]
            for e in R.READ_IDS:
                rd = ['call', [], e]
                out.append([rd, ['catch', [['block', kv, [rd, ['raise']]]]], rd, ['set', kv], rd, rd])
                out.append([['block', kv, [rd, rd]], rd, ['catch', [['block', kv, [['raise']]]]], rd])
                out.append([['set', kv], rd, ['block', [[c, d.enc(d.fo._GLOBAL_OPTIONS_W_DEFAULTS[nm])]], [rd]], rd])
    return out


def _shape_case(prog):
    try:
        o = R.run_solo(prog)
        # a plain call before and after a call with per-call options (third clause, edit level)
        calls = [i for i, s in enumerate(prog) if s[0] == 'call' and not s[1]]
        same = None
        shaped = (len(prog) >= 4 and prog[0][0] == 'set' and prog[1][0] == 'call' and prog[3][0] == 'call'
                  and not prog[1][1] and not prog[3][1] and prog[1][2] == prog[3][2] and prog[2][0] == 'call')
        if shaped and len(calls) >= 3 and len(o['edits']) >= 3 and o['edits'][0][0] != R.PERSIST:
            same = o['edits'][0][1] == o['edits'][2][1]
        return {'anomalies': o['anomalies'], 'same': same, 'n': len(o['trace'])}
    except Exception:
        import traceback
        return {'harness_error': traceback.format_exc()[-600:]}
    finally:
        R.reset_options()


# -- threads, directly ------------------------------------------------------------------------------------------------

def _visibility_case(seed):
    """A sets defaults; B (started before) and C (started after) must see the library defaults; A's own view persists."""
    d = R.dom()
    rng = random.Random(seed)
    g = R.Gen(rng, tables())
    kv = g.kvs('set', 0.0)
    while not kv:
        kv = g.kvs('set', 0.0)
    kw = d.dec_kvs(kv)
    dflt = _dflt()
    seen = {}
    ev_set, ev_go = threading.Event(), threading.Event()

    def a():
        d.FST.set_options(**kw)
        seen['a1'] = d.enc_map(d.FST.get_options())
        ev_set.set()
        ev_go.wait(20)
        seen['a2'] = d.enc_map(d.FST.get_options())

    def b():
        seen['b0'] = d.enc_map(d.FST.get_options())
        ev_set.wait(20)
        seen['b1'] = d.enc_map(d.FST.get_options())
        with d.FST.options(**kw):
            pass
        seen['b2'] = d.enc_map(d.FST.get_options())

    def c():
        seen['c'] = d.enc_map(d.FST.get_options())

    R.reset_options()
    try:
        tb = threading.Thread(target=b, daemon=True)
        tb.start()
        ta = threading.Thread(target=a, daemon=True)
        ta.start()
        ev_set.wait(20)
        tc = threading.Thread(target=c, daemon=True)
        tc.start()
        tc.join(20)
        tb.join(20)
        seen['main'] = d.enc_map(d.FST.get_options())
        ev_go.set()
        ta.join(20)
        bad = [k for k in ('b0', 'b1', 'b2', 'c', 'main') if seen.get(k) != dflt]
        if seen.get('a1') != seen.get('a2') or seen.get('a1') is None:
            bad.append('a')
        changed = seen.get('a1') != dflt
        return {'bad': bad, 'kv': kv, 'changed': changed}
    finally:
        R.reset_options()


def _shared_read_case(arg):
    """two threads read the SAME unmodified node, each under its own thread defaults (A set an option, B did not);
    every read must equal the read of a fresh tree made by the reading thread"""
    kv, order = arg
    d = R.dom()
    F = d.FST
    bad = []
    try:
        R.reset_options()
        st = {}
        R._ro(F, st)                      # the shared tree
        ev = [threading.Event() for _ in range(4)]

        def reads(tag):
            for e in R.READ_IDS:
                if e in R.NO_OPTS_IDS:
                    sink = []
                    R.run_edit(e, {}, st, R.Chk(sink, False))
                    bad.extend([tag, R.EDIT_NAMES[e]] + a[1:] for a in sink)

        def a():
            F.set_options(**d.dec_kvs(kv))
            if order == 'a-first':
                reads('thread that set ' + _pretty(kv))
            ev[0].set()
            ev[1].wait(20)
            reads('thread that set ' + _pretty(kv) + ' (second round)')
            ev[2].set()

        def b():
            ev[0].wait(20)
            reads('thread at library defaults')
            ev[1].set()
            ev[2].wait(20)
            reads('thread at library defaults (second round)')

        ths = [threading.Thread(target=a, daemon=True), threading.Thread(target=b, daemon=True)]
        for t in ths:
            t.start()
        for t in ths:
            t.join(40)
        return {'bad': bad}
    except Exception:
        import traceback
        return {'harness_error': traceback.format_exc()[-600:]}
    finally:
        R.reset_options()


# -- nested option dicts: sub()/subn() copy_options / repl_options -----------------------------------------------------

def _sub_scenarios():
    from fst.match import M, MCall, MQSTAR
    return [
        ('copy-phase', 'y = f((a))\nz = f((b), c)\n', MCall(func='f', args=[M(arg=...), MQSTAR]), 'g(__FST_arg)'),
        ('repl-phase', 'y = f(a + b)\n', MCall(func='f', args=[M(arg=...)]), '__FST_arg * 2'),
        ('walrus', 'y = f((a := 1), b)\n', MCall(func='f', args=[M(arg=...), MQSTAR]), '[__FST_arg, (c)]'),
    ]


_SUB_KEYS = ['pars', 'pars_walrus']


def _phase_rule(top, given):
    """documented rule, plain Python: None = inherit the top-level options, a dict (also {}) = exactly that dict"""
    return top if given is None else given


def _run_sub(sc, top, copy_o, repl_o):
    d = R.dom()
    _, src, pat, repl = sc
    f = d.FST(src, 'exec')
    try:
        f.sub(pat, repl, copy_options=None if copy_o is None else d.dec_kvs(copy_o),
              repl_options=None if repl_o is None else d.dec_kvs(repl_o), **d.dec_kvs(top))
        return f.src
    except Exception as e:
        return R._exc(e)


def _sub_case(arg):
    """sub(top-level options, copy_options=C, repl_options=P) under block defaults D must equal the same call with each
    phase given, explicitly, the values the phase should see (rule applied to the option names in play; a missing name
    restated with the thread default)"""
    si, D, top, C, P = arg
    d = R.dom()
    sc = _sub_scenarios()[si]
    keys = [d.name_code[k] for k in _SUB_KEYS if k in d.name_code]
    try:
        R.reset_options()
        with d.FST.options(**d.dec_kvs(D)):
            cur = d.FST.get_options()

            def restate(given):
                res = dict(map(tuple, _phase_rule(top, given)))
                return [[k, res[k] if k in res else d.enc(cur[d.names[k]])] for k in keys]
            got = _run_sub(sc, top, C, P)
            ref = _run_sub(sc, top, restate(C), restate(P))
            views = {'copy': restate(C), 'repl': restate(P)}
        return {'got': got, 'ref': ref, 'views': views, 'snap_ok': R.at_defaults()}
    except Exception:
        import traceback
        return {'harness_error': traceback.format_exc()[-600:]}
    finally:
        R.reset_options()


def _pg(g):
    return 'None' if g is None else '{}' if not g else _pretty(g)


def _sub_sweep(ctx, full):
    d = R.dom()
    rng = random.Random(ctx.rng.random())
    tops = _assignments(_SUB_KEYS)
    c_pars = d.name_code['pars']
    acc = {n: vs for n, vs, _ in tables()[False]}
    givens = [None, []] + [[[c_pars, v]] for v in acc[c_pars]] + [[[d.name_code['pars_walrus'], d.true_code]]]
    Ds = [[]] + [[[c_pars, v]] for v in acc[c_pars]]
    jobs = []
    for si in range(len(_sub_scenarios())):
        for top in tops:
            for C in givens:
                for P in givens:
                    for D in (Ds if full else [rng.choice(Ds)]):
                        jobs.append((si, D, top, C, P))
    if not full:
        jobs = [j for j in jobs if j[3] in (None, []) or j[4] in (None, []) or rng.random() < 0.3]
    outs = pmap(_sub_case, jobs)
    # the model's resolution of what each phase sees (Lean) must be the rule used above
    cases, exp = [], []
    kind = lambda g: 'None' if g is None else '{}' if not g else 'dict'
    for (si, D, top, C, P), o in zip(jobs, outs):
        if 'harness_error' in o:
            ctx.brk('correspondence', 'C20.sub', o['harness_error'])
            return
        for ph, g in (('copy', C), ('repl', P)):
            cases.append({'f': 'C20.phase', 'defaults': D, 'top': top, 'given': g,
                          'keys': [k for k, _ in o['views'][ph]]})
            exp.append(o['views'][ph])
    ctx.compare('what a sub() phase sees (None / {} / dict x top-level x block default) vs Pfst.Options.phaseView', cases, exp)
    for (si, D, top, C, P), o in zip(jobs, outs):
        name = _sub_scenarios()[si][0]
        ctx.count(['sub', si, D, top, C, P], bool(top))
        ctx.tally('sub_phase_given', kind(C) + '/' + kind(P))
        if o['got'] != o['ref']:
            ctx.fail(f'C20|sub|phase-options-not-isolated|copy={kind(C)}|repl={kind(P)}',
                     f'sub() [{name}] with top-level options {_pretty(top) if top else "{}"}, copy_options='
                     f'{_pg(C)}, repl_options={_pg(P)} under block defaults '
                     f'{_pretty(D) if D else "{}"} gives {o["got"]!r}; with each phase given explicitly what it should see '
                     f'(copy {_pretty(o["views"]["copy"])}, repl {_pretty(o["views"]["repl"])}) it gives {o["ref"]!r}',
                     {'sub': si, 'defaults': D, 'top': top, 'copy_options': C, 'repl_options': P})
        if not o['snap_ok']:
            ctx.fail('C20|sub|options-not-restored', 'thread defaults changed by sub()', {'sub': si, 'defaults': D, 'top': top,
                                                                                       'copy_options': C, 'repl_options': P})
    ctx.notes['sub_phase_cases'] = len(jobs)


def _script(seed, rounds):
    """a deterministic edit script with its own option blocks; returns everything it observed"""
    d = R.dom()
    rng = random.Random(seed)
    g = R.Gen(rng, tables(), call_edits=list(range(len(R.EDITS))))
    progs = [g.program() for _ in range(rounds)]

    def body():
        out = []
        for p in progs:
            r = R.Runner()
            r.registry = False          # other threads are inside calls: the registry is legitimately non-empty
            o = r.top(p)
            out.append([o['trace'], o['exc'], o['final'], o['edits'], o['tree'], o['anomalies']])
            R.reset_options()
        return out
    return body


def _free_case(arg):
    """threads running freely (no lock-step), tiny switch interval: results must equal the solo results"""
    seed, nthreads, rounds = arg
    old = sys.getswitchinterval()
    try:
        bodies = [_script(seed * 31 + i, rounds) for i in range(nthreads)]
        solo = [R.run_in_fresh_thread(b) for b in bodies]
        sys.setswitchinterval(1e-6)
        res = [None] * nthreads
        start = threading.Barrier(nthreads)

        def work(i):
            start.wait(20)
            try:
                res[i] = bodies[i]()
            except BaseException as e:      # noqa
                res[i] = 'EXC ' + repr(e)

        ths = [threading.Thread(target=work, args=(i,), daemon=True) for i in range(nthreads)]
        for t in ths:
            t.start()
        for t in ths:
            t.join(120)
        sys.setswitchinterval(old)
        bad = []
        for i in range(nthreads):
            if res[i] != solo[i]:
                k = None
                if isinstance(res[i], list):
                    k = next((j for j, (x, y) in enumerate(zip(res[i], solo[i])) if x != y), None)
                bad.append([i, k, str(res[i][k] if k is not None else res[i])[:300], str(solo[i][k] if k is not None else '')[:300]])
            for rr in (res[i] if isinstance(res[i], list) else []):
                for a in rr[5]:
                    bad.append([i, 'anomaly', a])
        return {'bad': bad, 'registry': R.registry_size(), 'steps': sum(len(x[0]) for r in solo for x in r)}
    except Exception:
        import traceback
        return {'harness_error': traceback.format_exc()[-600:]}
    finally:
        sys.setswitchinterval(old)
        R.reset_options()


def _direct(ctx, scale):
    q = ctx.quick
    rng = random.Random(ctx.rng.random())
    n_doc = _doc_sweep(ctx)
    _trivia_product(ctx)
    ctx.notes['doc_domain_checks'] = n_doc
    _thread_default_sweep(ctx, full=not q or scale > 1)
    _shield_sweep(ctx, full=not q or scale > 1)
    _sub_sweep(ctx, full=not q or scale > 1)
    d = R.dom()
    sjobs = []
    for nm in ('docstr', 'trivia', 'pars'):
        c = d.name_code.get(nm)
        for v in [v for n, vs, _ in tables()[False] if n == c for v in vs if c20_domain._is_plain(d.values[v])][:5]:
            for order in ('a-first', 'b-first'):
                sjobs.append(([[c, v]], order))
    for (kv, order), o in zip(sjobs, pmap(_shared_read_case, sjobs, chunksize=1)):
        if 'harness_error' in o:
            ctx.brk('correspondence', 'C20.sweep.shared-read', o['harness_error'])
            break
        ctx.count(['shared-read', kv, order], True)
        for b in o['bad'][:2]:
            ctx.fail('C20|read|long-lived-node-differs-from-fresh-tree|two-threads',
                     f'{b[1]} on a node shared by two threads, read by the {b[0]} ({order}): ' + ' ; '.join(str(x)[:160] for x in b[2:]),
                     {'shared_read': kv, 'order': order})
    _doc_multi(ctx, rng, int((150 if q else 1500) * scale))
    progs = _focus_programs() + _shape_programs(rng, int((300 if q else 3000) * scale))
    outs = pmap(_shape_case, progs)
    for p, o in zip(progs, outs):
        if 'harness_error' in o:
            ctx.brk('correspondence', 'C20.sweep', o['harness_error'])
            break
        ctx.count(['shape', p], True)
        _report_anomalies(ctx, o['anomalies'], {'prog': p})
        if o['same'] is False:
            ctx.fail('C20|call|option-leaked|edit', 'a plain edit call gives a different text after the same call was made '
                     'with per-call options', {'prog': p})
    ctx.notes['shape_programs'] = len(progs)
    vis = pmap(_visibility_case, [rng.randrange(1 << 30) for _ in range(int((48 if q else 600) * scale))], chunksize=1)
    for v in vis:
        ctx.count(['vis', v['kv']], v['changed'])
        if v['bad']:
            ctx.fail('C20|thread|default-visible', f'option defaults set in one thread are seen elsewhere / lost: {v["bad"]}',
                     {'kvs': v['kv'], 'where': v['bad']})
    free = pmap(_free_case, [(rng.randrange(1 << 30), rng.choice([2, 3, 4]), 6 if q else 12)
                             for _ in range(int((32 if q else 400) * scale))], chunksize=1)
    steps = 0
    for f in free:
        if 'harness_error' in f:
            ctx.brk('correspondence', 'C20.sweep.free', f['harness_error'])
            break
        steps += f['steps']
        ctx.count(['free', f['steps'], steps], True)
        if f['bad']:
            ctx.fail('C20|thread|concurrent!=solo|free-running', 'threads editing their own trees with their own options obtain '
                     f'different results concurrently than alone: {json.dumps(f["bad"][0], default=str)[:300]}', {'bad': f['bad'][:3]})
        if f['registry']:
            ctx.fail('C20|registry|not-empty-after-call', '_MODIFYING keeps entries after all threads finished', {})
    ctx.notes['free_running_steps'] = steps


def sweep(ctx):
    _direct(ctx, 1.0)


def search(ctx):
    """Something broke: evaluate the property itself more widely, first on the disagreeing inputs."""
    for name, case in ctx.hints[:200]:
        progs = case.get('progs') if isinstance(case, dict) else None
        if progs is None and isinstance(case, list):
            progs = [case]
        for p in progs or []:
            o = _shape_case(p)
            _report_anomalies(ctx, o.get('anomalies', []), {'prog': p})
    if not [f for f in ctx.failures]:
        _direct(ctx, 4.0)


def replay(ctx, data):
    w = data.get('witness')
    if not w:
        print('replay file names a broken obligation, not an input:', [b for b in data.get('broken', [])][:3])
        return
    try:
        if 'progs' in w:
            o = _thread_case((w['progs'], w.get('seed', 0), w.get('sched')))
            if 'harness_error' in o:
                ctx.fail('replay', o['harness_error'][-300:], w)
                return
            for t, (r, s) in enumerate(zip(o['results'], o['solo'])):
                for a in r['anomalies']:
                    ctx.fail('replay', f'thread {t}: {a[0]}: ' + ' ; '.join(_pretty(x) for x in a[1:])[:400], w)
                if any(r[f] != s[f] for f in ('trace', 'exc', 'final', 'edits', 'tree')):
                    ctx.fail('replay', f'thread {t}: concurrent != solo', w)
        elif 'prog' in w:
            o = R.run_solo(w['prog'])
            for a in o['anomalies']:
                ctx.fail('replay', a[0] + ': ' + ' ; '.join(_pretty(x) for x in a[1:])[:400], w)
        elif 'defaults' in w:
            d = R.dom()
            what = w['what']
            eids = [R.EDIT_NAMES.index(what)] if what in R.EDIT_NAMES else []
            fns = [what] if what.startswith('_get_opt') else []
            o = _shield_case((fns, eids, w['call'], [w['defaults']]))
            for b in o.get('bad', []):
                ctx.fail('replay', f'{b[0]}: defaults {_pretty(b[1])} call {_pretty(b[2])}: {b[3][:100]!r} vs alone {b[4][:100]!r}', w)
        elif 'api' in w:
            d = R.dom()
            o = _api_case((w['option'], w['value']))
            for en, a, b in o.get('bad', []):
                if en == w['api']:
                    ctx.fail('replay', f'{en}: per-call {a[:120]!r} vs block default {b[:120]!r}', w)
        elif 'thread_default' in w:
            what = w['what']
            eids = [R.EDIT_NAMES.index(what)] if what in R.EDIT_NAMES else []
            fns = [what] if what.startswith('_get_opt') else []
            o = _thread_default_case((fns, eids, w['thread_default'], w['main_default'], [w['call']]))
            for b in o.get('bad', []):
                ctx.fail('replay', f'{b[0]}: {str(b[2])[:120]!r} vs pristine thread with per-call values {str(b[3])[:120]!r}', w)
        elif 'preempt' in w:
            p = w['preempt']
            r = PRE.run(R.dom().FST, p['src'], p['ka'], p['kb'], p['pa'], p['pb'])
            if r['res'] != r['solo'] or r['hung']:
                ctx.fail('replay', f'preempted at {r["where"]}: {r["res"]} vs alone {r["solo"]}', w)
        elif 'sub' in w:
            o = _sub_case((w['sub'], w['defaults'], w['top'], w['copy_options'], w['repl_options']))
            if o.get('got') != o.get('ref'):
                ctx.fail('replay', f'sub(): {o.get("got")!r} vs phases given explicitly {o.get("ref")!r}', w)
        elif 'shared_read' in w:
            o = _shared_read_case((w['shared_read'], w['order']))
            for b in o.get('bad', []):
                ctx.fail('replay', str(b)[:300], w)
        elif 'kvs' in w:
            v = _visibility_case(0)
            if v['bad']:
                ctx.fail('replay', str(v['bad']), w)
        elif 'name' in w or 'kwargs' in w:
            _doc_sweep(ctx)
            _trivia_product(ctx)
            _doc_multi(ctx, random.Random(0), 300)
        else:
            f = _free_case((1, 3, 8))
            if f.get('bad'):
                ctx.fail('replay', str(f['bad'][0])[:300], w)
    finally:
        R.reset_options()
