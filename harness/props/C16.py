"""C16 — scope analysis agrees with Python's own symbol table."""

import ast
import itertools
import random
import symtable
import warnings

import c16_finddef as FD
import c16_gen
import c16_lib as L
import corpus
import util
from framework import pmap

ID = 'C16'
LEAN_MODULES = ['Pfst.Props.C16']
THEOREMS = [
    'Pfst.C16.scopeWalk_eq_spec_partial', 'Pfst.C16.ownedWalk_eq_owned', 'Pfst.C16.scopeWalk_filtered',
    'Pfst.C16.scopeWalk_back_perm', 'Pfst.C16.scopeWalk_back_eq_spec', 'Pfst.C16.scopeWalk_replace', 'Pfst.C16.scopeWalk_asts',
    'Pfst.C16.scopes_partition', 'Pfst.C16.symbols_partial', 'Pfst.C16.scopeWalk_false_lambdaWalrus',
    'Pfst.Scope.walkRoot_eq', 'Pfst.Scope.step_ok', 'Pfst.Scope.mStep_snd', 'Pfst.Scope.mStep_emit', 'Pfst.Scope.fold_sym',
]
RULE = ('programs = hand-written scope programs (c16_gen.FIXED: every binder kind, every expression kind as first iterable, '
        'walrus/lambda/comprehension nestings, PEP 695 forms) + random scope-heavy programs (c16_gen.SGen: nested '
        'def/class/lambda/comprehension, global/nonlocal, imports, augmented assignment, except-as, match captures, walrus, '
        'type parameters, decorators/defaults/annotations) + harness/corpus.py programs and stdlib files.  One evaluation = '
        'one scope (module/def/class/lambda/comprehension) of one program: (a) correspondence: real walk(True, scope=True, '
        'self_=False) as ordered preorder ids, walk(all=_ASTS_LEAF_SCOPE_SYMBOLS) and scope_symbols(full=True) name sets vs the '
        'Lean model on the translated tree; (b) sweep: real walk node set vs a reference scope analysis written from the '
        'language reference over plain ast, real scope_symbols vs that reference and vs symtable.symtable of the same '
        'program (comprehension displays rewritten as generator expressions to undo PEP 709 inlining).  distinct = distinct '
        '(program, scope); non-trivial = the scope has a nested scope, a header part or a declaration.  Round 3: every walk '
        'in BOTH directions (set(back) == set(forward) == reference); a deterministic product of header parts x '
        'generic x decorated x def/async def/class/lambda x nesting (c16_gen.product_programs, 156 programs) and '
        'corpus.hard_snippets(); scope walks during which yielded nodes are replaced by a node of another scope kind '
        '(deterministic kind x kind product on c16_gen.MUT_TEMPLATES + 2 random mutated walks per program), judged on the '
        'final source and compared with the model walk of the final tree.  Round 5/6: `type` statements with bounded / '
        'constrained type parameters x place (c16_gen.typealias_programs); every binding / declaring / reading form x '
        'identifiers with a special look (_, __, dunder, private, soft keywords, non-ASCII, builtins) x place '
        '(c16_gen.name_programs, ~2000 tiny programs, run first)')
TRUSTED = [
    'modelled: _ScopeContext.create/stack_funcdef/stack_ClassDef/stack_Lambda/stack_arguments/stack_arg/stack_type_param/'
    'stack_comprehension/walk_Comp and the scope branch of walk (forward and back=True, on="enter", no send(); replacement of '
    'the yielded node: class re-read after the yield); scope_symbols(full=True, local=True, free=True, import_star=False) as '
    'names per class',
    'asts=: modelled and swept for asts = all children of the scope node (walk root = that node); find_def() is swept against '
    'the reference (plain / kind prefix / recurse=False / dotted paths / asts= slices of the body, all with prev_found '
    'iteration), not modelled in Lean',
    'scope_symbols(full=False): its key set is compared with the union of the five classes of the reference (not modelled in Lean)',
    'not modelled: send(), on="leave"/"both", node lists (only names) of scope_symbols, full=False, '
    'import_star=True; the ORDER of the yielded nodes (compared with the model and tallied as walk_order, not judged: a '
    'comprehension root\'s multiple `if`s come last-to-first in the forward walk, bases and keywords of a nested class are not '
    'interleaved); walks are compared as node sets',
    'walks with replacement: only replacements of the node just yielded, by an expression (Name/Call/Lambda/comprehensions) '
    'or def<->class, at most 3 per walk; judged on the final source (reference analysis of ast.parse(final)) when the final '
    'tree equals a from-scratch parse (else skipped, tallied); replacements pfst refuses are skipped',
    'the translation of real trees into the model syntax (c16_lib.to_model) uses pfst\'s syntax_ordered_children for child order',
    'load-folded: the names READ in a scope are additionally compared with symtable with the PEP 695 annotation-scope tables nested '
    'in the scope folded in (no soft exclusion; type-parameter names left out)',
    'PEP 695 annotation scopes are not scopes pfst knows; spec and reference follow the pfst documentation (type-parameter '
    'bounds, annotations, bases, keywords -> enclosing scope; type parameters -> the def\'s own scope; `type X[T] = v` walked as '
    'ordinary children).  Against symtable every name of a scope that occurs in such a region is left out (tallied soft_skipped)',
    'symtable mapping: store∪del = assigned∪parameter∪imported; load ⊇ referenced and load−referenced ⊆ augmented-assignment '
    'targets; global/nonlocal = declared; local = is_local ∩ store; free = referenced ∧ not bound/declared.  Implicit names '
    '(.0, .defaults, __class__, __classdict__, __type_params__ ...) that neither side names explicitly are ignored; walrus '
    'names of a comprehension scope are compared with the reference only (pfst documents them as store+free there)',
    'at module scope the `global` class is not compared with symtable (CPython flags module names declared global in any '
    'nested function), nor are names bound there by a walrus inside a comprehension (flagged DEF_GLOBAL, not assigned); both '
    'are compared with the reference',
    'table/scope pairing by (kind, name, line); several same-line lambdas/generators under one parent are paired only if exactly '
    'one assignment is consistent with the reference (bound names, all names), else skipped (tallied pair_skipped)',
    'private names: pfst reports source identifiers; they are mangled (_Class__x) before the comparison with symtable',
    'owned r = {n | scopeOf n = r.id} is evaluated by the driver on every tree (spec_consistency), not proved',
]
ASSUMPTIONS = ['hypothesis goodRoot of the theorems is evaluated by the Lean driver on every scope (tallied good)',
               'CPython 3.12 symtable is the judge for names and flags; the language reference (4.2, 6.2.4, 6.12, 8.7, 8.8) for '
               'node membership']
LEVEL_TEXT = ('Lean 4 theorems about an executable model of walk(scope=True) and scope_symbols: the model walk equals the '
              'declarative scope assignment on every tree passing a computable side condition (any size/nesting), the symbol '
              'classes equal the binding-form classification (all binder kinds, any `all` filter); one machine-checked '
              'counterexample for the case where the property is false.  Tied to /repo by running model and code on the '
              'same trees every run; spec tied to CPython symtable and an independent reference.')
LEVEL_NOTE = ('Theorems are about the model; the tie is differential.  The property is still FALSE for a walrus under a lambda '
              'inside a comprehension (known finding C16-F3); capture binders (F1) and non-Name first iterables (F2) were '
              'repaired and are now covered by the positive theorems and the sweep.')
TECHNIQUE = 'Lean 4 proof (simulation of two transition tables, finite check by kernel evaluation) + correspondence + symtable oracle'

IMPLICIT = {'__class__', '__classdict__', '__type_params__', '__conditional_annotations__', '__annotate__'}
LEAFS = (ast.expr_context, ast.operator, ast.boolop, ast.unaryop, ast.cmpop)   # CPython shares these objects: no identity
CAPTURE = {'ExceptHandler.name', 'MatchAs.name', 'MatchStar.name', 'MatchMapping.rest'}
warnings.simplefilter('ignore', SyntaxWarning)


# ---- reference with the cause tags the failure classification needs -------------------------------------------------------

class TagRef(L.Ref):
    """reference analysis + for every event: is it below a non-Name first iterable (F4), is a walrus target below a lambda
    inside a comprehension (walk_Comp leak)"""

    def __init__(self, tree):
        self.fi = []            # stack of (scope, kind of the non-Name first iterable)
        self.fi_events = {}     # (id(scope), cls, name) -> [tag or None per event]
        self.leak = {}          # id(scope that wrongly gets it) -> {name: [target nodes]}
        self.path = []          # enclosing scope-defining nodes
        super().__init__(tree)

    def ev(self, sc, cls, name, what, soft=False):
        super().ev(sc, cls, name, what, soft)
        tag = next((k for s, k in self.fi if s is sc), None)
        self.fi_events.setdefault((id(sc), cls, name), []).append(tag)

    def visit(self, n, sc, soft):
        if isinstance(n, L.COMPS):
            it = n.generators[0].iter
            push = not isinstance(it, ast.Name)
            # replicate super().visit for comps with the tag active during the first iterable
            if push:
                self.own(n, sc, soft)
                inner = self.new_scope(n, sc)
                self.path.append(n)
                for i, g in enumerate(n.generators):
                    self.own(g, inner, False)
                    self.visit(g.target, inner, False)
                    if i == 0:
                        self.path.pop()
                        self.fi.append((sc, type(it).__name__))
                        self.visit(g.iter, sc, soft)
                        self.fi.pop()
                        self.path.append(n)
                    else:
                        self.visit(g.iter, inner, False)
                    for c in g.ifs:
                        self.visit(c, inner, False)
                for e in ([n.key, n.value] if isinstance(n, ast.DictComp) else [n.elt]):
                    self.visit(e, inner, False)
                self.path.pop()
                return
        if isinstance(n, L.SCOPES):
            self.path.append(n)
            try:
                return super().visit(n, sc, soft)
            finally:
                self.path.pop()
        if isinstance(n, ast.NamedExpr):
            # lambda inside a comprehension chain: walk_Comp of every comprehension above the lambda hands the target up
            p = self.path
            for j in range(len(p) - 1, -1, -1):
                if isinstance(p[j], ast.Lambda) and j > 0 and isinstance(p[j - 1], L.COMPS):
                    k = j - 1
                    while k > 0 and isinstance(p[k - 1], L.COMPS):
                        k -= 1
                    top = p[k - 1] if k > 0 else self.tree
                    self.leak.setdefault(id(top), {}).setdefault(n.target.id, []).append(n.target)
                    for q in p[k:j]:   # and a walk started on one of those comprehensions
                        self.leak.setdefault(id(q), {}).setdefault(n.target.id, []).append(n.target)
                    break
                if not isinstance(p[j], L.COMPS + (ast.Lambda,)):
                    break
        return super().visit(n, sc, soft)

    def visit_arguments(self, a, sc, inner, soft, generic):
        # defaults / annotations of a def or lambda are evaluated outside it
        top = self.path.pop()
        try:
            super().visit_arguments(a, sc, inner, soft, generic)
        finally:
            self.path.append(top)


def _mangle(name, cls):
    """CPython's private-name mangling (the symbol table of anything inside a class body records the mangled name)"""
    if cls is None or not name.startswith('__') or name.endswith('__') or '.' in name:
        return name
    c = cls.lstrip('_')
    return f'_{c}{name}' if c else name


def _names_of(d):
    return {k: sorted(v) for k, v in d.items()}


# ---- one program ---------------------------------------------------------------------------------------------------------

def _real(src):
    """pfst on the program: model case + per-scope walks and symbols"""
    from fst import FST
    import fst.fst as fstmod
    root = FST(src, 'exec')
    tree, ids, nodes, names = L.to_model(root.a, util.soc)
    nm = {n: i for i, n in enumerate(names)}
    flt = getattr(fstmod, '_ASTS_LEAF_SCOPE_SYMBOLS', None)
    scopes = []
    for n in nodes:
        if n is root.a or isinstance(n, L.SCOPES):
            f = n.f
            multi = isinstance(n, L.COMPS) and any(len(g.ifs) > 1 for g in n.generators)
            w = [ids[id(g.a)] for g in f.walk(True, self_=False, scope=True)]
            ws = [ids[id(g.a)] for g in f.walk(flt, self_=False, scope=True)] if flt is not None else None
            wb = [ids[id(g.a)] for g in f.walk(True, self_=False, scope=True, back=True)]
            wsb = [ids[id(g.a)] for g in f.walk(flt, self_=False, scope=True, back=True)] if flt is not None else None
            wa = None
            if n is not root.a:
                kids = [c for c in util.soc(n)]
                wa = [ids[id(g.a)] for g in f.walk(True, scope=True, asts=kids)]
            ss = f.scope_symbols(full=True)
            scopes.append({'walk_asts': wa, 'flat': sorted(f.scope_symbols()),'id': ids[id(n)], 'multi': multi, 'walk': w, 'walk_sym': ws, 'walk_back': wb, 'walk_sym_back': wsb,
                           'syms': {k: sorted(nm[x] for x in v) for k, v in ss.items()},
                           'names': {k: sorted(v) for k, v in ss.items()}})
    return {'f': 'C16.scopes', 'tree': tree}, scopes, ids, nodes, names, root


def _pair_tables(tb, sc, out, tally):
    """pair symtable table `tb` with reference scope `sc` (on the un-inlined tree), recursively"""
    out.append((tb, sc))
    kids_t = L.table_children(tb)
    groups_t, groups_s = {}, {}
    for t, _ in kids_t:
        groups_t.setdefault((t.get_name(), t.get_lineno()), []).append(t)
    for s in sc.kids:
        n = s.node
        name = n.name if isinstance(n, L.SCOPE_DEF) else 'lambda' if isinstance(n, ast.Lambda) else 'genexpr'
        groups_s.setdefault((name, n.lineno), []).append(s)
    for key, ss in groups_s.items():
        ts = groups_t.get(key, [])
        if len(ts) != len(ss):
            tally['pair_skipped'] = tally.get('pair_skipped', 0) + len(ss)
            continue
        if len(ss) == 1:
            _pair_tables(ts[0], ss[0], out, tally)
            continue
        if len(ss) > 4:
            tally['pair_skipped'] = tally.get('pair_skipped', 0) + len(ss)
            continue
        # same line, same name: visit order first, else any permutation whose explicit names agree
        def sig_t(t):
            d = L.sym_classes(t)
            return (frozenset(x for x in d['assigned'] | d['param'] | d['imported'] if x not in IMPLICIT),
                    frozenset(s.get_name() for s in t.get_symbols() if not s.get_name().startswith('.') and s.get_name() not in IMPLICIT))

        def sig_s(s):
            alln = frozenset(x for c in ('load', 'store', 'del', 'global', 'nonlocal') for x in s.ev[c]) | frozenset(s.ev.get('walrus', ()))
            return (frozenset(s.ev['store']) | frozenset(s.ev['del']) | frozenset(s.ev.get('walrus', ())), alln)

        perms = [perm for perm in itertools.permutations(range(len(ss)))
                 if all(sig_t(ts[i]) == sig_s(ss[p]) for i, p in enumerate(perm))]
        done = len(perms) == 1
        if done:
            for i, p in enumerate(perms[0]):
                _pair_tables(ts[i], ss[p], out, tally)
        if not done:
            tally['pair_skipped'] = tally.get('pair_skipped', 0) + len(ss)


def _kindname(n):
    return type(n).__name__


def _parent_field(root_ast, node):
    """'<ParentClass>.<field>' of `node` (plain ast, for failure signatures)"""
    for p in ast.walk(root_ast):
        for fld, v in ast.iter_fields(p):
            if v is node or (isinstance(v, list) and any(x is node for x in v)):
                gp = ''
                if isinstance(p, (ast.arguments, ast.arg, ast.keyword) + L.TYPE_PARAMS):
                    gp = _parent_field(root_ast, p).split('.')[0] + '>'
                return f'{gp}{type(p).__name__}.{fld}'
    return '?'


def _walk_check(ref, sc, walk_ids, to_id, nodes, tree, fail, prefix):
    """the node set of one scope walk against the reference scope `sc` (non-leaf nodes)"""
    n = sc.node
    exp = {to_id[id(m)] for m in sc.nodes if not isinstance(m, LEAFS)}
    allowed = set()
    if sc.is_comp:      # documented quirk: a walk started on a comprehension yields its walrus targets
        for m in ast.walk(n):
            if isinstance(m, ast.NamedExpr) and ref.scope_of.get(id(m)) is not None:
                s2 = ref.scope_of[id(m)]
                while s2 is not None and s2 is not sc and s2.is_comp:
                    s2 = s2.parent
                if s2 is sc:
                    allowed.add(to_id[id(m.target)])
    real = {i for i in walk_ids if not isinstance(nodes[i], LEAFS)}
    leak_ids = set()
    for nm_, tg in ref.leak.get(id(n), {}).items():
        for t in tg:
            leak_ids.add(to_id[id(t)])
    missing = exp - real
    extra = real - exp - allowed
    if extra & leak_ids:
        fail('C16|walk|walrus-under-lambda-in-comp|extra-node',
             'scope walk yields a walrus target that binds in a lambda nested in a comprehension', n,
             {'extra_ids': sorted(extra & leak_ids)})
        extra -= leak_ids
    if missing or extra:
        inv = {v: k for k, v in to_id.items()}
        objs = {id(x): x for x in ast.walk(tree)}
        mk = sorted(_kindname(objs[inv[i]]) for i in missing)[:3]
        ek = sorted(_kindname(objs[inv[i]]) for i in extra)[:3]
        fail(f'C16|{prefix}|{_kindname(n)}|{"missing:" + mk[0] if mk else "extra:" + ek[0]}',
             f'scope walk node set differs from the language reference: missing {mk} extra {ek}', n,
             {'missing': sorted(missing)[:10], 'extra': sorted(extra)[:10]})


# ---- walk with replacement ----------------------------------------------------------------------------------------------

_NOREPL_PARENTS = (ast.JoinedStr, ast.FormattedValue, ast.pattern, ast.match_case, ast.TypeAlias, ast.Starred, ast.keyword)


def _eligible(g):
    """may the yielded node be replaced by an arbitrary expression / def / class"""
    a = g.a
    p = g.parent.a if g.parent else None
    if isinstance(a, (ast.FunctionDef, ast.ClassDef)):
        return 'stmt'
    if p is None or isinstance(p, _NOREPL_PARENTS) or isinstance(p, L.TYPE_PARAMS) or isinstance(p, ast.arg):
        return None
    if isinstance(a, ast.Name):
        return 'expr' if isinstance(a.ctx, ast.Load) else None
    if isinstance(a, (ast.Call, ast.Lambda) + L.COMPS):
        if isinstance(p, (ast.With, ast.AsyncWith, ast.withitem, ast.Delete, ast.AugAssign, ast.AnnAssign, ast.For, ast.AsyncFor)):
            return None
        if isinstance(p, (ast.Assign,)) and any(a is t for t in p.targets):
            return None
        return 'expr'
    return None


def _mutated_walk(src, scope_index, plan, rng):
    """walk scope number `scope_index` (preorder among scope nodes) with scope=True and replace yielded nodes.
    `plan` = None: random replacements; or (target class name, replacement class name): replace the first yielded node of
    that class.  Returns dict or None."""
    from fst import FST
    root = FST(src, 'exec')
    scs = [n for n in ast.walk(root.a) if isinstance(n, (ast.Module,) + L.SCOPES)]
    # preorder instead of ast.walk's breadth first
    pre = []
    def go(n):
        if isinstance(n, (ast.Module,) + L.SCOPES):
            pre.append(n)
        for c in ast.iter_child_nodes(n):
            go(c)
    go(root.a)
    if scope_index >= len(pre):
        return None
    scope = pre[scope_index].f
    orig = {id(f) for f in scope.walk(True)}
    yielded = []
    repls = []
    for g in scope.walk(True, self_=False, scope=True):
        yielded.append(g)
        if id(g) not in orig or len(repls) >= 3:
            continue
        el = _eligible(g)
        if not el:
            continue
        cls = type(g.a).__name__
        if plan is not None:
            if cls != plan[0] or repls:
                continue
            new = plan[1]
        else:
            if rng.random() > 0.35:
                continue
            pool = ['FunctionDef', 'ClassDef'] if el == 'stmt' else ['Name', 'Call', 'Lambda', 'ListComp', 'GeneratorExp', 'DictComp']
            new = rng.choice([k for k in pool if k != cls])
        if (el == 'stmt') != (new in ('FunctionDef', 'ClassDef')):
            continue
        try:
            g.replace(c16_gen.REPLACEMENTS[new])
        except Exception as e:       # refused replacement (syntax restrictions): not this property's business
            if type(e).__name__ in ('NodeError', 'ValueError', 'SyntaxError', 'ParseError', 'NotImplementedError'):
                continue
            raise
        repls.append([cls, new, getattr(g, 'ln', None)])
    if not repls:
        return None
    return {'root': root, 'scope': scope, 'yielded': yielded, 'repls': repls}


def _mutation_case(src, scope_index, plan, seed, res):
    """one walk with replacement, judged on the FINAL source; appends to res['fails'] / res['mut']"""
    rng = random.Random(seed)
    tally = res['tally']
    wit = {'src': src, 'mutation': {'scope_index': scope_index, 'plan': plan, 'seed': seed}}
    try:
        m = _mutated_walk(src, scope_index, plan, rng)
    except Exception as e:
        import traceback
        tb = traceback.extract_tb(e.__traceback__)
        where = tb[-1].name if tb else '?'
        wit['scope'] = ['?', 0, 0]
        res['fails'].append((f'C16|walk-replace|raised|{type(e).__name__}@{where}',
                             f'walk(scope=True) raised {type(e).__name__}: {str(e)[:120]} after the consumer replaced a yielded node', wit))
        return
    if m is None:
        return
    root, scope = m['root'], m['scope']
    final = root.src
    wit['final_src'] = final
    wit['replaced'] = m['repls']
    try:
        tree2 = ast.parse(final)
    except SyntaxError:
        tally['mut_final_unparsable'] = tally.get('mut_final_unparsable', 0) + 1
        return
    if ast.dump(tree2) != ast.dump(root.a):
        tally['mut_tree_mismatch'] = tally.get('mut_tree_mismatch', 0) + 1     # C01's business
        return
    mtree, ids, nodes, names = L.to_model(root.a, util.soc)
    to_id = {}
    for a, b in zip(ast.walk(tree2), ast.walk(root.a)):
        if not isinstance(a, LEAFS):
            to_id[id(a)] = ids[id(b)]
    ref = TagRef(tree2)
    sid = ids[id(scope.a)]
    sc = next((s for s in ref.order if to_id[id(s.node)] == sid), None)
    if sc is None:
        return
    got = [ids[id(g.a)] for g in m['yielded'] if g.a is not None and id(g.a) in ids]
    wit['scope'] = [_kindname(sc.node), getattr(sc.node, 'lineno', 0), getattr(sc.node, 'col_offset', 0)]

    def fail(sig, what, scope_node, extra=None):
        w = dict(wit)
        if extra:
            w.update(extra)
        res['fails'].append((sig, what + f' [after replacing {m["repls"]}]', w))

    kinds = '->'.join(m['repls'][0][:2])
    _walk_check(ref, sc, got, to_id, nodes, tree2, fail, f'walk-replace|{kinds}')
    res['mut'].append({'case': {'f': 'C16.scopes', 'tree': mtree}, 'scope': sid, 'got': sorted(set(got)), 'src': src, 'final': final,
                       'repls': m['repls']})
    tally['mutated_walks'] = tally.get('mutated_walks', 0) + 1
    tally['replacements'] = tally.get('replacements', 0) + len(m['repls'])


def _program(arg):
    """everything for one program, in a worker: model case, real outputs, sweep failures (as plain data)"""
    src, mseed, plan = (tuple(arg) + (None, None))[:3]
    res = {'src': src, 'case': None, 'scopes': None, 'fails': [], 'tally': {}, 'nscopes': 0, 'mut': []}
    tally = res['tally']
    try:
        case, scopes, ids, nodes, names, root = _real(src)
    except SyntaxError:
        return res
    except Exception as e:
        import traceback
        tb = traceback.extract_tb(e.__traceback__)
        where = next((t.name for t in reversed(tb) if '/fst/' in t.filename), '?')
        res['fails'].append((f'C16|walk|raised|{type(e).__name__}@{where}',
                             f'walk(scope=True) / scope_symbols() raised {type(e).__name__}: {str(e)[:160]}',
                             {'src': src, 'scope': ['?', 0, 0]}))
        res['raised'] = True
        return res
    res['case'] = case
    res['scopes'] = scopes
    res['nscopes'] = len(scopes)
    # --- reference over an independent parse; nodes paired with pfst's tree by ast.walk order
    tree = ast.parse(src)
    ref = TagRef(tree)
    to_id = {}
    for a, b in zip(ast.walk(tree), ast.walk(root.a)):
        assert type(a) is type(b)
        if not isinstance(a, LEAFS):
            to_id[id(a)] = ids[id(b)]
    by_id = {s['id']: s for s in scopes}
    ctxs = (ast.Load, ast.Store, ast.Del)

    def fail(sig, what, scope_node, extra=None):
        w = {'src': src, 'scope': [_kindname(scope_node), getattr(scope_node, 'lineno', 0), getattr(scope_node, 'col_offset', 0)]}
        if extra:
            w.update(extra)
        res['fails'].append((sig, what, w))

    # --- (0) walks during which the consumer replaces yielded nodes
    if plan is not None:
        _mutation_case(src, plan[0], tuple(plan[1:]), 0, res)
    elif mseed is not None:
        r0 = random.Random(mseed)
        for _ in range(2):
            _mutation_case(src, r0.randrange(len(scopes)), None, r0.randrange(1 << 30), res)

    # --- (1) walk node sets vs reference, both directions
    for sc in ref.order:
        rs = by_id[to_id[id(sc.node)]]
        _walk_check(ref, sc, rs['walk'], to_id, nodes, tree, fail, 'walk')
        fw = {i for i in rs['walk'] if not isinstance(nodes[i], LEAFS)}
        bw = {i for i in rs['walk_back'] if not isinstance(nodes[i], LEAFS)}
        if fw != bw or set(rs['walk']) != set(rs['walk_back']):
            d = sorted(set(rs['walk']) ^ set(rs['walk_back']))
            par = _parent_field(root.a, nodes[d[0]])
            fail(f'C16|walk-back|{_kindname(sc.node)}|{par}',
                 f'walk(scope=True, back=True) and the forward scope walk yield different node sets: {"only forward" if d[0] in fw or d[0] in rs["walk"] else "only backward"} '
                 f'{[_kindname(nodes[i]) for i in d[:4]]} (first differing node sits in {par})', sc.node, {'diff_ids': d[:10]})
        if rs['walk_sym'] is not None and set(rs['walk_sym']) != set(rs['walk_sym_back']):
            d = sorted(set(rs['walk_sym']) ^ set(rs['walk_sym_back']))
            fail(f'C16|walk-back|{_kindname(sc.node)}|{_parent_field(root.a, nodes[d[0]])}',
                 f'filtered scope walk differs between directions: {[_kindname(nodes[i]) for i in d[:4]]}', sc.node, {'diff_ids': d[:10]})
        tally['walk_scopes'] = tally.get('walk_scopes', 0) + 1

    # --- (1b) walk(scope=True, asts=<children of the scope node>): nothing of the node itself is excluded
    for sc in ref.order:
        n = sc.node
        rs = by_id[to_id[id(n)]]
        if rs['walk_asts'] is None:
            continue
        both = (sc, sc.parent)
        exp = {to_id[id(m)] for m in ast.walk(n) if m is not n and not isinstance(m, LEAFS) and ref.scope_of.get(id(m)) in both}
        leak_ids = {to_id[id(t)] for s_ in both if s_ is not None for tg in ref.leak.get(id(s_.node), {}).values() for t in tg}
        real = {i for i in rs['walk_asts'] if not isinstance(nodes[i], LEAFS)}
        allowed = set()     # "(except Comprehension NamedExpr.target)": walrus targets reached through comprehensions only
        for m in ast.walk(n):
            if isinstance(m, ast.NamedExpr) and ref.scope_of.get(id(m)) is not None:
                s2 = ref.scope_of[id(m)]
                while s2 is not None and s2 not in both and s2.is_comp:
                    s2 = s2.parent
                if s2 in both:
                    allowed.add(to_id[id(m.target)])
        missing, extra = exp - real, real - exp - leak_ids - allowed
        if missing or extra:
            d = sorted(missing | extra)
            fail(f'C16|walk-asts|{_kindname(n)}|{"missing" if missing else "extra"}:{_parent_field(root.a, nodes[d[0]])}',
                 f'walk(scope=True, asts=children) of {_kindname(n)}: missing {[_kindname(nodes[i]) for i in sorted(missing)[:3]]} '
                 f'extra {[_kindname(nodes[i]) for i in sorted(extra)[:3]]}', n, {'missing': sorted(missing)[:10], 'extra': sorted(extra)[:10]})
        tally['asts_walks'] = tally.get('asts_walks', 0) + 1

    # --- (1c) find_def() against the reference: candidates = def/class statements belonging to the scope, source order
    if mseed is not None or plan is None:
        r1 = random.Random(mseed if mseed is not None else 1)
        inv_nodes = {id(a): b for a, b in zip(ast.walk(tree), ast.walk(root.a))}
        for (sc, parts, recurse, within, variant) in FD.cases_for(ref, r1, 24 if len(src) < 6000 else 8):
            exp = [to_id[id(d)] for d in FD.resolve_all(ref, sc, parts, recurse, within)]
            f = inv_nodes[id(sc.node)].f
            kw = {'recurse': recurse}
            if within is not None:
                kw['asts'] = [inv_nodes[id(w)] for w in within]
            path = '.'.join(parts)
            w = {'find_def': {'path': path, 'recurse': recurse, 'asts_lines': [x.lineno for x in within] if within else None}}
            try:
                got = [ids[id(g.a)] for g in FD.enumerate_impl(f, path, len(exp) + 3, **kw)]
            except Exception as e:
                fail(f'C16|find_def|{variant}|raised:{type(e).__name__}', f'find_def({path!r}, recurse={recurse}) raised {e!r}', sc.node, w)
                continue
            tally['find_def'] = tally.get('find_def', 0) + 1
            if got != exp:
                cls = ('first' if (got[:1] != exp[:1]) else 'iteration')
                w['find_def'].update({'expected_ids': exp, 'got_ids': got})
                fail(f'C16|find_def|{variant}|{cls}',
                     f'find_def({path!r}, recurse={recurse}{", asts=..." if within else ""}) enumerates {got}, the definitions belonging to the '
                     f'scope in source order are {exp}', sc.node, w)

    # --- (2) scope_symbols vs reference classes
    for sc in ref.order:
        n = sc.node
        rs = by_id[to_id[id(n)]]
        got = {k: set(v) for k, v in rs['names'].items()}
        exp, walrus = ref.classes(sc)
        if sc.is_comp and walrus:       # pfst documents walrus targets of a comprehension as store + free there
            exp['store'] |= walrus
            exp['free'] |= walrus
            exp['local'] -= walrus
        leak = set(ref.leak.get(id(n), {}))
        # full=False: "a simple dictionary of all the symbol names"
        exp['flat'] = exp['load'] | exp['store'] | exp['del'] | exp['global'] | exp['nonlocal']
        got['flat'] = set(rs['flat'])
        sigs = {}
        for cls in L.CLASSES7 + ('flat',):
            for name in sorted(exp[cls] ^ got.get(cls, set())):
                miss = name in exp[cls]
                binders = set(sc.ev['store'].get(name, ()))
                tags = ref.fi_events.get((id(sc), 'load', name), [])
                if binders and binders <= CAPTURE and ((miss and cls in ('store', 'local', 'flat')) or (not miss and cls == 'free')):
                    b = sorted(binders)[0]
                    sig = f'C16|scope_symbols|{b}|missing-store'
                elif miss and cls in ('load', 'free', 'flat') and tags and all(tags):
                    sig = f'C16|scope_symbols|comp-first-iter-{tags[0]}|missing-load'
                elif name in leak and ((not miss and cls in ('store', 'local', 'flat')) or (miss and cls == 'free')):
                    sig = 'C16|scope_symbols|walrus-under-lambda-in-comp|extra-store'
                elif name in leak and sc.is_comp and not miss and cls == 'free':
                    sig = 'C16|scope_symbols|walrus-under-lambda-in-comp|extra-store'
                else:
                    sig = f'C16|scope_symbols|{_kindname(n)}|{cls}-{"missing" if miss else "extra"}'
                sigs.setdefault(sig, []).append((cls, name, 'missing' if miss else 'extra'))
        for sig, items in sigs.items():
            fail(sig, f'scope_symbols differs from the binding rules: {items[:4]}', n, {'diff': items[:8]})
        tally['sym_scopes'] = tally.get('sym_scopes', 0) + 1

    # --- (3) scope_symbols vs CPython symtable (comprehension displays as generator expressions)
    try:
        src2, tree2 = L.uninlined_source(tree)
        top = symtable.symtable(src2, '<c16>', 'exec')
        ref2 = TagRef(tree2)
    except (SyntaxError, RecursionError, ValueError):
        tally['symtable_unavailable'] = tally.get('symtable_unavailable', 0) + 1
        return res
    if len(ref2.order) != len(ref.order):
        tally['symtable_unavailable'] = tally.get('symtable_unavailable', 0) + 1
        return res
    orig = {id(s2): s1 for s1, s2 in zip(ref.order, ref2.order)}
    pairs = []
    _pair_tables(top, ref2.root, pairs, tally)
    for tb, s2 in pairs:
        sc = orig[id(s2)]
        n = sc.node
        rs = by_id[to_id[id(n)]]
        cls_name = None
        s_ = sc
        while s_ is not None:
            if isinstance(s_.node, ast.ClassDef):
                cls_name = s_.node.name
                break
            s_ = s_.parent
        mg = (lambda x: _mangle(x, cls_name))
        got = {k: set(map(mg, v)) for k, v in rs['names'].items()}
        d = L.sym_classes(tb)
        soft = set()
        for c in sc.softn:
            soft |= set(map(mg, sc.softn[c]))
        walrus = set(map(mg, sc.ev.get('walrus', ()))) if sc.is_comp else set()
        explicit = set()
        for c in L.CLASSES7:
            explicit |= got.get(c, set())
        for c in ('load', 'store', 'del', 'global', 'nonlocal'):
            explicit |= set(map(mg, sc.ev[c]))
        skip = soft | walrus
        is_mod = isinstance(n, ast.Module)
        if is_mod:      # CPython marks these DEF_GLOBAL in the module table instead of assigned: not a statement about the module scope
            skip |= set(map(mg, sc.walrus_in))
        tally['soft_skipped'] = tally.get('soft_skipped', 0) + len(soft)

        def keep(s):
            return {x for x in s if x not in skip and (x in explicit or x not in IMPLICIT)}

        bound_t = keep(d['assigned'] | d['param'] | d['imported'])
        bound_p = keep(got['store'] | got['del'])
        aug = {mg(x) for x, w in sc.ev['load'].items() if 'AugAssign' in w}
        # load with the annotation scopes folded in: pfst attributes bounds, annotations of generic defs, bases of generic
        # classes and `type` statement values to the enclosing real scope, CPython to annotation scopes nested in it.  The
        # names READ there are compared without the soft exclusion (type-parameter names themselves are left out: CPython
        # binds them in the annotation scope, pfst in the def)
        folded = set(d['referenced'])
        tp_names = set()
        for at in L.annotation_tables(tb):
            da = L.sym_classes(at)
            folded |= da['referenced']
            tp_names |= da['assigned'] | da['param']
        tp_names |= {mg(x) for x, w in sc.ev['store'].items() if 'type_param' in w or 'TypeAlias.type_params' in w}

        def keep2(s_):
            return {x for x in s_ if x not in walrus and x not in tp_names and (x in explicit or x not in IMPLICIT)
                    and not (is_mod and x in set(map(mg, sc.walrus_in)))}

        checks = [
            ('load-folded', keep2(got['load']) - aug, keep2(folded) - aug),
            ('store|del', bound_p, bound_t),
            ('global', keep(got['global']), keep(d['global_decl']) if not is_mod else keep(got['global'])),
            ('nonlocal', keep(got['nonlocal']), keep(d['nonlocal'])),
            ('load', keep(got['load']) - aug, keep(d['referenced']) - aug),
            ('local', keep(got['local']), keep(d['local']) & keep(got['store'])),
            ('free', keep(got['free']),
             keep(d['referenced']) - keep(d['assigned'] | d['param'] | d['imported'] | d['nonlocal']
                                          | (got['global'] if is_mod else d['global_decl']))),
        ]
        leak = set(map(mg, ref.leak.get(id(n), {})))
        unm = {mg(x): x for c in ('load', 'store') for x in sc.ev[c]}
        sigs = {}
        for cname, p, t in checks:
            for name in sorted(p ^ t):
                miss = name in t
                binders = set(sc.ev['store'].get(unm.get(name, name), ()))
                tags = ref.fi_events.get((id(sc), 'load', unm.get(name, name)), [])
                if binders and binders <= CAPTURE and ((miss and cname in ('store|del', 'local')) or (not miss and cname == 'free')):
                    sig = f'C16|scope_symbols|{sorted(binders)[0]}|missing-store'
                elif miss and cname in ('load', 'load-folded', 'free') and tags and all(tags):
                    sig = f'C16|scope_symbols|comp-first-iter-{tags[0]}|missing-load'
                elif name in leak and ((not miss and cname in ('store|del', 'local', 'free')) or (miss and cname == 'free')):
                    sig = 'C16|scope_symbols|walrus-under-lambda-in-comp|extra-store'
                else:
                    sig = f'C16|symtable|{_kindname(n)}|{cname}-{"missing" if miss else "extra"}'
                sigs.setdefault(sig, []).append((cname, name, 'missing' if miss else 'extra'))
        for sig, items in sigs.items():
            fail(sig, f'scope_symbols differs from symtable: {items[:4]}', n, {'diff': items[:8], 'vs': 'symtable'})
        tally['symtable_scopes'] = tally.get('symtable_scopes', 0) + 1
    return res


# ---- program sets --------------------------------------------------------------------------------------------------------

def _programs(ctx, ngen, ncorpus, nstd):
    rng = random.Random(ctx.rng.random())
    names_first = c16_gen.name_programs()
    progs = list(c16_gen.FIXED) + c16_gen.typealias_programs() + c16_gen.programs(rng, ngen)
    rng2 = random.Random(ctx.rng.random())
    progs += corpus.programs(rng2, ncorpus, stdlib=nstd)
    progs += c16_gen.product_programs()
    progs += corpus.hard_snippets() if hasattr(corpus, 'hard_snippets') else []
    out = []
    seen = set()
    r3 = random.Random(ctx.rng.random())
    for p in names_first:       # binder form x special identifier x place: tiny programs, no mutated walks
        if p not in seen:
            seen.add(p)
            out.append((p, None, None))
    for p in progs:
        if p not in seen and len(p) < 60000:
            seen.add(p)
            out.append((p, r3.randrange(1 << 30) if len(p) < 6000 else None, None))
    # deterministic replacement product: a yielded node of every kind replaced by every other kind
    for t, src in c16_gen.MUT_TEMPLATES.items():
        for new in c16_gen.REPLACEMENTS:
            if new != t and (t in ('FunctionDef', 'ClassDef')) == (new in ('FunctionDef', 'ClassDef')):
                out.append((src, None, (1, t, new)))
    return out


def _run(ctx, progs, do_corr=True):
    res = pmap(_program, [p if isinstance(p, tuple) else (p, None, None) for p in progs])
    raised = [r for r in res if r.get('raised')]
    res = [r for r in res if r['case'] is not None]
    # ---- correspondence with the Lean model
    if do_corr:
        name = 'walk(scope=True) / scope_symbols(full=True) vs Pfst.Scope.walkRoot / symbols'
        try:
            outs = ctx.lean([r['case'] for r in res])
        except Exception as e:
            ctx.brk('correspondence', name, f'driver error: {e}')
            outs = []
        bad = 0
        for r, o in zip(res, outs):
            o = o.get('out', o)
            if 'scopes' not in o:
                ctx.brk('correspondence', name, f'model error {o}')
                break
            so = dict((a, b) for a, b in o['scope_of'])
            for rs, ms in zip(r['scopes'], o['scopes']):
                ctx.corr_cases += 1
                nontriv = len(rs['walk']) > 2
                ctx.count((r['src'], rs['id']), nontriv)
                d = []
                mw, mws, mow = ms['walk'], ms['walk_sym'], ms['owned_walk']
                rw, rws = rs['walk'], rs['walk_sym']
                # the property is about node SETS; the order is compared and tallied only (known order quirks: the `if`s of
                # a comprehension root come last-to-first in the forward walk, bases / keywords of a nested class are not
                # interleaved)
                same_order = rw == mw and rs['walk_back'] == ms['walk_back']
                ctx.tally('walk_order', 'same as model' if same_order else 'differs (sets equal)' if
                          sorted(rw) == sorted(mw) and sorted(rs['walk_back']) == sorted(ms['walk_back']) else 'sets differ')
                mw, mws, mow, rw = sorted(mw), sorted(mws), sorted(mow), sorted(rw)
                rws = sorted(rws) if rws is not None else None
                if rs['walk_asts'] is not None:
                    ctx.tally('good_asts', ms['good_asts'])
                    if sorted(rs['walk_asts']) != sorted(ms['walk_asts']):
                        d.append(('walk_asts', rs['walk_asts'], ms['walk_asts']))
                    if ms['good_asts'] and ms['walk_asts'] != ms['owned_asts']:
                        ctx.brk('proof', 'scopeWalk_asts', f'model asts walk != spec on a good tree: {r["src"][:300]!r}')
                if sorted(rs['walk_back']) != sorted(ms['walk_back']):
                    d.append(('walk_back', rs['walk_back'], ms['walk_back']))
                if rs['walk_sym_back'] is not None and sorted(rs['walk_sym_back']) != sorted(ms['walk_sym_back']):
                    d.append(('walk_sym_back', rs['walk_sym_back'], ms['walk_sym_back']))
                if rs['id'] != ms['id'] or rw != mw:
                    d.append(('walk', rw, mw))
                if rws is not None and rws != mws:
                    d.append(('walk_sym', rws, mws))
                if rs['syms'] != {k: sorted(v) for k, v in ms['syms'].items()}:
                    d.append(('syms', rs['syms'], ms['syms']))
                ctx.tally('good', ms['good'])
                if ms['good'] and mw != mow:
                    ctx.brk('proof', 'scopeWalk_eq_spec_partial', f'model walk != spec on a good tree: {r["src"][:300]!r}')
                # spec consistency: owned r is the fibre of scopeOf
                fibre = sorted(a for a, b in so.items() if b == ms['id'])
                if fibre != sorted(ms['owned']):
                    ctx.tally('spec_consistency', 'DIFF')
                    ctx.brk('proof', 'owned = fibre of scopeOf', f'{r["src"][:300]!r} scope {ms["id"]}')
                else:
                    ctx.tally('spec_consistency', 'ok')
                if d:
                    bad += 1
                    if len(ctx.corr_disagreements) < 20:
                        ctx.corr_disagreements.append({'corr': name, 'src': r['src'][:600], 'scope': rs['id'], 'diff': str(d)[:800]})
                    ctx.hints.append((name, r['src']))
        # walks with replacement: the model's walk of the FINAL tree (theorem scopeWalk_replace) vs the nodes yielded
        name2 = 'walk(scope=True) with replaced nodes vs Pfst.Scope.walkRoot of the final tree'
        muts = [m for r in res for m in r['mut']]
        try:
            mouts = ctx.lean([m['case'] for m in muts])
        except Exception as e:
            ctx.brk('correspondence', name2, f'driver error: {e}')
            mouts = []
        nmut = 0
        for m, o in zip(muts, mouts):
            o = o.get('out', o)
            ms = next((x for x in o.get('scopes', []) if x['id'] == m['scope']), None)
            if ms is None:
                continue
            nmut += 1
            ctx.corr_cases += 1
            ctx.count(('mut', m['src'], m['scope'], str(m['repls'])), True)
            ctx.tally('replacement_kinds', '->'.join(m['repls'][0][:2]))
            if sorted(ms['walk']) != m['got']:
                bad += 1
                if len(ctx.corr_disagreements) < 20:
                    ctx.corr_disagreements.append({'corr': name2, 'src': m['src'][:400], 'final': m['final'][:400], 'repls': m['repls'],
                                                   'only_impl': sorted(set(m['got']) - set(ms['walk']))[:10],
                                                   'only_model': sorted(set(ms['walk']) - set(m['got']))[:10]})
                ctx.hints.append((name2, m['src']))
        ctx.tally('correspondence_cases', name)
        ctx.dist['correspondence_cases'][name] = ctx.corr_cases - nmut
        ctx.dist['correspondence_cases'][name2] = nmut
        if res:
            ctx.sample({'corr': name, 'src': res[0]['src'][:200], 'scopes': len(res[0]['scopes'])})
        if bad:
            ctx.brk('correspondence', name, f'{bad} scopes differ; first: ' + str(ctx.corr_disagreements[0])[:1500])
    # ---- sweep failures
    for r in res + raised:
        for k, v in r['tally'].items():
            ctx.dist.setdefault('sweep', {})
            ctx.dist['sweep'][k] = ctx.dist['sweep'].get(k, 0) + v
        seen = set()
        for sig, what, w in r['fails']:
            ctx.tally('failure_signatures', sig)
            if sig in seen:
                continue
            seen.add(sig)
            ctx.fail(sig, what, w)
    return res


def correspondence(ctx):
    q = ctx.quick
    progs = _programs(ctx, 250 if q else 2500, 120 if q else 800, 6 if q else 120)
    ctx.notes['programs'] = len(progs)
    _run(ctx, progs)


def search(ctx):
    progs = [(h[1], 12345, None) for h in ctx.hints[:50] if isinstance(h[1], str)] + _programs(ctx, 3000, 500, 60)
    _run(ctx, progs, do_corr=False)


def replay(ctx, data):
    w = data.get('witness')
    if not w:
        print('replay file names a broken obligation, not an input:', [b for b in data.get('broken', [])][:3])
        return
    if w.get('mutation'):
        mu = w['mutation']
        r = {'fails': [], 'tally': {}, 'mut': []}
        _mutation_case(w['src'], mu['scope_index'], tuple(mu['plan']) if mu.get('plan') else None, mu['seed'], r)
    else:
        r = _program((w['src'], None, None))
    want = data.get('signature')
    fails = r['fails']
    if want is not None and any(sig == want for sig, _, _ in fails):
        fails = [f for f in fails if f[0] == want]
    for sig, what, wit in fails:
        ctx.fail(sig, what, wit)
