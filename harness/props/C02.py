"""C02 — an edited tree is observationally identical to a fresh parse of its own source."""

import ast
import json
import random
from pathlib import Path

import c02_lib as L
import corpus
import util
from framework import pmap

ID = 'C02'
LEAN_MODULES = ['Pfst.Props.C02']
THEOREMS = [
    'Pfst.C02.unmake_dead', 'Pfst.C02.unmake_frame', 'Pfst.C02.linked_injective', 'Pfst.C02.unmake_keeps_linked',
    'Pfst.C02.make_inv', 'Pfst.C02.setAst_inv_partial', 'Pfst.C02.setAst_inv', 'Pfst.C02.setField_inv_partial', 'Pfst.C02.setField_inv', 'Pfst.C02.setAst_wf', 'Pfst.C02.setAst_root_wf', 'Pfst.C02.setField_wf',
    'Pfst.C02.wf_cacheOnly', 'Pfst.C02.step_wf', 'Pfst.C02.run_wf', 'Pfst.C02.wfB_iff', 'Pfst.C02.admissibleB_sound', 'Pfst.C02.step_wfB',
    'Pfst.C02.root_identity', 'Pfst.C02.touch_preserves_links', 'Pfst.C02.linkInv_mem',
    'Pfst.C02.offset_touches_changed', 'Pfst.C02.offset_cache_coherent', 'Pfst.C02.view_heal', 'Pfst.C02.view_len',
    'Pfst.C02.view_ops_valid', 'Pfst.C02.slicePut_flushes_children', 'Pfst.C02.unpar_flushes_self', 'Pfst.C02.offsetLns_flushes_subtree',
    'Pfst.C02.renumber_positions', 'Pfst.C02.setPos_touches_changed', 'Pfst.C02.setPos_written',
    'Pfst.C02.setPos_guard', 'Pfst.C02.setPos_idempotent',
]
RULE = ('(a) link store: _set_ast / _set_field / _unmake_fst_tree / _make_fst_tree / _touch / _touchall called '
        'directly on real nodes of corpus programs (fresh ASTs, ASTs carrying FSTs of another tree, valid_fst and '
        'unmake variants, caches pre-populated), the whole object graph (a.f, f.a, parent, pfield, cache keys, old '
        'objects by identity, new ones up to renaming) compared with the Lean model; (b) the set of nodes whose '
        '_cache the _offset walk clears (sentinel entries) compared exactly with the Lean touched set, on real trees '
        'with boundary offset points, all tail/head, exclude/self_ variants; (c) FSTView window arithmetic: '
        '(_start, _stop) after every editing method vs the Lean model - first deterministically for every window [s:e) and [s:] of 3-element fields x every method, then random sequences; (k) _set_end_pos / _set_start_pos called directly on real nodes (with / without the old-position guard, matching and non-matching) with sentinel cache entries on every node: touched set and positions of the whole parent chain compared exactly with Pfst.SetPos.setPos, nothing outside the chain touched; (e) _offset_lns (dict and set form) / put_line_comment / put_src(action=None) / slice puts to Call, ClassDef, MatchClass / unpar() that overwrites '
        'parentheses in place, on real nodes with sentinel cache entries: every cache the model of the call site '
        '(_touchall(parents[,self]) resp. touch of every direct child) '
        'clears must be cleared (superset allowed); (f) deterministic product run first: every virtual field (arguments._all with every marker shape, Call._args, ClassDef._bases, Dict._all, MatchMapping._all, MatchClass._attrs, Compare._all) x every span x cut / delete / copy / view cut / view delete / put and view-assign of new elements (every span incl. empty ones, several codes per field), all queries on all nodes before, full check after, and the post-state must be a fixed point of the Lean renumbering loop; (g) deterministic product: 16 list-field kinds x kept view kinds (whole field, [:2], [1:], [1:3], [1:1]) x edit through the kept view (cut, remove, del [:], append, prepend, insert, extend, del [0], none) x growth/shrink through another handle; after every step len / items / start_and_stop of the kept view vs a fresh view on a fresh parse (a whole-field view is always the whole field); kept views are also created and used inside the random histories; (h) deterministic products with the full check: 14 f-string shapes (PEP 701 nesting, format specs with nested fields, = debug, conversions, multi-line, implicit concatenation, multi-byte text before the fields) x every operand inside a field x 5 replacement texts of other lengths; 13 block-statement shapes (match, try with every clause combination, except*, with/async with, for/while else, if/elif/else, decorated def/class with type params) x every header expression x raw replace (raw=True) and put_src(reparse); 12 multi-line statements that do not start at column 0 (after a semicolon, on a block header line) with multi-byte text before them x every ASCII name inside x the same two raw edits; both also as random history steps; (i) deterministic product: separated sequences in 17 enclosing contexts (undelimited Tuple as subscript index / comprehension target / assignment target index, List, Tuple, Set, Dict, Call args, class bases, def parameters, import names, with items, del targets, match sequences) x 7 layouts (one line, one per line, own-line comments before elements, trailing comments, leading comment, mixed, multi-byte) x every proper span deleted or cut x trivia default / False / all, plus par() / par(force) / unpar() / unpar(node) / par-then-unpar on the sequence and on its first and last element, in 10 layouts (three with multi-byte identifiers on only the first or only the last line), full check with CPython as position judge; (j) deterministic product: 15 statement sources with strings whose value depends on the indentation of continuation lines (backslash-continued and multi-line docstrings, class/method docstrings, non-first strings, raw/unicode/bytes/f-strings, assigned and parenthesised strings) put by append / insert / put_slice / replace into blocks of depth 0-3 with 2-space, 3-space, 4-space, 8-space and tab indentation, with docstr default / True / strict / False; the same statements cut out of one depth and put back as FST objects at another; elif -> else-if conversion of a subtree holding such strings; Constant values judged by CPython; (d) random edit histories (replace / remove / '
        'insert / append / prepend / put_slice / put_src offset / put_src(action=None) on comment- and whitespace-only line tails / '
        'put_line_comment (add, replace shorter/longer/multi-byte, delete, full=True; statements ending 0..n enclosing blocks) / '
        'put_docstr (add, replace, delete, multi-line) / par / unpar (meaning-preserving calls only) / edits through windowed views; norm=True) on corpus '
        'programs with random read-only queries before every edit: after every edit the link graph is judged by '
        'the Lean invariant and every query on every node is compared (caches as left by the edit, caches cleared, '
        'fresh FST(root.src)); distinct = distinct (program, history prefix); non-trivial = the edit changed the source')
TRUSTED = [
    'modelled (Pfst/Links.lean): FST.__new__ child creation incl. re-use of an existing a.f, _make_fst_tree, '
    '_unmake_fst_tree, _set_ast, _set_field, _touch, _touchall, the f._cache.clear() visit pattern of _offset '
    '(break/continue), FSTView._base_indices and the _stop updates of the FSTView editing methods; the cache-flush tails '
    'of _put_slice (Call/ClassDef/MatchClass: touch every direct child) and of _unparenthesize_grouping (in-place write: '
    '_touchall(True, True, False)) as repaired by fixes/C02-F1 and C02-F3',
    'not modelled: identity of ctx/op singleton ASTs replaced by _make_fst_tree (harness feeds unique objects); allocation '
    'order of new FST objects (compared up to renaming); the contents of cached answers (loc/bloc/pars computation from '
    'source text) - these are compared on the real code against a fresh FST(root.src) and against recomputation after '
    '_cache.clear() for every node after every edit; the cache clearing of _offset_lns is compared with _touchall(True, True, True) of the model (superset allowed), its position arithmetic is C07\'s model',
    'modelled (Pfst/SetPos.lean, tied by exact comparison of touched set and positions on real parent chains, guard and sibling variants): _set_end_pos / _set_start_pos; whether next()/prev() finds a sibling is an input taken from the real node (sibling order is C14\'s model)',
    'queries compared: loc, bloc, pars(), pars(shared=False), pars(shared=None), src, own_src(), own_src(docstr=False), '
    'lines, parent/pfield/root/is_root, next/prev/first_child/last_child/next_child/prev_child (all=False, True, "loc"), '
    'step_fwd/step_back/last_header_child, parents()/parent_stmt/parent_scope/parent_block/parent_named_scope/'
    'parent_stmtlike, lineno..end_col_offset, ln..bend_col, has_own_loc, list-field views (len, items, loc), '
    'walk(), every is_* property and predicate method, has_docstr/get_docstr(), is_parenthesized_tuple/'
    'is_delimited_matchseq, the merged argument views (_all/_args/_bases)',
    'also checked after every edit: id(root) unchanged; every FST object held from before the edit is either still '
    'reachable from the root AST or dead (.a is None) or belongs to another tree (no zombie that still claims the root); '
    'a windowed FSTView edited through itself is the window [start, stop+delta) of the current field; view objects kept '
    'across edits are compared after every step with a fresh view on a fresh parse (whole-field view = whole field; bounded '
    'view = list-window semantics: edits through it move the end by the length change, edits elsewhere only clip it; every '
    'step observes - and so heals - every kept view)',
    'excluded input classes: raw-mode edits other than header-expression replacements (C10), edits that raise (C12); the window law is not evaluated when norm=True put a placeholder element '
    'back after a deletion through a view (e.g. `{*()}`): the property text does not say what the window is then',
]
ASSUMPTIONS = [
    'offset_touches_changed assumes the order invariant `geo` (Pfst/OffsetLemmas.lean) which the Lean driver evaluates on every tree of correspondence (b)',
    'cached answers for loc/bloc depend only on the positions inside the node\'s own subtree and on source text that a walk skipping the node did not change (C11 before_fixed); pars keys depend on neighbouring text: covered by the sweep only',
    'a tree that differs from CPython\'s parse of its source in positions/structure is C01\'s subject; such steps are reported under C02|tree-differs-from-parse only when util.tree_equals_parse also fails',
]
LEVEL_TEXT = ('Lean 4 theorems about an executable model of the FST/AST link store and cache flushing: unmake kills every '
              'node of a detached subtree and writes nothing outside it (frame; a -> a.f is injective on a linked tree, so every '
              'disjoint linked subtree stays linked), make establishes the link invariant on any fresh subtree, set_ast at the root '
              'position and (setAst_inv) at every other position of any linked tree re-establishes it with the same root FST object, the element loop of set_field links every new '
              'element and writes nothing else, set_field at any node (root included) keeps the whole tree linked (setField_inv), hence by induction over operation sequences of any length every state reached by default-flag set_ast (any position) / set_field (any node) with fresh inputs and touch / touchall (any flags) steps is well formed (run_wf: link invariant + pairwise distinct ASTs + existing FST objects; the premises wfB / admissibleB are evaluated by the driver on every real call and tallied), no operation sequence changes the root FST, the _offset walk '
              'clears the cache of every node whose subtree positions changed (any tree satisfying geo, any parameters) '
              'hence position-determined cached answers stay coherent, view windows stay valid windows, the repaired '
              'cache-flush call sites (slice put to Call/ClassDef/MatchClass, unpar in-place write) empty the caches they must, _set_end_pos / _set_start_pos touch every node whose position they change, write only nodes that pass the old-position guard and are idempotent. Tied to /repo '
              'each run by running model and implementation on the same object graphs / trees / windows.')
LEVEL_NOTE = ('Theorems are about the model; set_ast preservation is proved for every position (fresh new tree, valid_fst=False, unmake=True; the other flag combinations only by correspondence), likewise set_field for every node and field (setField_inv), '
              'plus the frame of unmake (non-default flags: the Lean-evaluated invariant on every graph dumped after every edit '
              'and after every direct call). The observational statement '
              '(every query equals the fresh tree) is checked per case on the real code, not proved.')
TECHNIQUE = 'Lean 4 proof (structural induction over nested trees, functional stores) + model-implementation correspondence + query-edit-query differential sweep'

FINDINGS_FILE = Path(__file__).with_name('C02_findings.json')


# programs for the dedicated accessor edits: nested blocks whose last lines carry comments, docstrings, tight
# parentheses between keywords (`unpar` then writes spaces into the line instead of deleting)
EXTRA_PROGRAMS = [
    'def f(a):\n    if a:\n        b = 1  # x\n    return b\n\n\nclass K:\n    def m(self):\n        for i in self.items:\n'
    '            total += i  # add\n        else:\n            total = 0  # none\n        return total\n',
    'class C:\n    """doc"""\n    def m(self):\n        """m doc\n\n        more\n        """\n        while a:\n            if b:\n'
    '                c = 1  # é deep\n',
    'try:\n    a  # t\nexcept E:\n    b  # e\nelse:\n    c  # l\nfinally:\n    with x:\n        d  # f\n',
    'if a:\n    pass  # one\nelif b:\n    pass  # two\nelse:\n    for i in j:\n        pass  # three\n# trailing own line\n',
    'def g():\n    # lead\n    x = 1;  y = 2  # semi\n    match x:\n        case 1:\n            z  # in case\n',
    'x if(a)else y\nz = not(b)and c\nw = p if(q)and r else s\n',
    'def h():\n    return(a)if(b)else(c)\n',
    'v = [i for i in(a)if(i)]\nu = (yield)\nt = lambda:(x)\nassert(s), (m)\n',
    'async def k():\n    r = await(x)\n    for i in(a):\n        del(i)\n    return not(r)or(i)\n',
    'f((a), (b))\ng((a))\nclass B((object)): pass\nq = ((a, b))\np = (((c)))\n',
]


def _acc(ctx, name, n):
    d = ctx.dist.setdefault('correspondence_cases', {})
    d[name] = d.get(name, 0) + n


def _programs(ctx, n, stdlib=0, extra=0):
    rng = random.Random(ctx.rng.random())
    out = corpus.programs(rng, n, stdlib=stdlib)
    for _ in range(extra):
        out.extend(EXTRA_PROGRAMS)
    return out


def _mk(src):
    from fst import FST
    return FST(src, 'exec')


# ---------------------------------------------------------------------------------------------------------------------
# (a) link-store operations, direct

def _uniq_singletons(a):
    """fresh ASTs from ast.parse share ctx/op objects; give every slot its own object (no `.f` attribute)"""
    for n in ast.walk(a):
        for field in ('ctx', 'op'):
            v = getattr(n, field, None)
            if isinstance(v, ast.AST):
                setattr(n, field, v.__class__())
        if isinstance(n, ast.Compare):
            n.ops = [o.__class__() for o in n.ops]
    return a


_EXPRS = ['zz', 'a + b', 'f(x, y=1)', '[p, q, (r)]', 'u if v else w', 'm.n[o]', 'not k', '{1: 2}', 'a < b <= c']
_STMTS = ['pass', 'x = 1', 'if a:\n    b\nelse:\n    c', 'def f(p, q=1):\n    return p', 'for i in j: k', 'del a, b']


def _new_ast(rng, what, variant):
    """(ast, keepalive)"""
    from fst import FST
    code = rng.choice(_EXPRS if what == 'expr' else _STMTS)
    if variant == 'fresh':
        m = ast.parse(code)
        a = m.body[0].value if what == 'expr' else m.body[0]
        return _uniq_singletons(a), m
    t = FST(code, 'exec')
    a = t.a.body[0].value if what == 'expr' else t.a.body[0]
    if variant == 'valid':
        # a valid FST subtree, detached from its old parent AST (caller's responsibility in the real code)
        if what == 'expr':
            t.a.body[0].value = None
        else:
            t.a.body = []
    return a, t


def _populate(rng, root, p=0.5):
    env = L.Env(root)
    for _, a in env.nodes:
        if rng.random() < p:
            L.run_query(rng.choice(['loc', 'bloc', 'pars', 'parsF', 'own_src', 'delims', 'arglists']), a.f, env)


def _link_cases(arg):
    src, seed, n = arg
    rng = random.Random(seed)
    out = []
    for _ in range(n):
        try:
            root = _mk(src)
        except Exception:
            return out
        _populate(rng, root, rng.choice([0.2, 0.6, 1.0]))
        nodes = L.enum_nodes(root.a)
        root_a0 = root.a
        kind = rng.choice(['set_ast', 'set_ast', 'set_ast', 'set_field', 'set_field', 'unmake', 'make', 'make_dead',
                           'touch', 'touchall'])
        ids = L.Ids()
        try:
            if kind == 'set_ast':
                c = [(p, a) for p, a in nodes if p and ((isinstance(a, ast.expr) and p[-1][0] not in ('ctx',))
                                                        or isinstance(a, ast.stmt))]
                if not c:
                    continue
                p, a = rng.choice(c)
                what = 'expr' if isinstance(a, ast.expr) else 'stmt'
                variant = rng.choice(['fresh', 'fresh', 'stale', 'valid'])
                new, keep = _new_ast(rng, what, variant)
                valid = variant == 'valid'
                unmake = rng.random() < 0.85
                f = a.f
                before = L.dump_state(ids, root, [new])
                op = {'name': 'set_ast', 'fst': ids.fid(f), 'new': before['new'], 'valid_fst': valid, 'unmake': unmake}
                f._set_ast(new, valid, unmake)
            elif kind == 'set_field':
                lists = [(p, a, fld) for p, a in nodes for fld in ('body', 'elts', 'orelse')
                         if isinstance(getattr(a, fld, None), list) and not isinstance(a, (ast.IfExp, ast.Lambda))]
                ones = [(p, a, 'value') for p, a in nodes if isinstance(a, (ast.Return, ast.Expr, ast.Assign, ast.Attribute))
                        and isinstance(getattr(a, 'value', None), ast.AST)]
                if rng.random() < 0.6 and lists:
                    p, a, fld = rng.choice(lists)
                    what = 'stmt' if fld in ('body', 'orelse') else 'expr'
                    variant = rng.choice(['fresh', 'fresh', 'stale', 'valid'])
                    pairs = [_new_ast(rng, what, variant) for _ in range(rng.randint(0, 3))]
                    new = [x for x, _ in pairs]
                    is_list = True
                    arg_new = new
                elif ones:
                    p, a, fld = rng.choice(ones)
                    variant = rng.choice(['fresh', 'fresh', 'stale', 'valid', 'none'])
                    is_list = False
                    if variant == 'none':
                        new, pairs, arg_new = [], [], None
                    else:
                        x, k = _new_ast(rng, 'expr', variant)
                        new, pairs, arg_new = [x], [(x, k)], x
                else:
                    continue
                valid = variant == 'valid'
                unmake = rng.random() < 0.85
                f = a.f
                before = L.dump_state(ids, root, new)
                op = {'name': 'set_field', 'fst': ids.fid(f), 'field': fld, 'is_list': is_list, 'new': before['new'],
                      'valid_fst': valid, 'unmake': unmake}
                f._set_field(arg_new, fld, valid, unmake)
            elif kind in ('unmake', 'make', 'make_dead', 'touch', 'touchall'):
                p, a = rng.choice(nodes)
                f = a.f
                if kind == 'make_dead':
                    kids = [c for c in ast.iter_child_nodes(a)]
                    f._unmake_fst_tree(list(kids))
                before = L.dump_state(ids, root)
                op = {'name': {'make_dead': 'make'}.get(kind, kind), 'fst': ids.fid(f)}
                if kind == 'unmake':
                    f._unmake_fst_tree()
                elif kind in ('make', 'make_dead'):
                    f._make_fst_tree()
                elif kind == 'touch':
                    f._touch()
                else:
                    fl = [rng.random() < 0.6 for _ in range(3)]
                    op.update(parents=fl[0], self=fl[1], children=fl[2])
                    f._touchall(*fl)
        except Exception as e:
            out.append(({'f': 'C02.op', 'state': None, 'op': {'name': kind}}, {'exc': f'{type(e).__name__}: {e}'[:200]}, kind, src))
            continue
        n_old = before['store']['next']
        after = L.dump_state(ids, root, root_a=root_a0)
        impl = L.canon_state(after['tree'], after['store'], n_old)
        impl['inv'] = not L.link_invariant_py(after)
        case = {'f': 'C02.op', 'state': {'tree': before['tree'], 'rootf': before['rootf'], 'store': before['store']},
                'op': op}
        out.append((case, impl, kind + (':' + variant if kind in ('set_ast', 'set_field') else ''), n_old))
    return out


def corr_links(ctx, progs, per):
    res = pmap(_link_cases, [(p, ctx.rng.randrange(1 << 30), per) for p in progs])
    items = [it for lst in res for it in lst]
    cases = [it[0] for it in items if it[0]['state'] is not None]
    name = 'link store ops vs Pfst.Links'
    for it in items:
        if it[0]['state'] is None:
            ctx.brk('correspondence', name, f'implementation raised on a direct {it[2]} call: {it[1]} src={it[3][:200]!r}')
            return
    try:
        outs = ctx.lean(cases)
    except Exception as e:
        ctx.brk('correspondence', name, f'driver error: {e}')
        return
    bad = 0
    first = None
    for it, mo in zip(items, outs):
        case, impl, kind, n_old = it
        ctx.corr_cases += 1
        ctx.tally('link_op', kind)
        m = mo.get('out', mo)
        if not isinstance(m, dict) or 'store' not in m:
            model = {'err': m}
        else:
            model = L.canon_state(m['tree'], m['store'], n_old)
            model['inv'] = m.get('inv', m.get('dead') if 'dead' in m else None)
            if 'admissible' in m:
                # premises of setAst_inv / setField_inv / run_wf evaluated by the driver on this real call (wfB,
                # admissibleB); step_wfB says wf_after must then be true in the model
                prem = bool(m.get('wf_before')) and bool(m['admissible'])
                ctx.tally('link_theorem_premises', f"{kind.split(':')[0]}:{'hold' if prem else 'not-covered'}")
                if prem and not m.get('wf_after'):
                    ctx.brk('correspondence', name, 'driver contradicts theorem step_wfB (wf_before, admissible, not wf_after): '
                            + json.dumps({k: v for k, v in case['op'].items() if k != 'new'})[:300])
                    return
            if 'inv' not in m:
                model['inv'] = impl['inv']          # touch / unmake: the driver does not report the invariant
        ctx.count(json.dumps(case['op'], sort_keys=True) + str(hash(json.dumps(case['state']['tree']))), True)
        # the invariant must hold after set_ast / set_field / make with unmake=True on a healthy tree
        if kind.split(':')[0] in ('set_ast', 'set_field', 'make', 'make_dead') and case['op'].get('unmake', True) \
                and not impl['inv']:
            bad += 1
            first = first or {'why': 'link invariant false after the operation on the implementation', 'op': case['op']}
            ctx.hints.append((name, case))
            continue
        if model != impl:
            bad += 1
            if first is None:
                d = None
                if 'nodes' in model:
                    d = [(x, y) for x, y in zip(impl['nodes'], model['nodes']) if x != y][:3] or \
                        [(i, x, y) for i, (x, y) in enumerate(zip(impl['old'], model['old'])) if x != y][:3] or \
                        [('inv', impl['inv'], model['inv'])]
                first = {'op': {k: v for k, v in case['op'].items() if k != 'new'}, 'impl_vs_model': d,
                         'model_err': model.get('err')}
            if len(ctx.corr_disagreements) < 20:
                ctx.corr_disagreements.append({'corr': name, 'first': first})
            ctx.hints.append((name, case))
    _acc(ctx, name, len(cases))
    if cases:
        ctx.sample({'corr': name, 'op': {k: v for k, v in cases[0]['op'].items() if k != 'new'},
                    'n_ast': len(L.canon_state(cases[0]['state']['tree'], cases[0]['state']['store'], 0)['nodes'])})
    if bad:
        ctx.brk('correspondence', name, f'{bad}/{len(cases)} cases differ; first: ' + json.dumps(first, default=str)[:1500])


# ---------------------------------------------------------------------------------------------------------------------
# (b) touched set of the offset walk

TRI = [True, False, None]


def _subtree(tree, i):
    st = [tree]
    while st:
        t = st.pop()
        if t[0] == i:
            return t
        st.extend(t[3])
    raise KeyError(i)


def _ids_of(tree):
    out = []
    st = [tree]
    while st:
        t = st.pop()
        out.append(t[0])
        st.extend(t[3])
    return out


def _touch_cases(arg):
    src, seed, n = arg
    rng = random.Random(seed)
    out = []
    for _ in range(n):
        try:
            root = _mk(src)
        except Exception:
            return out
        nodes = [a for a in ast.walk(root.a) if getattr(a, 'end_col_offset', None) is not None]
        if not nodes:
            return out
        tree, ids = util.ser_tree(root.a)
        allnodes = [a for a in ast.walk(root.a) if id(a) in ids]
        nd = rng.choice(nodes)
        c = rng.random()
        if c < 0.4:
            lno, colo = nd.lineno, nd.col_offset
        elif c < 0.8:
            lno, colo = nd.end_lineno, nd.end_col_offset
        else:
            lno, colo = rng.randint(1, len(root.lines)), rng.randint(0, 12)
        dln = rng.choice([0, 0, 0, 1, -1, 2])
        dcol = rng.choice([0, 1, 2, -1, -2, 5]) if dln or rng.random() < 0.9 else 0
        tail, head = rng.choice(TRI), rng.choice(TRI)
        excl, off_ex, self_, target = None, True, True, root
        if rng.random() < 0.3:
            excl = rng.choice(nodes).f
            off_ex = rng.random() < 0.6
        if rng.random() < 0.25:
            self_ = False
        if rng.random() < 0.25:
            target = rng.choice(nodes).f
        params = {'lno': lno, 'colo': colo, 'dln': dln, 'dcol': dcol, 'tail': tail, 'head': head, 'offset_excluded': off_ex}
        if excl is not None:
            params['exclude'] = ids[id(excl.a)]
        sub = tree if target is root else _subtree(tree, ids[id(target.a)])
        case = {'f': 'C02.touched', 'tree': sub, 'params': params, 'self': self_}
        for a in allnodes:
            a.f._cache.clear()
            a.f._cache['sentinel'] = 1
        try:
            target._offset(lno - 1, -colo, dln, dcol, tail, head, excl, offset_excluded=off_ex, self_=self_)
        except Exception as e:
            out.append((case, {'exc': type(e).__name__}, False))
            continue
        sub_ids = set(_ids_of(sub))
        touched = sorted(ids[id(a)] for a in allnodes if 'sentinel' not in a.f._cache and ids[id(a)] in sub_ids)
        outside = sorted(ids[id(a)] for a in allnodes if 'sentinel' not in a.f._cache and ids[id(a)] not in sub_ids)
        # parents of `target` are cleared only by the `_touchall()` of the dln == dcol == 0 branch
        par = []
        p = target.parent
        while p is not None:
            par.append(ids[id(p.a)])
            p = p.parent
        want_out = sorted(par) if (not dln and not dcol and not (not self_ and target is excl)) else []
        out.append((case, {'touched': touched, 'outside_ok': outside == want_out}, bool(touched)))
    return out


def corr_touched(ctx, progs, per):
    name = '_offset cache clearing vs Pfst.Links.touchNode'
    res = pmap(_touch_cases, [(p, ctx.rng.randrange(1 << 30), per) for p in progs])
    items = [it for lst in res for it in lst]
    cases = [it[0] for it in items]
    try:
        outs = ctx.lean(cases)
    except Exception as e:
        ctx.brk('correspondence', name, f'driver error: {e}')
        return
    bad = 0
    geo_false = 0
    first = None
    for (case, impl, nt), mo in zip(items, outs):
        ctx.corr_cases += 1
        m = mo.get('out', mo)
        ctx.count(case, nt)
        if isinstance(m, dict) and m.get('geo') is False:
            geo_false += 1
        ok = isinstance(m, dict) and 'touched' in m and 'exc' not in impl and sorted(m['touched']) == impl['touched'] \
            and impl['outside_ok']
        if not ok:
            bad += 1
            if first is None:
                mt = sorted(m.get('touched', [])) if isinstance(m, dict) else m
                first = {'params': case['params'], 'self': case['self'], 'impl': impl, 'model_touched': mt,
                         'n_nodes': len(_ids_of(case['tree']))}
                if isinstance(mt, list) and 'touched' in impl:
                    first['only_impl'] = sorted(set(impl['touched']) - set(mt))[:10]
                    first['only_model'] = sorted(set(mt) - set(impl['touched']))[:10]
                    first.pop('impl')
                    first.pop('model_touched')
            ctx.hints.append((name, case))
    _acc(ctx, name, len(cases))
    ctx.notes['geo_false_touched'] = geo_false
    if cases:
        ctx.sample({'corr': name, 'params': cases[0]['params'], 'n_nodes': len(_ids_of(cases[0]['tree']))})
    if bad:
        ctx.brk('correspondence', name, f'{bad}/{len(cases)} cases differ; first: ' + json.dumps(first, default=str)[:1500])


# ---------------------------------------------------------------------------------------------------------------------
# (c) view window arithmetic

_VIEW_SRC = ['[a, b, c, d, e]', 'f(a, b, c, d)', 'x = (a, b, c)', 'if t:\n    a\n    b\n    c\n    d\n', '{a, b, c, d}',
             'del a, b, c, d', 'global a, b, c, d', '[a]', 'def f():\n    a\n    b\n']


def _view_cases(arg):
    seed, n = arg
    rng = random.Random(seed)
    out = []
    for _ in range(n):
        src = rng.choice(_VIEW_SRC)
        root = _mk(src)
        st = root.a.body[0]
        if isinstance(st, ast.Expr):
            base, fld = st.value.f, ('args' if isinstance(st.value, ast.Call) else 'elts')
        elif isinstance(st, ast.Assign):
            base, fld = st.value.f, 'elts'
        elif isinstance(st, (ast.If, ast.FunctionDef)):
            base, fld = st.f, 'body'
        elif isinstance(st, ast.Delete):
            base, fld = st.f, 'targets'
        else:
            base, fld = st.f, 'names'
        stmtish = fld == 'body'
        n0 = len(getattr(base.a, fld))
        s = rng.randint(0, n0)
        e = rng.choice([None, rng.randint(s, n0), rng.randint(s, n0)])
        view = getattr(base, fld)[s:e] if e is not None else (getattr(base, fld)[s:] if rng.random() < 0.5 else None)
        if view is None:
            view = getattr(base, fld)
            view._start = s             # whole-field view with a start (as `v[s:]` of a `stop=None` view gives)
        start0, stop0 = view._start, view._stop
        ops = []
        one = 'pass' if stmtish else 'zz'
        many = 'p\nq' if stmtish else 'p, q'
        for _ in range(rng.randint(1, 4)):
            lb = len(getattr(view.base.a, fld))
            w = len(view)
            vop = rng.choice(['insert', 'append', 'prepend', 'extend', 'remove', 'replace', 'delitem', 'setitem', 'cut',
                              'delslice', 'external_del', 'external_add'])
            try:
                rec = {'op': 'lenDelta'}
                if vop == 'insert':
                    view.insert(one, rng.randint(0, w))
                elif vop == 'append':
                    view.append(one)
                    rec = {'op': 'append'}
                elif vop == 'prepend':
                    view.prepend(one)
                    rec = {'op': 'prepend'}
                elif vop == 'extend':
                    view.extend(many)
                    rec = {'op': 'extend'}
                elif vop == 'remove':
                    if w == lb and fld in ('body', 'targets', 'names'):
                        continue
                    view.remove()
                elif vop == 'replace':
                    view.replace(one)
                elif vop == 'delitem':
                    if not w or lb <= 1:
                        continue
                    del view[rng.randint(0, w - 1)]
                    rec = {'op': 'delitem', 'k': 1}
                elif vop == 'setitem':
                    if not w:
                        continue
                    view[rng.randint(0, w - 1)] = one
                elif vop == 'cut':
                    if w == lb and fld in ('body', 'targets', 'names'):
                        continue
                    view.cut()
                    rec = {'op': 'cut'}
                elif vop == 'delslice':
                    i = rng.randint(0, w)
                    j = rng.randint(i, w)
                    if j - i == lb and fld in ('body', 'targets', 'names'):
                        continue
                    del view[i:j]
                    rec = {'op': 'delitem', 'k': j - i}
                elif vop == 'external_del':
                    if lb <= 1:
                        continue
                    view.base.put_slice(None, lb - 1, lb, fld)
                    rec = None
                else:
                    view.base.put_slice(many, 0, 0, fld)
                    rec = None
            except Exception:
                break
            la = len(getattr(view.base.a, fld))
            if rec is None:
                # length changed behind the view's back: only healing applies (modelled as lenDelta with no change
                # followed by base_indices on the new length)
                ops.append({'op': 'lenDelta', 'len_before': la, 'len_after': la, 'external': [lb, la]})
            else:
                rec.update(len_before=lb, len_after=la)
                ops.append(rec)
            bi = list(view._base_indices())
            ops[-1]['impl'] = [[view._start, view._stop], bi, len(view)]
        if ops:
            out.append(({'f': 'C02.view', 'start': start0, 'stop': stop0, 'ops': ops}, src))
    return out


_VIEW_PROD_SRC = [('[a, b, c]', 'zz', 'p, q'), ('f(a, b, c)', 'zz', 'p, q'), ('if t:\n    a\n    b\n    c\n', 'pass', 'p\nq'),
                  ('del a, b, c', 'zz', 'p, q')]
_VIEW_PROD_OPS = ['insert0', 'insert_end', 'append', 'prepend', 'extend', 'remove', 'replace', 'delitem0', 'delitem_last',
                  'setitem0', 'cut', 'delslice_all', 'delslice_first', 'setslice_empty', 'setslice_all', 'setslice_first']


def _view_product_cases(_):
    """deterministic: every window [s:e) (and [s:]) of a 3-element field x every editing method of FSTView, one op each"""
    out = []
    for src, one, many in _VIEW_PROD_SRC:
        for s in range(4):
            for e in list(range(s, 4)) + [None]:
                for vop in _VIEW_PROD_OPS:
                    root = _mk(src)
                    st = root.a.body[0]
                    if isinstance(st, ast.Expr):
                        base, fld = st.value.f, ('args' if isinstance(st.value, ast.Call) else 'elts')
                    elif isinstance(st, ast.If):
                        base, fld = st.f, 'body'
                    else:
                        base, fld = st.f, 'targets'
                    whole = getattr(base, fld)
                    view = whole[s:e] if e is not None else whole[s:]
                    if e is None:
                        view._stop = None       # `[s:]` pinned to the end of the field (what a whole-field view sliced by start is meant to be)
                    start0, stop0 = view._start, view._stop
                    lb = len(getattr(base.a, fld))
                    w = len(view)
                    rec = {'op': 'lenDelta'}
                    try:
                        if vop == 'insert0':
                            view.insert(one, 0)
                        elif vop == 'insert_end':
                            view.insert(one, 'end')
                        elif vop == 'append':
                            view.append(one)
                            rec = {'op': 'append'}
                        elif vop == 'prepend':
                            view.prepend(one)
                            rec = {'op': 'prepend'}
                        elif vop == 'extend':
                            view.extend(many)
                            rec = {'op': 'extend'}
                        elif vop == 'remove':
                            if w == lb and fld in ('body', 'targets'):
                                continue
                            view.remove()
                        elif vop == 'replace':
                            view.replace(one)
                        elif vop in ('delitem0', 'delitem_last'):
                            if not w or lb <= 1:
                                continue
                            del view[0 if vop == 'delitem0' else -1]
                            rec = {'op': 'delitem', 'k': 1}
                        elif vop == 'setitem0':
                            if not w:
                                continue
                            view[0] = one
                        elif vop == 'cut':
                            if w == lb and fld in ('body', 'targets'):
                                continue
                            view.cut()
                            rec = {'op': 'cut'}
                        elif vop in ('delslice_all', 'delslice_first'):
                            k = w if vop == 'delslice_all' else min(1, w)
                            if k == lb and fld in ('body', 'targets'):
                                continue
                            del view[0:k]
                            rec = {'op': 'delitem', 'k': k}
                        elif vop == 'setslice_empty':
                            view[0:0] = many
                        elif vop == 'setslice_all':
                            view[0:w] = many
                        else:
                            view[0:min(1, w)] = one
                    except Exception:
                        continue
                    la = len(getattr(view.base.a, fld))
                    rec.update(len_before=lb, len_after=la)
                    rec['impl'] = [[view._start, view._stop], list(view._base_indices()), len(view)]
                    rec['vop'] = vop
                    out.append(({'f': 'C02.view', 'start': start0, 'stop': stop0, 'ops': [rec]}, src))
    return out


def corr_views(ctx, n):
    name = 'FSTView window vs Pfst.Links.viewAfter/baseIndices'
    res = pmap(_view_cases, [(ctx.rng.randrange(1 << 30), 12) for _ in range(n)])
    items = _view_product_cases(None) + [it for lst in res for it in lst]
    cases = [it[0] for it in items]
    try:
        outs = ctx.lean(cases)
    except Exception as e:
        ctx.brk('correspondence', name, f'driver error: {e}')
        return
    bad = 0
    first = None
    for (case, src), mo in zip(items, outs):
        ctx.corr_cases += 1
        ctx.count(case, True)
        m = mo.get('out', mo)
        ok = isinstance(m, list) and len(m) == len(case['ops'])
        if ok:
            for o, r in zip(case['ops'], m):
                # r = [base_indices before, view after, base_indices after, len]
                impl_view, impl_bi, impl_len = o['impl']
                if r[2] != impl_bi or r[3] != impl_len:
                    ok = False
                    break
                ctx.tally('view_op', o['op'] + ('-external' if 'external' in o else ''))
        if not ok:
            bad += 1
            first = first or {'src': src, 'start': case['start'], 'stop': case['stop'], 'ops': case['ops'], 'model': m}
            ctx.hints.append((name, case))
    _acc(ctx, name, len(cases))
    if cases:
        ctx.sample({'corr': name, 'case': cases[0]})
    if bad:
        ctx.brk('correspondence', name, f'{bad}/{len(cases)} cases differ; first: ' + json.dumps(first, default=str)[:1500])


# ---------------------------------------------------------------------------------------------------------------------
# (e) call-site expectation: the trivia accessors must clear at least what their `_touchall(...)` clears in the model

def _accessor_cases(arg):
    src, seed, n = arg
    rng = random.Random(seed)
    out = []
    for _ in range(n):
        try:
            root = _mk(src)
        except Exception:
            return out
        nodes = L.enum_nodes(root.a)
        stmts = [a for p, a in nodes if p and isinstance(a, ast.stmt)]
        if not stmts:
            return out
        a = rng.choice(stmts)
        f = a.f
        which = rng.choice(['line_comment', 'line_comment', 'put_src_none', 'slice_put', 'slice_put', 'unpar_direct', 'offset_lns'])
        if which == 'offset_lns':
            a = rng.choice([x for _, x in nodes])
            f = a.f
        if which == 'slice_put':
            c = [x for _, x in nodes if isinstance(x, (ast.Call, ast.MatchClass)) or (isinstance(x, ast.ClassDef) and x.bases)]
            if not c:
                continue
            a = rng.choice(c)
            f = a.f
        elif which == 'unpar_direct':
            def tight(x):
                try:
                    l0 = root._lines[x.lineno - 1]
                    c0 = l0.b2c(x.col_offset)
                    l1 = root._lines[x.end_lineno - 1]
                    c1 = l1.b2c(x.end_col_offset)
                    return c0 >= 2 and l0[c0 - 1] == '(' and (l0[c0 - 2].isalnum() or l0[c0 - 2] == '_') \
                        and l1[c1:c1 + 1] == ')' and l1[c1 + 1:c1 + 2].isalnum()
                except Exception:
                    return False
            c = [x for _, x in nodes if isinstance(x, ast.expr) and getattr(x, 'end_col_offset', None) is not None and tight(x)]
            if not c:
                continue
            a = rng.choice(c)
            f = a.f
        for _, x in nodes:
            x.f._cache.clear()
            x.f._cache['sentinel'] = 1
        ids = L.Ids()
        before = L.dump_state(ids, root)
        src0 = root.src
        try:
            if which == 'offset_lns':
                lns = {ln: rng.choice([1, 2, -1]) for ln in range(len(root._lines)) if rng.random() < 0.5}
                if rng.random() < 0.5:
                    f._offset_lns(lns)                      # dict form: always walks and touches
                else:
                    f._offset_lns(set(lns), rng.choice([1, 2, 4]))
                flags = {'parents': True, 'self': True, 'children': True}       # fst_core._offset_lns
            elif which == 'line_comment':
                f.put_line_comment(rng.choice([None, '', 'y', 'a much longer comment than before', 'é ü']))
                flags = {'parents': True, 'self': False, 'children': False}     # fst_trivia._getput_line_comment
            elif which == 'slice_put':
                fld = 'args' if isinstance(a, ast.Call) else 'bases' if isinstance(a, ast.ClassDef) else 'patterns'
                n_el = len(getattr(a, fld))
                i = rng.randint(0, n_el)
                j = rng.randint(i, n_el)
                code = rng.choice([None, None, 'zz', 'p, q']) if fld != 'patterns' else rng.choice([None, None, 'zz'])
                if code is None and i == j:
                    continue
                f.put_slice(code, i, j, fld)
                flags = None                                                    # fst_put_slice._put_slice (repaired tail)
            elif which == 'unpar_direct':
                f.unpar()
                if len(root.src) != len(src0):
                    continue        # at least one parenthesis was deleted through _put_src: the offset walk applies
                flags = {'parents': True, 'self': True, 'children': False}      # fst_misc._unparenthesize_grouping (repaired)
            else:
                ln = a.end_lineno - 1
                line = root._lines[ln]
                col = line.b2c(a.end_col_offset)
                tail = line[col:]
                if tail.strip() and not tail.lstrip().startswith('#'):
                    continue
                f.put_src(rng.choice(['', '  # c', '   ', ' # é longer']), ln, col, ln, len(line), None)
                flags = {'parents': True, 'self': True, 'children': False}      # FST.put_src(action=None)
        except Exception:
            continue
        if which != 'offset_lns' and (f.a is not a or root.src == src0):
            continue        # nothing written: nothing has to be cleared
        olds = ids.fobjs[:before['store']['next']]
        # dead objects (removed elements) need not be cleared: report them as cleared
        cleared = [i for i, fo in enumerate(olds) if 'sentinel' not in getattr(fo, '_cache', {}) or fo.a is None]
        case = {'f': 'C02.op', 'state': {'tree': before['tree'], 'rootf': before['rootf'], 'store': before['store']},
                'op': {'name': 'touchall', 'fst': ids.fid(f), **flags} if flags else {'name': 'touch_kids', 'fst': ids.fid(f)}}
        out.append((case, cleared, which, a.__class__.__name__))
    return out


def corr_accessors(ctx, progs, per):
    name = 'trivia accessors clear at least the model _touchall set'
    res = pmap(_accessor_cases, [(p, ctx.rng.randrange(1 << 30), per) for p in progs])
    items = [it for lst in res for it in lst]
    cases = [it[0] for it in items]
    try:
        outs = ctx.lean(cases)
    except Exception as e:
        ctx.brk('correspondence', name, f'driver error: {e}')
        return
    bad = 0
    first = None
    for (case, cleared, which, kind), mo in zip(items, outs):
        ctx.corr_cases += 1
        ctx.tally('accessor', which)
        m = mo.get('out', mo)
        if not isinstance(m, dict) or 'store' not in m:
            bad += 1
            first = first or {'model_err': m}
            continue
        must = [r[0] for r in m['store']['fst'] if not r[4]]      # caches the model cleared
        ctx.count(json.dumps(case['op']) + str(hash(json.dumps(case['state']['tree']))), bool(must))
        missing = sorted(set(must) - set(cleared))
        if missing:
            bad += 1
            first = first or {'accessor': which, 'on': kind, 'model_clears': must, 'impl_cleared': cleared, 'missing': missing}
            ctx.hints.append((name, case))
    _acc(ctx, name, len(cases))
    if bad:
        ctx.brk('correspondence', name, f'{bad}/{len(cases)} cases: the implementation left caches uncleared that the '
                                        f'model of the call site clears; first: ' + json.dumps(first, default=str)[:1200])


# ---------------------------------------------------------------------------------------------------------------------
# (k) `_set_end_pos` / `_set_start_pos` vs Pfst.SetPos.setPos: exact touched set, exact positions along the parent chain

def _setpos_cases(arg):
    src, seed, n = arg
    rng = random.Random(seed)
    out = []
    for _ in range(n):
        try:
            root = _mk(src)
        except Exception:
            return out
        allf = [a.f for a in ast.walk(root.a)]
        f = rng.choice(allf)
        end = rng.random() < 0.6
        chain_f = []
        g = f
        while g:
            chain_f.append(g)
            g = g.parent

        def pos(g):
            a = g.a
            if getattr(a, 'end_col_offset', None) is None:
                return None
            return [a.end_lineno, a.end_col_offset] if end else [a.lineno, a.col_offset]
        chain = [[i, pos(g), (g.next() if end else g.prev()) is not None] for i, g in enumerate(chain_f)]
        own = pos(f) or [1, 0]
        c = rng.random()
        new = [own[0], max(0, own[1] + rng.choice([1, 2, 3, -1]))] if c < 0.7 else [own[0] + rng.choice([1, 2]), rng.randint(0, 9)]
        # keep the new position inside the source: sibling lookup (next / prev) computes the location of siblings
        # without own location from the text around them and is only defined for positions that exist
        if new[0] > len(root._lines):
            new[0] = len(root._lines)
        new[1] = min(new[1], len(root._lines[new[0] - 1].encode()))
        c = rng.random()
        if c < 0.4:
            old = None
        elif c < 0.85:
            old = list(own)
        elif c < 0.92:
            old = [own[0], own[1] + 1]
        else:
            old = [own[0] + rng.choice([1, -1, 2]), own[1]]      # same column, another line
        for g in allf:
            g._cache.clear()
            g._cache['sentinel'] = 1
        try:
            args = tuple(new) + (tuple(old) if old else ())
            (f._set_end_pos if end else f._set_start_pos)(*args)
        except Exception as e:
            out.append(({'f': 'C02.set_pos', 'chain': chain, 'new': new, 'old': old}, {'exc': f'{type(e).__name__}: {e}'[:200]}, end))
            continue
        on_chain = {id(g) for g in chain_f}
        touched = [i for i, g in enumerate(chain_f) if 'sentinel' not in g._cache]
        outside = sum(1 for g in allf if id(g) not in on_chain and 'sentinel' not in g._cache)
        # `hasSib` is an input of the model, measured before the call; the call itself asks next() / prev() on the
        # partly written tree.  Where the answer depends on the positions just written (siblings without own
        # location), the input is not well defined for this case: skip it, and say so in the tally
        try:
            for g in allf:
                g._cache.clear()
            sib_after = [(g.next() if end else g.prev()) is not None for g in chain_f]
        except Exception:
            sib_after = None
        if sib_after != [c[2] for c in chain]:
            out.append((None, None, end))
            continue
        out.append(({'f': 'C02.set_pos', 'chain': chain, 'new': new, 'old': old},
                    {'touched': touched, 'pos': [pos(g) for g in chain_f], 'outside': outside}, end))
    return out


def corr_setpos(ctx, progs, per):
    name = '_set_end_pos / _set_start_pos vs Pfst.SetPos.setPos'
    res = pmap(_setpos_cases, [(p, ctx.rng.randrange(1 << 30), per) for p in progs])
    items = [it for lst in res for it in lst]
    for it in items:
        if it[0] is None:
            ctx.tally('set_pos', 'skipped:sibling-answer-depends-on-written-position')
    items = [it for it in items if it[0] is not None]
    cases = [it[0] for it in items]
    try:
        outs = ctx.lean(cases)
    except Exception as e:
        ctx.brk('correspondence', name, f'driver error: {e}')
        return
    bad = 0
    first = None
    for (case, impl, end), mo in zip(items, outs):
        ctx.corr_cases += 1
        m = mo.get('out', mo)
        n_touched = len(impl.get('touched', ()))
        ctx.tally('set_pos', ('end' if end else 'start') + (':guard' if case['old'] else ':plain')
                  + (':stopped-at-0' if n_touched == 0 else ':one' if n_touched == 1 else ':climbed'))
        ctx.count(json.dumps(case, sort_keys=True), n_touched > 0)
        ok = isinstance(m, dict) and 'touched' in m and 'exc' not in impl and sorted(m['touched']) == impl['touched'] \
            and m['pos'] == impl['pos'] and impl['outside'] == 0
        if not ok:
            bad += 1
            first = first or {'case': case, 'impl': impl, 'model': m}
            ctx.hints.append((name, case))
    _acc(ctx, name, len(cases))
    if cases:
        ctx.sample({'corr': name, 'case': cases[0]})
    if bad:
        ctx.brk('correspondence', name, f'{bad}/{len(cases)} cases differ; first: ' + json.dumps(first, default=str)[:1500])


def correspondence(ctx):
    q = ctx.quick
    progs = _programs(ctx, 80 if q else 1200, 0 if q else 60)
    # in chunks: the cases carry whole object graphs, the parent must not hold all of them at once
    for i in range(0, len(progs), 160):
        chunk = progs[i:i + 160]
        corr_links(ctx, chunk, 4 if q else 8)
        corr_touched(ctx, chunk, 5 if q else 12)
        corr_accessors(ctx, chunk + (EXTRA_PROGRAMS * 3 if i == 0 else []), 6 if q else 10)
        corr_setpos(ctx, chunk, 6 if q else 12)
        if ctx.broken:
            break
    corr_views(ctx, 30 if q else 400)


# ---------------------------------------------------------------------------------------------------------------------
# (d) query-edit-query histories

def _hist_worker(arg):
    src, seed, nsteps, keep = arg
    try:
        r = L.run_history(src, seed=seed, nsteps=nsteps, with_graphs=True)
    except RecursionError:
        return {'src': src, 'skipped': 'recursion'}
    if not r['fails']:      # the pre-query lists are only needed in witnesses
        r['steps'] = [{'op': st['op']} for st in r['steps']]
    if keep == 'last':      # thorough: every graph is judged in plain Python by the worker, the Lean judge sees the last
        r['graphs'] = r['graphs'][-1:]      # one of each history (memory: the parent holds all shipped graphs)
    return r


def _histories(ctx, progs, nsteps, judge=True):
    res = pmap(_hist_worker, [(p, ctx.rng.randrange(1 << 30), nsteps, 'all' if ctx.quick else 'last') for p in progs])
    _collect(ctx, res, judge)


def _collect(ctx, res, judge=True):
    graphs = []
    n_ops = 0
    for r in res:
        if r.get('skipped'):
            ctx.tally('history', 'skipped-' + r['skipped'])
            continue
        n_ops += r['n_ops']
        for k in r['kinds']:
            ctx.tally('edit_kind', k)
        ctx.tally('history', 'abandoned' if r['abandoned'] else 'completed')
        if r['abandoned'] and r['abandoned'] != 'parse':
            ctx.tally('abandoned', r['abandoned'][:80])
        for i in range(r['n_ops']):
            ctx.count(r['src'] + json.dumps(r['steps'][:i + 1][-1]['op']) + str(i), True)
        for f in r['fails']:
            ctx.fail(f['sig'], f['what'], {'src': r['src'], 'steps': r['steps'][:f['step'] + 1]})
        graphs.extend(r['graphs'])
    ctx.notes['history_ops'] = ctx.notes.get('history_ops', 0) + n_ops
    # the Lean judge of the link invariant on every dumped graph
    if judge and graphs:
        name = 'link invariant on dumped graphs (Lean linkInvB vs plain Python vs expected true)'
        cases = [{'f': 'C02.link_inv', 'tree': g['tree'], 'rootf': g['rootf'], 'store': g['store']} for g in graphs]
        try:
            outs = ctx.lean(cases)
        except Exception as e:
            ctx.brk('correspondence', name, f'driver error: {e}')
            return
        bad = 0
        for g, mo in zip(graphs, outs):
            ctx.corr_cases += 1
            m = mo.get('out', mo)
            py_ok = not g['py_bad']
            if not isinstance(m, dict) or m.get('inv') is not py_ok:
                bad += 1      # the two evaluations of the invariant disagree: model/driver/harness problem
        _acc(ctx, name, len(cases))
        if bad:
            ctx.brk('correspondence', name, f'{bad}/{len(cases)} graphs: Lean and Python evaluation of LinkInv disagree')


def _virt_worker(arg):
    src, steps = arg
    r = L.run_history(src, steps=steps, with_graphs=True, stop_on_fail=False)
    if not r['fails']:
        r['steps'] = [{'op': st['op']} for st in r['steps']]
    # renumbering correspondence: after the operation the implementation's pfields of the container's children must
    # be a fixed point of the model's renumbering loop
    r['renumber'] = None
    if r['n_ops']:
        try:
            root = _mk(src)
            op = steps[0]['op']
            L.apply_op(root, op)
            a = L.at_path(root.a, tuple((n, i) for n, i in op['path']))
            ids = L.Ids()
            st = L.dump_state(ids, root)
            r['renumber'] = {'f': 'C02.op', 'state': {'tree': st['tree'], 'rootf': st['rootf'], 'store': st['store']},
                             'op': {'name': 'renumber', 'fst': ids.fid(a.f)}}
        except Exception:
            pass
    return r


def virt_links(ctx):
    """deterministic product first: every virtual field shape x every span x cut / delete / copy / through a view"""
    prod = L.virt_product()
    res = pmap(_virt_worker, prod)
    _collect(ctx, res, judge=True)
    name = 'pfield renumbering after span removal vs Pfst.Links.renumberKids (fixed point)'
    cases = [r['renumber'] for r in res if r.get('renumber')]
    try:
        outs = ctx.lean(cases)
    except Exception as e:
        ctx.brk('correspondence', name, f'driver error: {e}')
        return
    bad = 0
    first = None
    for c, mo in zip(cases, outs):
        ctx.corr_cases += 1
        m = mo.get('out', mo)
        n_old = c['state']['store']['next']
        ok = isinstance(m, dict) and 'store' in m and \
            L.canon_state(m['tree'], m['store'], n_old) == L.canon_state(c['state']['tree'], c['state']['store'], n_old)
        if not ok:
            bad += 1
            first = first or {'op': c['op'], 'model_err': None if isinstance(m, dict) and 'store' in m else m}
            ctx.hints.append((name, c))
    _acc(ctx, name, len(cases))
    ctx.notes['virt_product_cases'] = len(prod)
    if bad:
        ctx.brk('correspondence', name, f'{bad}/{len(cases)} states after a virtual-field span operation are not a fixed '
                                        f'point of the renumbering loop (a remaining child records a stale index); first: '
                                        + json.dumps(first, default=str)[:800])


def _kview_worker(arg):
    src, steps = arg
    r = L.run_history(src, steps=steps, stop_on_fail=False, light=True)
    if not r['fails']:
        r['steps'] = [{'op': st['op']} for st in r['steps']]
    return r


def kept_views(ctx):
    """deterministic product: field kinds x view kinds (whole / [:2] / [1:] / [1:3] / [1:1]) x edit through the kept view
    x growth or shrink through another handle; after every step every kept view vs a fresh view on a fresh parse"""
    prod = L.kview_product()
    res = pmap(_kview_worker, prod)
    _collect(ctx, res, judge=False)
    ctx.notes['kept_view_product_cases'] = len(prod)


def _prod_worker(arg):
    src, steps = arg
    r = L.run_history(src, steps=steps, with_graphs=True, stop_on_fail=False)
    if not r['fails']:
        r['steps'] = [{'op': st['op']} for st in r['steps']]
    return r


def shape_products(ctx):
    """deterministic products with the full check: f-string shapes with multi-byte text x operand replacements of another
    length; raw (source-level) edits of every header expression of every kind of block statement"""
    for name, prod in (('fstring', L.fstr_product()), ('raw_header', L.raw_product()), ('seq_layout', L.seq_layout_product()),
                       ('docstr_indent', L.docstr_product())):
        res = pmap(_prod_worker, prod)
        _collect(ctx, res, judge=True)
        ctx.notes[name + '_product_cases'] = len(prod)


def sweep(ctx):
    q = ctx.quick
    virt_links(ctx)
    kept_views(ctx)
    shape_products(ctx)
    progs = _programs(ctx, 170 if q else 2000, 6 if q else 100, extra=4 if q else 30)
    _histories(ctx, progs, 5 if q else 10)


def search(ctx):
    progs = _programs(ctx, 500, 20, extra=10)
    _histories(ctx, progs, 6, judge=False)


def replay(ctx, data):
    w = data.get('witness')
    if not w:
        print('replay file names a broken obligation, not an input:', [b for b in data.get('broken', [])][:3])
        return
    r = L.run_history(w['src'], steps=w['steps'], stop_on_fail=False)
    for f in r['fails']:
        ctx.fail(f['sig'], f['what'], w)
    if r['abandoned']:
        print('replay abandoned:', r['abandoned'])
