"""C09 — replacing an operand never changes how the surrounding expression groups."""

import ast
import copy
import random

import c09b
import extract_prec
import util
from framework import pmap

ID = 'C09'
LEAN_MODULES = ['Pfst.Props.C09', 'Pfst.Props.C09b']
LEAN_DEPS = ['Pfst.Grammar', 'Pfst.GrammarLemmas', 'Pfst.Prec', 'Pfst.NeedPars', 'Pfst.NeedParsLemmas']
THEOREMS = ['Pfst.C09.pr_derives', 'Pfst.C09.pr_minimal_derives', 'Pfst.C09.replace_groups', 'Pfst.C09.table_sound',
            'Pfst.C09.not_derives_sub_right'] + c09b.THEOREMS
RULE = ('(i) spec grammar vs CPython: abstract syntax trees over every construct kind (every parent kind x child slot x child '
        'kind at depth 2, random to depth 4) printed by the Lean printer with the minimal policy, parsed by CPython, compared '
        'with the intended tree; (ii) every cell of the regenerated pfst table vs the spec need (Lean, kernel-checked) and '
        'precedence_require_parens on real (parent, child) edges vs the table; (iii) real replace() for every mapped '
        '(parent kind, field) x child kind x layout x code form, judged by ast.parse of the resulting source. '
        'distinct = distinct (slot, child kind, layout, form) or distinct tree; non-trivial = parentheses needed or child not atomic.'
        + c09b.RULE)
TRUSTED = ['spec grammar transcription (Pfst/Grammar.lean: Kind.cls/slot/render) and pfst vocabulary bridge (Pfst/Prec.lean); '
           'unambiguity of the grammar is validated against CPython per run, not proved',
           'modelled: precedence_require_parens_by_type (extracted whole), flag computation of precedence_require_parens',
           'FormattedValue/Interpolation value slots and Store-context targets are outside the mapped domain'] + c09b.TRUSTED
ASSUMPTIONS = ['CPython ast.parse is the judge of grouping']
LEVEL_TEXT = ('Lean 4 theorems: for every expression/pattern tree and every parenthesisation policy covering the grammar\'s need, '
              'the printed phrase derives exactly that tree (induction over nested trees); the pfst decision table, regenerated '
              'from /repo on every run over its whole domain, covers the grammar\'s need in every mapped cell (decide +kernel); '
              'the grammar is discriminating (negative derivation proved).')
LEVEL_NOTE = ('The grammar transcription and its unambiguity are trusted and validated against CPython each run. ' + c09b.LEVEL_NOTE)
TECHNIQUE = 'Lean 4 proof (structural induction, decide +kernel over regenerated table) + extraction + correspondence with CPython as judge'

# ---------------------------------------------------------------------------------------------------------------------
# (i) abstract syntax generator, token -> text, expected ast

BIN = ['|', '^', '&', '<<', '>>', '+', '-', '*', '@', '/', '%', '//', '**']
BIN_AST = [ast.BitOr, ast.BitXor, ast.BitAnd, ast.LShift, ast.RShift, ast.Add, ast.Sub, ast.Mult, ast.MatMult, ast.Div,
           ast.Mod, ast.FloorDiv, ast.Pow]
UN = ['+', '-', '~']
UN_AST = [ast.UAdd, ast.USub, ast.Invert]
CMP = ['==', '!=', '<', '<=', '>', '>=', 'is', 'is not', 'in', 'not in']
CMP_AST = [ast.Eq, ast.NotEq, ast.Lt, ast.LtE, ast.Gt, ast.GtE, ast.Is, ast.IsNot, ast.In, ast.NotIn]
SYM = {20: '**', 40: 'if', 41: 'else', 42: 'lambda', 43: ':', 44: ':=', 45: 'await', 46: 'yield', 47: 'from', 48: '*',
       49: ',', 50: '.', 51: '[', 52: ']', 53: '{', 54: '}', 55: 'for', 56: 'in', 57: '=', 58: '**', 59: 'not', 60: 'return',
       61: 'as', 62: '|', 63: 'assert', 70: 'or', 71: 'and'}
for _i, _s in enumerate(BIN[:12]):
    SYM[_i] = _s
for _i, _s in enumerate(UN):
    SYM[30 + _i] = _s
for _i, _s in enumerate(CMP):
    SYM[80 + _i] = _s

ATOM = 14
TOP = {'minLad': 0, 'named': True, 'tuple': True, 'yieldc': True}
PAT_TOP = {'minLad': 0, 'tuple': True}


def tok_text(t):
    k = t[0]
    if k == 'lp':
        return '('
    if k == 'rp':
        return ')'
    if k == 'sym':
        return SYM[t[1]]
    if k == 'name':
        return f'n{t[1]}'
    return str(t[1])


def leaf_name(i):
    return ['leaf', ['name', i], ['lad', ATOM]]


def leaf_int(i):
    return ['leaf', ['int', i], ['int']]


EXPR_KINDS = ['bin', 'un', 'not', 'boolop', 'cmp', 'ifexp', 'lambda', 'named', 'await', 'yield', 'yieldFrom', 'tuple',
              'call', 'attr', 'subscr', 'list', 'set', 'dict', 'comp', 'star', 'starArg']
STMT_KINDS = ['exprStmt', 'assignValue', 'returnValue', 'ifTest', 'assertTest']
PAT_KINDS = ['matchOr', 'matchAs', 'matchSeq', 'matchSeqBare', 'matchClass']


class EGen:
    def __init__(self, rng):
        self.r = rng
        self.n = 0

    def fresh(self):
        self.n += 1
        return self.n

    def leaf(self, pat=False):
        if self.r.random() < 0.25:
            return leaf_int(self.r.randint(0, 9))
        return leaf_name(self.fresh())

    def mk(self, kind, kids_fn, pat=False, variant=None):
        """build a node of `kind`; kids_fn(i) supplies child i"""
        r = self.r
        v = variant if variant is not None else r.randrange(1 << 30)
        if kind == 'bin':
            return ['node', ['bin', v % 13], [kids_fn(0), kids_fn(1)]]
        if kind == 'un':
            return ['node', ['un', v % 3], [kids_fn(0)]]
        if kind == 'not':
            return ['node', ['not'], [kids_fn(0)]]
        if kind == 'boolop':
            n = 2 + v % 2
            return ['node', ['boolop', bool(v // 2 % 2)], [kids_fn(i) for i in range(n)]]
        if kind == 'cmp':
            n = 1 + v % 2
            ops = [80 + (v // (7 ** (i + 1))) % 10 for i in range(n)]
            return ['node', ['cmp', ops], [kids_fn(i) for i in range(n + 1)]]
        if kind == 'ifexp':
            return ['node', ['ifexp'], [kids_fn(0), kids_fn(1), kids_fn(2)]]
        if kind in ('lambda', 'await', 'yield', 'yieldFrom', 'star', 'starArg', 'exprStmt', 'returnValue', 'ifTest', 'assertTest'):
            return ['node', [kind], [kids_fn(0)]]
        if kind in ('named', 'assignValue', 'attr', 'matchAs'):
            return ['node', [kind, self.fresh()], [kids_fn(0)]]
        if kind in ('tuple', 'matchSeqBare', 'set'):
            n = 1 + v % 3
            return ['node', [kind], [kids_fn(i) for i in range(n)]]
        if kind in ('list', 'matchSeq'):
            n = v % 4
            return ['node', [kind], [kids_fn(i) for i in range(n)]]
        if kind == 'matchOr':
            n = 2 + v % 2
            return ['node', [kind], [kids_fn(i) for i in range(n)]]
        if kind == 'call':
            na = v % 3
            nk = v // 3 % 3
            return ['node', ['call', na, [self.fresh() for _ in range(nk)]], [kids_fn(i) for i in range(1 + na + nk)]]
        if kind == 'subscr':
            return ['node', ['subscr'], [kids_fn(0), kids_fn(1)]]
        if kind == 'dict':
            keyed = [bool((v >> i) & 1) for i in range(1 + v % 3)]
            n = sum(2 if b else 1 for b in keyed)
            return ['node', ['dict', keyed], [kids_fn(i) for i in range(n)]]
        if kind == 'comp':
            nifs = v % 3
            return ['node', ['comp', self.fresh(), nifs], [kids_fn(i) for i in range(2 + nifs)]]
        if kind == 'matchClass':
            na = v % 3
            return ['node', ['matchClass', na], [leaf_name(self.fresh())] + [kids_fn(i + 1) for i in range(na)]]
        raise KeyError(kind)

    def rand(self, depth, pat=False, star_ok=False, star_arg=False):
        r = self.r
        if depth <= 0 or r.random() < 0.15:
            return self.leaf(pat)
        kinds = PAT_KINDS[:3] + ['matchClass'] if pat else EXPR_KINDS[:-2]
        kind = r.choice(kinds)
        if not pat and star_ok and r.random() < 0.2:
            kind = 'starArg' if star_arg else 'star'

        def kid(i, kind=kind):
            so = kind in ('tuple', 'list', 'set') or (kind == 'call' and i >= 1)
            return self.rand(depth - 1, pat, star_ok=so and not pat, star_arg=kind == 'call')

        e = self.mk(kind, kid, pat)
        if kind == 'call':          # starred only among positional args
            na = e[1][1]
            for j in range(1 + na, len(e[2])):
                if e[2][j][0] == 'node' and e[2][j][1][0] in ('star', 'starArg'):
                    e[2][j] = self.leaf()
            e[2][0] = self._no_star(e[2][0])
        return e

    def _no_star(self, e):
        if e[0] == 'node' and e[1][0] in ('star', 'starArg'):
            return self.leaf()
        return e


def to_ast(e, store=False):
    """intended CPython tree of an abstract syntax term"""
    L = ast.Load()
    if e[0] == 'leaf':
        t = e[1]
        if t[0] == 'name':
            return ast.Name(f'n{t[1]}', L)
        return ast.Constant(t[1])
    k = e[1]
    kids = e[2]
    K = k[0]
    a = [to_ast(x) for x in kids] if K not in PAT_KINDS else None
    if K == 'bin':
        return ast.BinOp(a[0], BIN_AST[k[1]](), a[1])
    if K == 'un':
        return ast.UnaryOp(UN_AST[k[1]](), a[0])
    if K == 'not':
        return ast.UnaryOp(ast.Not(), a[0])
    if K == 'boolop':
        return ast.BoolOp(ast.Or() if k[1] else ast.And(), a)
    if K == 'cmp':
        return ast.Compare(a[0], [CMP_AST[o - 80]() for o in k[1]], a[1:])
    if K == 'ifexp':
        return ast.IfExp(a[1], a[0], a[2])
    if K == 'lambda':
        return ast.Lambda(ast.arguments([], [], None, [], [], None, []), a[0])
    if K == 'named':
        return ast.NamedExpr(ast.Name(f'n{k[1]}', ast.Store()), a[0])
    if K == 'await':
        return ast.Await(a[0])
    if K == 'yield':
        return ast.Yield(a[0])
    if K == 'yieldFrom':
        return ast.YieldFrom(a[0])
    if K in ('star', 'starArg'):
        return ast.Starred(a[0], L)
    if K == 'tuple':
        return ast.Tuple(a, L)
    if K == 'call':
        na = k[1]
        return ast.Call(a[0], a[1:1 + na], [ast.keyword(f'n{n}', v) for n, v in zip(k[2], a[1 + na:])])
    if K == 'attr':
        return ast.Attribute(a[0], f'n{k[1]}', L)
    if K == 'subscr':
        return ast.Subscript(a[0], a[1], L)
    if K == 'list':
        return ast.List(a, L)
    if K == 'set':
        return ast.Set(a)
    if K == 'dict':
        keys, vals = [], []
        it = iter(a)
        for b in k[1]:
            if b:
                keys.append(next(it))
                vals.append(next(it))
            else:
                keys.append(None)
                vals.append(next(it))
        return ast.Dict(keys, vals)
    if K == 'comp':
        return ast.ListComp(a[0], [ast.comprehension(ast.Name(f'n{k[1]}', ast.Store()), a[1], a[2:], 0)])
    if K == 'exprStmt':
        return ast.Expr(a[0])
    if K == 'assignValue':
        return ast.Assign([ast.Name(f'n{k[1]}', ast.Store())], a[0])
    if K == 'returnValue':
        return ast.Return(a[0])
    if K == 'ifTest':
        return ast.If(a[0], [ast.Pass()], [])
    if K == 'assertTest':
        return ast.Assert(a[0], None)
    raise KeyError(K)


def to_pat(e):
    if e[0] == 'leaf':
        t = e[1]
        if t[0] == 'name':
            return ast.MatchAs(None, f'n{t[1]}')
        return ast.MatchValue(ast.Constant(t[1]))
    k = e[1]
    kids = e[2]
    K = k[0]
    if K == 'matchOr':
        return ast.MatchOr([to_pat(x) for x in kids])
    if K == 'matchAs':
        return ast.MatchAs(to_pat(kids[0]), f'n{k[1]}')
    if K in ('matchSeq', 'matchSeqBare'):
        return ast.MatchSequence([to_pat(x) for x in kids])
    if K == 'matchClass':
        return ast.MatchClass(ast.Name(kids[0][1][1] and f'n{kids[0][1][1]}', ast.Load()), [to_pat(x) for x in kids[1:]], [], [])
    raise KeyError(K)


def is_pat(e):
    return e[0] == 'node' and e[1][0] in PAT_KINDS


def is_stmt(e):
    return e[0] == 'node' and e[1][0] in STMT_KINDS


def check_printed(e, toks, pat):
    """returns None if CPython parses the printed phrase to the intended tree, else a description"""
    text = ' '.join(tok_text(t) for t in toks)
    try:
        if pat:
            src = f'match x:\n case {text}: pass'
            got = ast.parse(src).body[0].cases[0].pattern
            exp = to_pat(e)
        elif is_stmt(e):
            K = e[1][0]
            if K == 'returnValue':
                src = 'def f():\n ' + text
                got = ast.parse(src).body[0].body[0]
            elif K == 'ifTest':
                src = text + ' pass'
                got = ast.parse(src).body[0]
            else:
                src = text
                got = ast.parse(src).body[0]
            exp = to_ast(e)
        else:
            src = '(' + text + ')'
            got = ast.parse(src, mode='eval').body
            exp = to_ast(e)
    except SyntaxError as ex:
        return f'printed phrase does not parse: {text!r}: {ex}'
    d1, d2 = ast.dump(got), ast.dump(ast.fix_missing_locations(exp))
    if d1 != d2:
        return f'printed phrase {text!r} parses to a different tree: ' + util.first_diff(d2, d1)
    return None


def grammar_cases(ctx):
    rng = random.Random(ctx.rng.random())
    g = EGen(rng)
    cases = []
    # depth-2 systematic: every parent kind x child position x child kind (other kids leaves)
    for pk in EXPR_KINDS[:-2] + STMT_KINDS:
        for variant in range(4 if pk in ('bin', 'boolop', 'cmp', 'dict', 'call', 'comp') else 2):
            for ck in EXPR_KINDS:
                for pos in range(4):
                    used = [False]

                    def kid(i, pos=pos, ck=ck, used=used):
                        if i == pos:
                            used[0] = True
                            return g.mk(ck, lambda j: g.leaf(), variant=rng.randrange(64))
                        return g.leaf()

                    e = g.mk(pk, kid, variant=variant * 5 + rng.randrange(3) * 0 + (12 if pk == 'bin' and variant == 3 else variant))
                    if used[0]:
                        cases.append((e, False))
    for pk in PAT_KINDS:
        for ck in PAT_KINDS:
            for pos in range(3):
                def kid(i, pos=pos, ck=ck):
                    if i == pos:
                        return g.mk(ck, lambda j: g.leaf(True), True, variant=rng.randrange(64))
                    return g.leaf(True)
                cases.append((g.mk(pk, kid, True, variant=rng.randrange(64)), True))
    n_rand = 1500 if ctx.quick else 20000
    for _ in range(n_rand):
        pat = rng.random() < 0.15
        d = rng.choice([2, 3, 3, 4])
        e = g.rand(d, pat)
        if not pat and rng.random() < 0.2:
            e = g.mk(rng.choice(STMT_KINDS), lambda i: e)
        cases.append((e, pat))
    return cases


def correspondence(ctx):
    # (i) grammar vs CPython through the Lean printer
    cases = grammar_cases(ctx)
    lean_cases = []
    for e, pat in cases:
        slot = PAT_TOP if pat else ({'minLad': 0} if is_stmt(e) else TOP)
        lean_cases.append({'f': 'C09.print', 'e': e, 'slot': slot})
    try:
        outs = ctx.lean(lean_cases)
    except Exception as ex:
        ctx.brk('correspondence', 'grammar-vs-cpython', f'driver error {ex}')
        outs = []
    bad = 0
    notwf = 0
    for (e, pat), o in zip(cases, outs):
        o = o.get('out', o)
        if 'toks' not in o:
            bad += 1
            continue
        if not o['wf']:
            notwf += 1
            continue
        ctx.corr_cases += 1
        nontrivial = any(t[0] == 'lp' for t in o['toks'])
        ctx.count(e, nontrivial)
        d = check_printed(e, o['toks'], pat)
        ctx.tally('grammar_root_kind', e[1][0] if e[0] == 'node' else 'leaf')
        if d:
            bad += 1
            if len(ctx.corr_disagreements) < 20:
                ctx.corr_disagreements.append({'corr': 'grammar-vs-cpython', 'e': e, 'detail': d})
    ctx.notes['grammar_trees'] = len(cases)
    ctx.notes['grammar_trees_not_wf_skipped'] = notwf
    if cases:
        e0, _ = cases[len(cases) // 2]
        ctx.sample({'grammar_tree': e0})
    if bad:
        ctx.brk('correspondence', 'spec grammar vs CPython',
                f'{bad} printed trees do not parse back to the intended tree; first: {ctx.corr_disagreements[0] if ctx.corr_disagreements else ""}')
    # (ii) precedence_require_parens on real edges vs the regenerated table
    edges_vs_table(ctx)
    # (iv) the put-time decision logic (_is_atom, _is_enclosed_in_parents, _is_enclosed_or_line, need_pars, pars option)
    c09b.correspondence_c09b(ctx)


def _edge_worker(src):
    from fst.astutil import precedence_require_parens
    out = []
    try:
        tree = ast.parse(src)
    except Exception:
        return out
    for parent in ast.walk(tree):
        for field, val in ast.iter_fields(parent):
            items = val if isinstance(val, list) else [val]
            for idx, ch in enumerate(items):
                if not isinstance(ch, (ast.expr, ast.pattern)):
                    continue
                if isinstance(parent, (ast.BoolOp, ast.BinOp, ast.UnaryOp)) and field == 'op':
                    continue
                for arglike in (False, True):
                    try:
                        r = precedence_require_parens(ch, parent, field, idx if isinstance(val, list) else None, arglike=arglike)
                    except Exception as e:
                        r = 'exc:' + type(e).__name__
                    pt = parent.op.__class__.__name__ if isinstance(parent, (ast.BoolOp, ast.BinOp, ast.UnaryOp)) else parent.__class__.__name__
                    ct = ch.op.__class__.__name__ if isinstance(ch, (ast.BoolOp, ast.BinOp, ast.UnaryOp)) else ch.__class__.__name__
                    fl = 0
                    if isinstance(parent, ast.Dict) and parent.keys[idx] is None:
                        fl |= 1
                    if isinstance(ch, ast.MatchAs) and ch.pattern is None:
                        fl |= 2
                    if isinstance(parent, ast.Attribute) and isinstance(ch, ast.Constant) and isinstance(ch.value, int):
                        fl |= 4
                    if arglike:
                        fl |= 8
                    out.append((pt, field, ct, fl, r))
    return out


def edges_vs_table(ctx):
    import corpus
    children, rows = extract_prec.table()
    rowidx = {(p, f): i for i, (p, f, _) in enumerate(rows)}
    chidx = {c: i for i, c in enumerate(children)}
    rng = random.Random(ctx.rng.random())
    progs = corpus.programs(rng, 150 if ctx.quick else 1500, layouts=False, stdlib=10 if ctx.quick else 100)
    res = pmap(_edge_worker, progs)
    seen = {}
    for lst in res:
        for pt, f, ct, fl, r in lst:
            seen.setdefault((pt, f, ct, fl), r)
    cases, impl, keys = [], [], []
    for (pt, f, ct, fl), r in seen.items():
        if (pt, f) not in rowidx or ct not in chidx:
            continue
        cases.append({'f': 'C09.cell', 'row': rowidx[(pt, f)], 'child': chidx[ct], 'flags': fl})
        impl.append(r)
        keys.append((pt, f, ct, fl))
    try:
        outs = ctx.lean(cases)
    except Exception as ex:
        ctx.brk('correspondence', 'precedence_require_parens vs table', f'driver error {ex}')
        return
    bad = []
    for k, r, o in zip(keys, impl, outs):
        o = o.get('out', o)
        ctx.corr_cases += 1
        ctx.count(('edge',) + k, True)
        if o.get('req') != r:
            bad.append((k, r, o))
    ctx.notes['distinct_real_edges'] = len(keys)
    if keys:
        ctx.sample({'edge': keys[0], 'precedence_require_parens': impl[0]})
    if bad:
        ctx.brk('correspondence', 'precedence_require_parens (instance flags) vs regenerated table',
                f'{len(bad)} edges differ, first {bad[0]}')


def extract(ctx):
    extract_prec.emit()
    c09b.extract_c09b(ctx)


# ---------------------------------------------------------------------------------------------------------------------
# (iii) real replace() over slot x child kind x layout x form, judged by CPython

# (parent kind as pfst names it, field) -> (source, path to the target as [(field, idx|None), ...] from Module)
V = [('body', 0), ('value', None)]      # x = <value>


def _bin(op):
    return f'x = a {op} b'


SLOTS = {}
for _n, _op in [('Add', '+'), ('Sub', '-'), ('Mult', '*'), ('MatMult', '@'), ('Div', '/'), ('Mod', '%'), ('FloorDiv', '//'),
                ('LShift', '<<'), ('RShift', '>>'), ('BitOr', '|'), ('BitXor', '^'), ('BitAnd', '&'), ('Pow', '**')]:
    SLOTS[(_n, 'left')] = (_bin(_op), V + [('left', None)])
    SLOTS[(_n, 'right')] = (_bin(_op), V + [('right', None)])
for _n, _op in [('Not', 'not '), ('USub', '-'), ('UAdd', '+'), ('Invert', '~')]:
    SLOTS[(_n, 'operand')] = (f'x = {_op}a', V + [('operand', None)])
SLOTS.update({
    ('And', 'values'): ('x = a and b and c', V + [('values', 1)]),
    ('Or', 'values'): ('x = a or b or c', V + [('values', 1)]),
    ('Compare', 'left'): ('x = a < b', V + [('left', None)]),
    ('Compare', 'comparators'): ('x = a < b <= c', V + [('comparators', 0)]),
    ('IfExp', 'body'): ('x = a if b else c', V + [('body', None)]),
    ('IfExp', 'test'): ('x = a if b else c', V + [('test', None)]),
    ('IfExp', 'orelse'): ('x = a if b else c', V + [('orelse', None)]),
    ('Lambda', 'body'): ('x = lambda: a', V + [('body', None)]),
    ('NamedExpr', 'value'): ('x = (y := a)', V + [('value', None)]),
    ('Await', 'value'): ('x = await a', V + [('value', None)]),
    ('Yield', 'value'): ('x = yield a', V + [('value', None)]),
    ('YieldFrom', 'value'): ('x = yield from a', V + [('value', None)]),
    ('Starred', 'value'): ('x = [*a, b]', V + [('elts', 0), ('value', None)]),
    ('Tuple', 'elts'): ('x = (a, b, c)', V + [('elts', 1)]),
    ('List', 'elts'): ('x = [a, b, c]', V + [('elts', 1)]),
    ('Set', 'elts'): ('x = {a, b, c}', V + [('elts', 1)]),
    ('Dict', 'keys'): ('x = {a: b, c: d}', V + [('keys', 1)]),
    ('Dict', 'values'): ('x = {a: b, c: d}', V + [('values', 1)]),
    ('Dict', 'values**'): ('x = {a: b, **d}', V + [('values', 1)]),
    ('Call', 'func'): ('x = f(a)', V + [('func', None)]),
    ('Call', 'args'): ('x = f(a, b, k=c)', V + [('args', 1)]),
    ('keyword', 'value'): ('x = f(a, k=c)', V + [('keywords', 0), ('value', None)]),
    ('Attribute', 'value'): ('x = a.b', V + [('value', None)]),
    ('Subscript', 'value'): ('x = a[b]', V + [('value', None)]),
    ('Subscript', 'slice'): ('x = a[b]', V + [('slice', None)]),
    ('Slice', 'lower'): ('x = a[b:c:d]', V + [('slice', None), ('lower', None)]),
    ('Slice', 'upper'): ('x = a[b:c:d]', V + [('slice', None), ('upper', None)]),
    ('Slice', 'step'): ('x = a[b:c:d]', V + [('slice', None), ('step', None)]),
    ('ListComp', 'elt'): ('x = [a for b in c]', V + [('elt', None)]),
    ('SetComp', 'elt'): ('x = {a for b in c}', V + [('elt', None)]),
    ('GeneratorExp', 'elt'): ('x = (a for b in c)', V + [('elt', None)]),
    ('DictComp', 'key'): ('x = {a: d for b in c}', V + [('key', None)]),
    ('DictComp', 'value'): ('x = {a: d for b in c}', V + [('value', None)]),
    ('comprehension', 'iter'): ('x = [a for b in c if d]', V + [('generators', 0), ('iter', None)]),
    ('comprehension', 'ifs'): ('x = [a for b in c if d if e]', V + [('generators', 0), ('ifs', 1)]),
    ('Expr', 'value'): ('a', [('body', 0), ('value', None)]),
    ('Assign', 'value'): ('x = a', V),
    ('AugAssign', 'value'): ('x += a', V),
    ('AnnAssign', 'value'): ('x: int = a', V),
    ('AnnAssign', 'annotation'): ('x: a = 1', [('body', 0), ('annotation', None)]),
    ('Return', 'value'): ('def f():\n    return a', [('body', 0), ('body', 0), ('value', None)]),
    ('If', 'test'): ('if a:\n    pass', [('body', 0), ('test', None)]),
    ('While', 'test'): ('while a:\n    pass', [('body', 0), ('test', None)]),
    ('Assert', 'test'): ('assert a, b', [('body', 0), ('test', None)]),
    ('Assert', 'msg'): ('assert a, b', [('body', 0), ('msg', None)]),
    ('For', 'iter'): ('for i in a:\n    pass', [('body', 0), ('iter', None)]),
    ('Raise', 'exc'): ('raise a from b', [('body', 0), ('exc', None)]),
    ('Raise', 'cause'): ('raise a from b', [('body', 0), ('cause', None)]),
    ('withitem', 'context_expr'): ('with a as b:\n    pass', [('body', 0), ('items', 0), ('context_expr', None)]),
    ('Match', 'subject'): ('match a:\n    case 1:\n        pass', [('body', 0), ('subject', None)]),
    ('match_case', 'guard'): ('match a:\n    case 1 if b:\n        pass', [('body', 0), ('cases', 0), ('guard', None)]),
    ('FunctionDef', 'decorator_list'): ('@a\ndef f():\n    pass', [('body', 0), ('decorator_list', 0)]),
    ('ClassDef', 'decorator_list'): ('@a\nclass f:\n    pass', [('body', 0), ('decorator_list', 0)]),
    ('FunctionDef', 'returns'): ('def f() -> a:\n    pass', [('body', 0), ('returns', None)]),
    ('ClassDef', 'bases'): ('class c(a, b):\n    pass', [('body', 0), ('bases', 1)]),
    ('arguments', 'defaults'): ('def f(p=a, q=b):\n    pass', [('body', 0), ('args', None), ('defaults', 1)]),
    ('arguments', 'kw_defaults'): ('def f(*, p=a, q=b):\n    pass', [('body', 0), ('args', None), ('kw_defaults', 1)]),
    ('arg', 'annotation'): ('def f(p: a):\n    pass', [('body', 0), ('args', None), ('args', 0), ('annotation', None)]),
})
# tight layouts: the target is redundantly parenthesised and touches keywords on both sides, so removing the parentheses
# requires separating blanks (alnum merge handling in _make_exprlike_fst)
SLOTS.update({
    ('IfExp', 'test@tight'): ('x = p if(a)else q', V + [('test', None)]),
    ('IfExp', 'body@tight'): ('x = (a)if b else q', V + [('body', None)]),
    ('Compare', 'comparators@tight'): ('x = b in(a)if c else d', V + [('body', None), ('comparators', 0)]),
    ('ListComp', 'elt@tight'): ('x = [(a)for b in c]', V + [('elt', None)]),
    ('comprehension', 'iter@tight'): ('x = [a for b in(c)if d]', V + [('generators', 0), ('iter', None)]),
    ('BoolOp', 'values@tight'): ('x = p and(a)and q', V + [('values', 1)]),
    ('Not', 'operand@tight'): ('x = not(a)', V + [('operand', None)]),
    ('Return', 'value@tight'): ('def f():\n    return(a)', [('body', 0), ('body', 0), ('value', None)]),
})
# targets that share delimiters with their parent, are an unparenthesised tuple, or carry redundant own parentheses: what is
# overwritten together with the target (`del_tgt_pars`, pars(shared=False)) decides whether the parent keeps its delimiters
SLOTS.update({
    ('Call', 'args@genexp'): ('x = f(i for i in a)', V + [('args', 0)]),
    ('Call', 'args@genexp-pars'): ('x = f((i for i in a))', V + [('args', 0)]),
    ('Call', 'args@solo-pars'): ('x = f((a))', V + [('args', 0)]),
    ('Call', 'args@solo'): ('x = f(a)', V + [('args', 0)]),
    ('Call', 'args@starred'): ('x = f(*a)', V + [('args', 0), ('value', None)]),
    ('ClassDef', 'bases@solo-pars'): ('class c((a)):\n    pass', [('body', 0), ('bases', 0)]),
    ('ClassDef', 'bases@solo'): ('class c(a):\n    pass', [('body', 0), ('bases', 0)]),
    ('Subscript', 'slice@tuple'): ('x = s[a, b]', V + [('slice', None)]),
    ('Subscript', 'slice@pars'): ('x = s[(a)]', V + [('slice', None)]),
    ('Subscript', 'slice@tuple-elt'): ('x = s[a, b]', V + [('slice', None), ('elts', 0)]),
    ('Subscript', 'value@pars'): ('x = (a)[b]', V + [('value', None)]),
    ('Attribute', 'value@pars'): ('x = (a).b', V + [('value', None)]),
    ('Attribute', 'value@int'): ('x = (1).b', V + [('value', None)]),
    ('Tuple', 'elts@bare0'): ('x = a, b', V + [('elts', 0)]),
    ('Tuple', 'elts@bare1'): ('x = a, b', V + [('elts', 1)]),
    ('Tuple', 'elts@stmt'): ('a, b', [('body', 0), ('value', None), ('elts', 1)]),
    ('Assign', 'value@tuple'): ('x = a, b', V),
    ('Return', 'value@tuple'): ('def f():\n    return a, b', [('body', 0), ('body', 0), ('value', None)]),
    ('For', 'iter@tuple'): ('for i in a, b:\n    pass', [('body', 0), ('iter', None)]),
    ('withitem', 'context_expr@pars'): ('with (a):\n    pass', [('body', 0), ('items', 0), ('context_expr', None)]),
    ('withitem', 'context_expr@pars-as'): ('with (a) as b:\n    pass', [('body', 0), ('items', 0), ('context_expr', None)]),
    ('withitem', 'context_expr@pars-two'): ('with (a, b):\n    pass', [('body', 0), ('items', 0), ('context_expr', None)]),
    ('Await', 'value@pars'): ('x = await (a)', V + [('value', None)]),
    ('Yield', 'value@tuple'): ('x = yield a, b', V + [('value', None)]),
    ('NamedExpr', 'value@stmt-pars'): ('(y := a)', [('body', 0), ('value', None), ('value', None)]),
    ('Lambda', 'body@pars'): ('x = lambda: (a)', V + [('body', None)]),
    ('Starred', 'value@pars'): ('x = [*(a), b]', V + [('elts', 0), ('value', None)]),
    ('keyword', 'value@pars'): ('x = f(k=(a))', V + [('keywords', 0), ('value', None)]),
    ('Dict', 'values**@pars'): ('x = {**(a)}', V + [('values', 0)]),
    ('comprehension', 'iter@pars'): ('x = [a for b in (c)]', V + [('generators', 0), ('iter', None)]),
    ('GeneratorExp', 'elt@call'): ('x = f(a for b in c)', V + [('args', 0), ('elt', None)]),
    ('Slice', 'lower@pars'): ('x = a[(b):c]', V + [('slice', None), ('lower', None)]),
    ('FunctionDef', 'decorator_list@pars'): ('@(a)\ndef f():\n    pass', [('body', 0), ('decorator_list', 0)]),
    ('Assert', 'test@pars'): ('assert (a), b', [('body', 0), ('test', None)]),
    ('Expr', 'value@pars'): ('(a)', [('body', 0), ('value', None)]),
})
# sole with-items without `as` (a Tuple put there needs its own parentheses or it becomes several items), async forms of
# every statement that has one
AF = [('body', 0), ('body', 0)]
SLOTS.update({
    ('withitem', 'context_expr@sole'): ('with a:\n    pass', [('body', 0), ('items', 0), ('context_expr', None)]),
    ('withitem', 'context_expr@two'): ('with a, b:\n    pass', [('body', 0), ('items', 1), ('context_expr', None)]),
    ('withitem', 'context_expr@async-sole'): ('async def f():\n    async with a:\n        pass', AF + [('items', 0), ('context_expr', None)]),
    ('withitem', 'context_expr@async-as'): ('async def f():\n    async with a as b:\n        pass', AF + [('items', 0), ('context_expr', None)]),
    ('withitem', 'context_expr@async-pars'): ('async def f():\n    async with (a):\n        pass', AF + [('items', 0), ('context_expr', None)]),
    ('withitem', 'context_expr@async-two'): ('async def f():\n    async with a, b:\n        pass', AF + [('items', 1), ('context_expr', None)]),
    ('withitem', 'context_expr@async-pars-two'): ('async def f():\n    async with (a, b):\n        pass', AF + [('items', 0), ('context_expr', None)]),
    ('AsyncFor', 'iter'): ('async def f():\n    async for i in a:\n        pass', AF + [('iter', None)]),
    ('AsyncFor', 'iter@tuple'): ('async def f():\n    async for i in a, b:\n        pass', AF + [('iter', None)]),
    ('comprehension', 'iter@async'): ('async def f():\n    x = [a async for b in c if d]', AF + [('value', None), ('generators', 0), ('iter', None)]),
    ('comprehension', 'ifs@async'): ('async def f():\n    x = [a async for b in c if d if e]', AF + [('value', None), ('generators', 0), ('ifs', 1)]),
    ('AsyncFunctionDef', 'decorator_list'): ('@a\nasync def f():\n    pass', [('body', 0), ('decorator_list', 0)]),
    ('AsyncFunctionDef', 'returns'): ('async def f() -> a:\n    pass', [('body', 0), ('returns', None)]),
    ('Await', 'value@stmt'): ('async def f():\n    await a', AF + [('value', None), ('value', None)]),
    ('TryStar', 'handler-type'): ('try:\n    pass\nexcept* a:\n    pass', [('body', 0), ('handlers', 0), ('type', None)]),
    ('Try', 'handler-type'): ('try:\n    pass\nexcept a:\n    pass', [('body', 0), ('handlers', 0), ('type', None)]),
    ('Try', 'handler-type@as'): ('try:\n    pass\nexcept a as e:\n    pass', [('body', 0), ('handlers', 0), ('type', None)]),
    ('TypeAlias', 'value'): ('type T = a', [('body', 0), ('value', None)]),
    ('TypeVar', 'bound'): ('def f[T: a]():\n    pass', [('body', 0), ('type_params', 0), ('bound', None)]),
    ('Delete', 'targets@sub'): ('del s[a]', [('body', 0), ('targets', 0), ('slice', None)]),
    ('AugAssign', 'value@tuple'): ('x += a, b', V),
    ('AnnAssign', 'value@tuple'): ('x: int = a, b', V),
    ('FormattedValue', 'value'): ('x = f"{a}"', V + [('values', 0), ('value', None)]),
    ('FormattedValue', 'value@text-before'): ('x = f"naïve {a} b"', V + [('values', 1), ('value', None)]),
    ('FormattedValue', 'value@spec'): ('x = f"{a:>5}"', V + [('values', 0), ('value', None)]),
    ('FormattedValue', 'value@conv'): ('x = f"é {a!r} {b}"', V + [('values', 1), ('value', None)]),
    ('FormattedValue', 'value@nested-spec'): ('x = f"{a:{b}}"', V + [('values', 0), ('format_spec', None), ('values', 0), ('value', None)]),
    ('Global', 'none'): ('x = a', V),
})
del SLOTS[('Global', 'none')]
_PCX = [('body', 0), ('cases', 0), ('pattern', None)]
_AT = [('body', 0), ('target', None)]
# bases inside an annotated-assignment target (`(x)[b].c: int` is a SyntaxError: parentheses that are kept force the WHOLE target to
# be parenthesised, however many Attribute / Subscript levels lie between the edited base and the AnnAssign)
SLOTS.update({
    ('Subscript', 'value@AnnAssign-target'): ('a[b]: int', _AT + [('value', None)]),
    ('Subscript', 'value@AnnAssign-target.attr'): ('a[b].c: int', _AT + [('value', None), ('value', None)]),
    ('Subscript', 'value@AnnAssign-target.attr-chain'): ('self.m[k].v: T = z', _AT + [('value', None), ('value', None)]),
    ('Subscript', 'value@AnnAssign-target[][]'): ('a[b][c]: int = 1', _AT + [('value', None), ('value', None)]),
    ('Subscript', 'value@AnnAssign-target[].attr[]'): ('a[b].c[d]: int', _AT + [('value', None), ('value', None), ('value', None)]),
    ('Attribute', 'value@AnnAssign-target'): ('a.b: int', _AT + [('value', None)]),
    ('Attribute', 'value@AnnAssign-target[]'): ('a.b[c]: int = 1', _AT + [('value', None), ('value', None)]),
    ('Attribute', 'value@AnnAssign-target.attr'): ('a.b.c: int', _AT + [('value', None), ('value', None)]),
    ('Attribute', 'value@AnnAssign-target[].attr'): ('a.b[c].d: int', _AT + [('value', None), ('value', None), ('value', None)]),
    ('comprehension', 'ifs@first'): ('x = [a for b in c if d if e]', V + [('generators', 0), ('ifs', 0)]),
    ('comprehension', 'ifs@sole-gen'): ('x = (a for b in c if d)', V + [('generators', 0), ('ifs', 0)]),
    ('comprehension', 'ifs@dict-first-of-two-gens'): ('x = {k: v for k in c if d for v in e if f}', V + [('generators', 0), ('ifs', 0)]),
})
# expressions INSIDE patterns (dotted names, mapping keys, class names): they cannot carry grouping parentheses of their own
SLOTS.update({
    ('Attribute', 'value@MatchValue'): ('match s:\n    case a.b:\n        pass', _PCX + [('value', None), ('value', None)]),
    ('Attribute', 'value@MatchValue-or'): ('match s:\n    case a.b | c:\n        pass', _PCX + [('patterns', 0), ('value', None), ('value', None)]),
    ('Attribute', 'value@MatchValue-as'): ('match s:\n    case a.b.c as z:\n        pass', _PCX + [('pattern', None), ('value', None), ('value', None)]),
    ('Attribute', 'value@MatchValue-seq'): ('match s:\n    case a.b, 2:\n        pass', _PCX + [('patterns', 0), ('value', None), ('value', None)]),
    ('Attribute', 'value@MatchValue-pars'): ('match s:\n    case (a.b):\n        pass', _PCX + [('value', None), ('value', None)]),
    ('Attribute', 'value@MatchValue-list'): ('match s:\n    case [a.b, 2]:\n        pass', _PCX + [('patterns', 0), ('value', None), ('value', None)]),
    ('Attribute', 'value@MatchMapping-key'): ('match s:\n    case {a.b: 1}:\n        pass', _PCX + [('keys', 0), ('value', None)]),
    ('Attribute', 'value@MatchClass-cls'): ('match s:\n    case a.b(x):\n        pass', _PCX + [('cls', None), ('value', None)]),
    ('Attribute', 'value@MatchClass-arg'): ('match s:\n    case C(a.b, k=c.d):\n        pass', _PCX + [('kwd_patterns', 0), ('value', None), ('value', None)]),
    ('MatchClass', 'cls'): ('match s:\n    case C(x):\n        pass', _PCX + [('cls', None)]),
    ('MatchClass', 'cls@or'): ('match s:\n    case C(x) | 2:\n        pass', _PCX + [('patterns', 0), ('cls', None)]),
    ('MatchValue', 'value'): ('match s:\n    case a.b:\n        pass', _PCX + [('value', None)]),
    ('MatchValue', 'value@as'): ('match s:\n    case a.b as z:\n        pass', _PCX + [('pattern', None), ('value', None)]),
    ('MatchMapping', 'keys'): ('match s:\n    case {1: u, a.b: v}:\n        pass', _PCX + [('keys', 1)]),
    ('MatchMapping', 'keys@bare-seq'): ('match s:\n    case {a.b: v}, 2:\n        pass', _PCX + [('patterns', 0), ('keys', 0)]),
})
PC = [('body', 0), ('cases', 0), ('pattern', None)]
PAT_SLOTS = {
    ('MatchAs', 'pattern'): ('match s:\n    case 1 as z:\n        pass', PC + [('pattern', None)]),
    ('MatchOr', 'patterns'): ('match s:\n    case 1 | 2 | 3:\n        pass', PC + [('patterns', 1)]),
    ('MatchSequence', 'patterns'): ('match s:\n    case [1, 2, 3]:\n        pass', PC + [('patterns', 1)]),
    ('MatchMapping', 'patterns'): ('match s:\n    case {1: u, 2: v}:\n        pass', PC + [('patterns', 1)]),
    ('MatchClass', 'patterns'): ('match s:\n    case C(1, 2):\n        pass', PC + [('patterns', 1)]),
    ('MatchClass', 'kwd_patterns'): ('match s:\n    case C(k=1, l=2):\n        pass', PC + [('kwd_patterns', 1)]),
    ('match_case', 'pattern'): ('match s:\n    case 1:\n        pass', PC),
    ('MatchClass', 'patterns@solo-pars'): ('match s:\n    case C((1)):\n        pass', PC + [('patterns', 0)]),
    ('MatchClass', 'patterns@solo'): ('match s:\n    case C(1):\n        pass', PC + [('patterns', 0)]),
    ('MatchAs', 'pattern@pars'): ('match s:\n    case (1) as z:\n        pass', PC + [('pattern', None)]),
    ('MatchOr', 'patterns@pars'): ('match s:\n    case (1) | 2:\n        pass', PC + [('patterns', 0)]),
    ('MatchSequence', 'patterns@bare'): ('match s:\n    case 1, 2:\n        pass', PC + [('patterns', 0)]),
    ('match_case', 'pattern@seq'): ('match s:\n    case 1, 2:\n        pass', PC),
    ('match_case', 'pattern@pars'): ('match s:\n    case (1):\n        pass', PC),
}

CHILDREN = {
    'Name': 'zz', 'Constant': '7', 'ConstantStr': '"s"', 'Or': 'p or q', 'And': 'p and q', 'Not': 'not p', 'USub': '-p',
    'Invert': '~p', 'BitOr': 'p | q', 'BitXor': 'p ^ q', 'BitAnd': 'p & q', 'LShift': 'p << q', 'Add': 'p + q', 'Sub': 'p - q',
    'Mult': 'p * q', 'MatMult': 'p @ q', 'Div': 'p / q', 'Pow': 'p ** q', 'NamedExpr': 'p := q', 'Lambda': 'lambda: p',
    'LambdaArgs': 'lambda u, v=1: p', 'IfExp': 'p if q else r', 'Await': 'await p', 'Yield': 'yield p', 'YieldFrom': 'yield from p',
    'Compare': 'p < q', 'CompareIn': 'p not in q', 'Tuple': 'p, q', 'Tuple1': 'p,', 'Starred': '*p', 'Call': 'p(q)',
    'Attribute': 'p.q', 'Subscript': 'p[q]', 'List': '[p, q]', 'Dict': '{p: q}', 'Set': '{p}', 'ListComp': '[p for p in q]',
    'GeneratorExp': '(p for p in q)', 'JoinedStr': 'f"{p}"', 'ImplicitStr': '"s" "t"', 'Float': '1.5', 'Ellipsis': '...',
    # undelimited sequences whose first / last elements carry their own delimiters (a naive "starts with an opener and ends
    # with a closer" test takes them for delimited)
    'TupleBrEnds': '[p], [q]', 'TupleParEnds': '(p), (q)', 'TupleTupEnds': '(p, q), (r, s)', 'TupleBrFirst': '[p], q',
    'TupleParFirstStar': '(p), *q', 'CallPars': '(p)(q)', 'SubPars': '(p)[q]', 'BinParEnds': '(p) + (q)', 'CmpParEnds': '(p) < (q)',
    'IfExpParEnds': '(p) if q else (r)', 'BoolParEnds': '(p) or (q)', 'AttrPars': '(p).q',
    # multi-byte children (byte / character columns of what the put itself writes: parentheses, delimiters)
    'TupleMb': 'é, ü', 'Tuple1Mb': 'é,', 'NameMb': 'é', 'CallMb': 'é(ü)', 'AddMb': 'é + ü', 'StrMb': '"é"', 'LambdaMb': 'lambda é: ü',
    'IfExpMb': 'é if ü else ö', 'OrMb': 'é or ü', 'NamedExprMb': 'é := ü', 'CompareMb': 'é < ü', 'StarredMb': '*é', 'YieldMb': 'yield é',
}
PAT_CHILDREN = {'MatchValue': '7', 'MatchSingleton': 'None', 'MatchAsName': 'zz', 'MatchAs': 'p as q', 'MatchOr': '7 | 8',
                'MatchSequence': 'p, q', 'MatchSequenceBr': '[p, q]', 'MatchMapping': '{1: p}', 'MatchClass': 'C(p)',
                'MatchValueAttr': 'a.b', 'Wildcard': '_',
                'MatchSequenceBrEnds': '[p], [q]', 'MatchSequenceParEnds': '(p), (q)', 'MatchSequenceBrFirst': '[p], q',
                'MatchSequenceBrStar': '[p], *q', 'MatchSequenceTupEnds': '(p, q), (r, s)', 'MatchOrParEnds': '(7) | (8)',
                'MatchAsPars': '(p) as q', 'MatchOrBrEnds': '[p] | [q]',
                'MatchSequenceMb': 'é, ü', 'MatchOrMb': '"é" | "ü"', 'MatchAsMb': 'é as ü', 'MatchClassMb': 'É(ü)', 'MatchValueMb': '"é"'}

LAYOUTS = ['bare', 'pars', 'multi_pars', 'multi_cont', 'comment', 'comment_bs', 'multi_bare']


def layout(src, how, is_tuple_like):
    """re-layout a child source; returns None if the layout does not apply"""
    if how == 'bare':
        return src
    if how == 'pars':
        return f'({src})' if not src.startswith('*') else None
    if how == 'multi_bare':     # code that spans lines WITHOUT enclosure of its own (legal as code to put: the put must enclose it, or refuse
        if src.startswith('*') or src.startswith('yield') or src.startswith('await') or src.startswith('lambda') or src.startswith('not '):
            return None         # where the slot cannot take parentheses, e.g. an expression inside a pattern)
        if ' ' in src:
            return src.replace(' ', '\n  ', 1)
        if '.' in src and not src[0].isdigit() and src != '...':
            return src.replace('.', '\n  .', 1)
        return None
    toks = src.split(' ')
    if len(toks) < 3:
        return None
    if how == 'multi_pars':
        return None if src.startswith('*') else '(' + toks[0] + '\n   ' + ' '.join(toks[1:]) + '\n)'
    if how == 'multi_cont':
        return toks[0] + ' \\\n  ' + ' '.join(toks[1:])
    if how == 'comment':
        return None if src.startswith('*') else '(' + toks[0] + '  # cmt\n ' + ' '.join(toks[1:]) + ')'
    if how == 'comment_bs':     # a comment that ENDS in a backslash is not a line continuation
        return None if src.startswith('*') else '(' + toks[0] + '  # see C:\\tmp\\\n ' + ' '.join(toks[1:]) + ')'
    return None


def _nav(tree, path):
    n = tree
    for f, i in path:
        n = getattr(n, f)
        if i is not None:
            n = n[i]
    return n


def _set(tree, path, new):
    n = tree
    for f, i in path[:-1]:
        n = getattr(n, f)
        if i is not None:
            n = n[i]
    f, i = path[-1]
    if i is None:
        setattr(n, f, new)
    else:
        getattr(n, f)[i] = new


def _parse_child(csrc, pat):
    if pat:
        return ast.parse(f'match x:\n case {csrc}: pass').body[0].cases[0].pattern
    return ast.parse('(\n' + csrc + '\n)', mode='eval').body if not csrc.lstrip().startswith('*') else \
        ast.parse('[\n' + csrc + '\n]', mode='eval').body.elts[0]


def _strip_ctx(d):
    return d


def _replace_case(arg):
    (slot_key, psrc, path, pat, ck, csrc0, lay, form) = arg[:8]
    via = arg[8] if len(arg) > 8 else 'replace'
    from fst import FST
    csrc = layout(csrc0, lay, False)
    res = {'slot': slot_key, 'child': ck, 'layout': lay, 'form': form, 'via': via}
    if csrc is None:
        res['skip'] = 'layout n/a'
        return res
    try:
        child_ast = _parse_child(csrc, pat)
    except SyntaxError:
        res['skip'] = 'child layout does not parse'
        return res
    expected = ast.parse(psrc)
    _set(expected, path, copy.deepcopy(child_ast))
    exp_dump = ast.dump(expected)
    try:
        compile_ok = ast.dump(ast.parse(ast.unparse(ast.fix_missing_locations(copy.deepcopy(expected))))) == exp_dump
    except Exception:
        compile_ok = False          # the requested result is not valid Python at all (e.g. starred in a wrong place)
    if not compile_ok:
        # ast.unparse itself loses some groupings (a Tuple as the sole item of a with statement): a tree the COMPILER accepts
        # is a valid request as well
        try:
            compile(ast.fix_missing_locations(copy.deepcopy(expected)), '<c09>', 'exec', dont_inherit=True)
            compile_ok = True
        except Exception:
            pass
    root = FST(psrc, 'exec')
    tgt = _nav(root.a, path).f
    try:
        if form == 'src':
            code = csrc
        elif form == 'ast':
            code = copy.deepcopy(child_ast)
        else:
            code = FST(csrc, 'pattern' if pat else 'expr') if not csrc.lstrip().startswith('*') else FST(csrc, 'expr_arglike')
    except Exception as e:
        res['skip'] = 'code form not constructible: ' + type(e).__name__
        return res
    try:
        if via == 'replace':
            tgt.replace(code)
        else:       # the same operand replacement through the slice path
            fld, idx = path[-1]
            tgt.parent.put_slice(code, idx, idx + 1, fld, one=True)
    except Exception as e:
        res['raised'] = type(e).__name__
        return res
    src = root.src
    res['src'] = src
    try:
        got = ast.parse(src)
    except SyntaxError as e:
        res['fail'] = f'result does not parse: {e}'
        res['valid_request'] = compile_ok
        return res
    gd = ast.dump(got)
    if gd != exp_dump:
        # ctx differences (Load vs Store) are part of the tree; expected was built with Load children in Load slots
        res['fail'] = 'edited source parses to a different grouping: ' + util.first_diff(exp_dump, gd)
        res['valid_request'] = compile_ok
        return res
    d = util.tree_equals_parse(root)
    if d:
        res['fail_c01'] = d
    res['pars_added'] = src.count('(') - psrc.count('(') - csrc.count('(')
    if not d and via == 'replace' and compile_ok:
        # second step: the node just put is replaced again by a plain name / value (its recorded extent, incl. the
        # parentheses or delimiters the first put wrote, decides what is overwritten)
        try:
            new_tgt = _nav(root.a, path).f
            second = '7' if pat else 'zz'
            exp2 = ast.parse(psrc)
            _set(exp2, path, _parse_child(second, pat))
            new_tgt.replace(second)
            got2 = ast.parse(root.src)
            if ast.dump(got2) != ast.dump(exp2):
                res['fail'] = 'second replacement (of the node just put) parses to a different tree: ' + util.first_diff(ast.dump(exp2), ast.dump(got2))
                res['valid_request'] = True
                res['src'] = root.src
            else:
                d2 = util.tree_equals_parse(root)
                if d2:
                    res['fail_c01'] = 'after the second replacement: ' + d2
                    res['src'] = root.src
        except SyntaxError as e:
            res['fail'] = f'result of the second replacement does not parse: {e}'
            res['valid_request'] = True
            res['src'] = root.src
        except Exception as e:
            res['second_raised'] = type(e).__name__
    return res


def _mb_tables():
    """multi-byte identifier variants of every slot (multi-byte text before the target on its line: byte/char columns)"""
    import c01_targets
    out = []
    for table, kids, pat in ((SLOTS, CHILDREN, False), (PAT_SLOTS, PAT_CHILDREN, True)):
        t2 = {}
        for key, (psrc, path) in table.items():
            m = c01_targets.mb(psrc)
            if m is not None:
                t2[(key[0], key[1] + '@mb')] = (m, path)
        out.append((t2, kids, pat))
    return out


MB_KEYS = {}


def replace_jobs(ctx, full):
    rng = random.Random(ctx.rng.random())
    jobs = []
    mbt = _mb_tables()
    for t2, _, pat in mbt:
        MB_KEYS.update(t2)
    for table, kids, pat in ((SLOTS, CHILDREN, False), (PAT_SLOTS, PAT_CHILDREN, True)) + tuple(mbt):
        for key, (psrc, path) in table.items():
            for ck, csrc in kids.items():
                combos = [(l, f) for l in LAYOUTS for f in ('src', 'ast', 'fst')]
                if not full:
                    combos = [('bare', 'src'), ('multi_bare', 'src')] + rng.sample(combos[1:], 2)
                for lay, form in combos:
                    if form == 'ast' and lay != 'bare':
                        continue
                    jobs.append((key, psrc, path, pat, ck, csrc, lay, form))
                    if path[-1][1] is not None and key[1].split('@')[0] in ('values', 'elts', 'args', 'bases', 'patterns', 'decorator_list'):
                        jobs.append((key, psrc, path, pat, ck, csrc, lay, form, 'put_slice'))
    return jobs


def _sig(r):
    cls = "no-parse" if "does not parse" in r.get("fail", "") else "regroup"
    return f'C09|{r.get("via", "replace")}|{r["slot"][0]}.{r["slot"][1]}|{r["child"]}|{r["layout"]}|{cls}'


def sweep(ctx):
    jobs = replace_jobs(ctx, full=not ctx.quick)
    res = pmap(_replace_case, jobs)
    n = 0
    for r in res:
        if 'skip' in r:
            ctx.tally('replace_skipped', r['skip'])
            continue
        n += 1
        ctx.count((r['slot'], r['child'], r['layout'], r['form'], r.get('via')), r.get('pars_added', 1) != 0 or 'raised' in r)
        if 'raised' in r:
            ctx.tally('replace_raised', r['raised'])
            continue
        ctx.tally('replace_form', r['form'])
        ctx.tally('replace_layout', r['layout'])
        if 'fail' in r and not r.get('valid_request', True):
            # the requested tree is not representable as Python source at all (e.g. a bare Starred as Subscript.slice):
            # outside C09's quantifier (not a grouping question); counted, reported under C01
            ctx.tally('unrepresentable_request_accepted', f'{r["slot"][0]}.{r["slot"][1]}<-{r["child"]}')
            continue
        if 'fail' in r:
            ctx.fail(_sig(r), f'replace at {r["slot"]} with {r["child"]} ({r["layout"]}, {r["form"]}): {r["fail"]}',
                     {'slot': list(r['slot']), 'child': r['child'], 'layout': r['layout'], 'form': r['form'], 'via': r.get('via', 'replace'), 'result_src': r.get('src')})
        elif 'fail_c01' in r:
            ctx.fail(f'C09|replace-positions|{r["slot"][0]}.{r["slot"][1]}|{r["child"]}',
                     f'replace at {r["slot"]} with {r["child"]}: {r["fail_c01"]}',
                     {'slot': list(r['slot']), 'child': r['child'], 'layout': r['layout'], 'form': r['form'], 'via': r.get('via', 'replace'), 'result_src': r.get('src')})
    ctx.notes['real_replace_edits'] = n
    ctx.exhaustive = not ctx.quick
    good = [r for r in res if 'src' in r and 'fail' not in r]
    if good:
        ctx.sample({'replace': {k: good[len(good) // 3][k] for k in ('slot', 'child', 'layout', 'form', 'src')}})


def search(ctx):
    old = ctx.tier
    jobs = replace_jobs(ctx, full=True)
    res = pmap(_replace_case, jobs)
    for r in res:
        if 'fail' in r and r.get('valid_request', True):
            ctx.fail(_sig(r), f'replace at {r["slot"]} with {r["child"]} ({r["layout"]}, {r["form"]}): {r["fail"]}',
                     {'slot': list(r['slot']), 'child': r['child'], 'layout': r['layout'], 'form': r['form'], 'via': r.get('via', 'replace'), 'result_src': r.get('src')})
    ctx.notes['search_replace_edits'] = len(res)
    c09b.search_c09b(ctx)


def replay(ctx, data):
    w = data.get('witness')
    if not w:
        print('replay names a broken obligation:', data.get('broken'))
        return
    if w.get('c09b'):
        return c09b.replay_c09b(ctx, w)
    key = tuple(w['slot'])
    if key[1].endswith('@mb'):
        for t2, _, p2 in _mb_tables():
            MB_KEYS.update(t2)
        base = (key[0], key[1][:-3])
        pat = base in PAT_SLOTS
        psrc, path = MB_KEYS[key]
    else:
        pat = key in PAT_SLOTS
        psrc, path = (PAT_SLOTS if pat else SLOTS)[key]
    csrc = (PAT_CHILDREN if pat else CHILDREN)[w['child']]
    r = _replace_case((key, psrc, path, pat, w['child'], csrc, w['layout'], w['form'], w.get('via', 'replace')))
    if 'fail' in r:
        ctx.fail('replay', r['fail'], w)
