"""C17 — matching depends only on structure; quantifiers behave like regular expressions."""

import ast
import json
import random

import c17_lib as L
import corpus
import framework
from framework import pmap

ID = 'C17'
LEAN_MODULES = ['Pfst.Props.C17']
THEOREMS = [
    'Pfst.C17.match_self', 'Pfst.C17.match_one_leaf', 'Pfst.C17.match_same_structure',
    'Pfst.C17.match_pure', 'Pfst.C17.m_wrap_extends',
    'Pfst.C17.leaf_table_ok', 'Pfst.C17.leaf_table_nonempty', 'Pfst.C17.prefilter_sound',
    'Pfst.C17.search_eq_filter', 'Pfst.C17.search_eq_filter_all', 'Pfst.C17.search_events', 'Pfst.C17.enter_events_are_walk',
    'Pfst.C17.list_regex_partial', 'Pfst.C17.list_regex_false_reentry',
]
RULE = ('LIST: pattern sequences over {a, b, ..., M(t=...), M(t=a), MTAG(t), MAND(..., t1=M(t0=...)), MOR(t1=M(t0=a), t2=b)} x quantifier {*, +, ?, {1,2}} x greedy/non-greedy x '
        '(single | sublist body, 11 sublist bodies incl. inner quantifiers): all sequences of length <= 2 (thorough; '
        'sampled in quick), sampled length 3, plus random wider patterns (nested sublists, tagged quantifiers, static '
        'tags, {m,n} up to 3, three tags) — each against ALL 364 element sequences over {a,b,c} of length <= 5, as FST '
        'and as pure AST targets; real result (accept/reject + every capture as index ranges) compared with the Lean '
        'model (must agree, the known re-entry defect included) and with re.fullmatch on the letter encoding (the property). '
        'PRODUCTS (deterministic): a tree with every primitive kind in every primitive position (bytes of 2+ bytes, large '
        'ints, float, complex, None, Ellipsis, bool, str, identifiers, level, conversion) vs the pattern from an independent '
        'parse and from a deep copy with fresh equal leaf objects, node by node, and search with hand-written constants; '
        'lists of identifiers (global, nonlocal, MatchClass kwd_attrs, import names, args) of 1-3 names incl. non-NFKC '
        'spellings at every position vs the pattern from their own parse and from every single-position variant (sibling '
        'value, first/last name, new name, normalised spelling, swaps), judged by ast.dump equality; '
        'None / MMAYBE patterns vs every falsy value; MQ constructor bounds vs re {m,n}; views '
        '(slices of Compare/Dict/MatchMapping/arguments._all) as patterns vs the copies of all slices; the documented '
        'single-argument rules of Marguments(_all=[...]) (kind x _strict x default spec x target). '
        'EVENTS: search(pattern, nested, on=, back=, scope=) for on in enter/leave/both x nested x back x scope, from the '
        'module and from a nested def/class/lambda, with 13 tagged patterns whose verdict differs between a node and its '
        'descendants, on nested list/call shapes, corpus programs and hard snippets: the event list (node, leaving, tags) '
        'must equal the two-sided walk filtered by match() of each event\'s own node (pruned below matches when '
        'nested=False); nested=True also compared with the model for the three on modes. '
        'PURITY: a structural dump of every pattern object and of the shared containers of fst.match is compared before '
        'and after the calls of every list / tree / search case; every anonymous tagging pattern (M with static tags '
        'only, MCB, MMAYBE, MNOT, MRE, MTAG, MOR/MAND over such) is shared with each of 16 wrapper shapes (M, M over M, '
        'tagged M, MOR, MAND, MMAYBE, MNOT, node fields, call args, star / plus / sublist quantifiers, AST field), run '
        'through match/search/sub histories, and must then give the results (tags with key order) of an equal fresh '
        'pattern. STRUCTURE: corpus trees vs the pattern built from their own AST, vs every kind of single-leaf mutant, '
        'formatted vs re-layout vs pure AST, repeated/shuffled call orders. SEARCH: list(search(p)) vs filtered walk: '
        'base patterns of four kinds (type-exact, type-plus-field incl. MTYPES with fields, AST instances incl. '
        'expr_context instances, source/regex/callback patterns), every unary combinator (M, tagged M, MNOT, tagged MNOT, '
        'MMAYBE, MAND(M(t=..), MTAG(t))) over every base on every program, sampled MOR/MAND (plain and tagged) pairs and '
        'two-level nestings; compared with the walk oracle and (where modelled) with the model incl. the leaf set. '
        'distinct = distinct (pattern, target) pairs; non-trivial = the match succeeds or the pattern has a quantifier')
TRUSTED = [
    'modelled: _match__inside_list, _match__inside_list_quantifier (phases, static-tag append, greedy back-off to the '
    'saved start index of the discarded iteration, '
    'non-greedy extension, sublist bodies, pat_tag lists), _MatchState tag stack as a flat environment (last binding '
    'wins), M/MNOT/MOR/MAND/MMAYBE/MTAG/MTYPES._match on generic trees, _match_node/_match_type/_match_list with AST '
    'patterns, the _leaf_asts combinators, search(nested=True,on=enter) as filtered pre-order walk',
    'not modelled: _match_str/_match_re_Pattern on source text (excluded by the property), _match_primitive type rules '
    '(covered by the sweep on real constants only), FSTView targets (Dict/arguments/Compare multi-node items), MRE, '
    'MCB, search(nested=False, on=leave/both, send()); sublist bodies that can match the empty sequence (bounded '
    'quantifier) are only checked on four fixed witnesses against re (an empty slice carries no index to compare)',
    'expr_context instances inside AST patterns are serialised as the type pattern expr_context (ctx=False), as a '
    'search pattern themselves as Pat.ctxInst; str / re / MRE / MCB patterns are not modelled: they are checked '
    'against the walk oracle only; match option ctx=True is not modelled',
    'MTYPES with fields is modelled for fields that exactly one of the listed classes has',
    'the `re` oracle is used only where the pattern has a faithful rendering: every tag captured at one place, '
    'references after their capture, no reference across a tagged quantifier',
]
ASSUMPTIONS = [
    'list elements are Name nodes a/b/c inside a List; one letter per element',
    'a match call is atomic; patterns are not mutated by the caller between calls',
    'fuel of the Lean loops (len + max + 2 per quantifier) is never exhausted for patterns MQ.__init__ accepts',
]
LEVEL_TEXT = ('Lean 4 theorems about an executable model of the list/quantifier matcher, the structural matcher and the '
              'search pre-filter: a tree matches its own pattern and no single-leaf variant; the pre-filter is sound for '
              'every pattern combinator (MNOT included) and search equals the filtered walk; for every pattern sequence '
              'in which no quantified sublist contains a quantifier the matcher as written returns exactly the head of '
              'the ordered list-of-successes regular-expression semantics (greedy, non-greedy, min/max, sublist bodies, '
              'pattern tags, static tags, back-references); one decided witness where it does not (re-entry into a '
              'finished sublist iteration, C17-F3). Tied to /repo by extraction of the kind tables and by running model '
              'and implementation on the same inputs each run.')
LEVEL_NOTE = ('Theorems are about the model; the tie to the code is differential. Partial: list_regex is false for a '
              'quantifier inside a quantified sublist (known finding C17-F3), proved for every other shape.')
TECHNIQUE = 'Lean 4 proof (structural induction, decide) + table extraction + model-implementation correspondence + re oracle'

MAXLEN = 5
NL = 3

# ---------------------------------------------------------------------------------------------------------------------
# extraction


def extract(ctx):
    classes, num, leaf, inst, allk = L.kind_tables()
    n = len(classes)
    unsound = [k for k in range(n) if not set(inst[k]) <= set(leaf[k])]
    # leaf kinds at which the tables are not what the pre-filter needs: tk not in AST2ASTSLEAF[tk], or AST2ASTSLEAF[k]
    # lists tk without tk being an instance of k (or the other way round)
    bad = [tk for tk in allk if tk not in leaf[tk] or any((tk in inst[k]) != (tk in leaf[k]) for k in range(n))]
    named = ['AST', 'Name', 'Constant', 'Load', 'Store', 'expr', 'stmt', 'mod', 'List', 'BinOp', 'Add', 'Call']

    def lst(l):
        return '[' + ', '.join(str(x) for x in l) + ']'

    txt = ('-- GENERATED by harness/props/C17.py extract() from fst.asttypes (AST2ASTSLEAF, ASTS_LEAF__ALL); do not edit\n'
           'import Pfst.Match\nnamespace Pfst.Gen.Leaf\nopen Pfst.Match\n\n'
           '/-- kind number = index into this list -/\n'
           'def names : List String :=\n  [' + ', '.join(f'"{c.__name__}"' for c in classes) + ']\n\n'
           '/-- `AST2ASTSLEAF[k]` -/\ndef leafTable : List (List Nat) :=\n  [' + ',\n   '.join(lst(x) for x in leaf) + ']\n\n'
           '/-- leaf classes `c` with `issubclass(c, k)` -/\ndef instTable : List (List Nat) :=\n  ['
           + ',\n   '.join(lst(x) for x in inst) + ']\n\n'
           '/-- `ASTS_LEAF__ALL` -/\ndef all : List Nat :=\n  ' + lst(allk) + '\n\n'
           f'def nKinds : Nat := {n}\n'
           f'def noneKind : Nat := {n}\n'
           f'def listKind : Nat := {n + 1}\n'
           '/-- kinds whose `AST2ASTSLEAF` entry misses a leaf class that `isinstance` accepts -/\n'
           f'def unsoundKinds : List Nat := {lst(unsound)}\n'
           '/-- leaf kinds `tk` for which some `AST2ASTSLEAF[k]` disagrees with `issubclass(tk, k)` -/\n'
           f'def badTargets : List Nat := {lst(bad)}\n'
           + ''.join(f'def k{nm} : Nat := {num[getattr(ast, nm)]}\n' for nm in named) + '\n'
           'def kinds : Kinds :=\n  { leafOf := fun k => leafTable.getD k [], inst := fun k => instTable.getD k [], all := all,\n'
           f'    noneKind := noneKind, ctxKind := {num[ast.expr_context]} }}\n\nend Pfst.Gen.Leaf\n')
    framework.write_if_changed(framework.LEAN / 'Pfst' / 'Gen' / 'Leaf.lean', txt)
    ctx.notes['kinds'] = n
    ctx.notes['unsound_leaf_entries'] = [classes[k].__name__ for k in unsound]


# ---------------------------------------------------------------------------------------------------------------------
# LIST: real runs

_TARGETS = None


def _targets():
    """[(xs, FST root, index map)] for every element sequence; built once per process"""
    global _TARGETS
    if _TARGETS is None:
        from fst import FST
        _TARGETS = []
        for xs in L.all_targets(MAXLEN, NL):
            f = FST(L.target_src(xs))
            idx = {id(e): i for i, e in enumerate(f.a.elts)}
            _TARGETS.append((xs, f, idx))
    return _TARGETS


def _index_of(idx):
    return lambda v: idx[id(getattr(v, 'a', v))]


def _real_list_case(arg):
    """(ps, lit_as, variant, pure) -> list of results, one per target"""
    ps, lit_as, variant, pure = arg
    try:
        pat = L.build_list_pattern(ps, lit_as, variant)
    except Exception as e:          # noqa: BLE001
        return {'build_exc': f'{type(e).__name__}: {e}'}
    import c17_pure
    before = (c17_pure.dump(pat), c17_pure.module_state())
    out = []
    try:
        for xs, f, idx in _targets():
            out.append(L.call_with_timeout(20, L.real_list_match, pat, f.a if pure else f, _index_of(idx)))
    except L.Timeout:
        return {'build_exc': f'match does not terminate on {L.target_src(xs)}'}
    after = (c17_pure.dump(pat), c17_pure.module_state())
    if after != before:
        return {'mutated': c17_pure.first_diff(list(before), list(after))}
    return json.dumps(out, separators=(',', ':'))       # compact: millions of small results are kept until the sweep


def _gen_list_patterns(ctx):
    rng = random.Random(ctx.rng.random())
    items = [it for it in L.core_items() if L.valid_item(it)]
    pats = [list(w) for w in _FIXED_WITNESSES]
    if ctx.quick:
        for it in rng.sample(items, 40):
            pats.append([it])
        for _ in range(700):
            pats.append([rng.choice(items), rng.choice(items)])
        for _ in range(500):
            pats.append([rng.choice(items) for _ in range(3)])
        nrand = 800
        ctx.exhaustive = False
    else:
        for it in items:
            pats.append([it])
        for a in items:
            for b in items:
                pats.append([a, b])
        for _ in range(12000):
            pats.append([rng.choice(items) for _ in range(3)])
        nrand = 10000
        ctx.exhaustive = True
    for _ in range(nrand):
        pats.append(L.rand_seq(rng))
    ctx.notes['core_items'] = len(items)
    return pats, rng


_A, _B, _C = ['e', ['lit', 0]], ['e', ['lit', 1]], ['e', ['lit', 2]]
_FIXED_WITNESSES = [
    [['ql', L.q(0, None), [_A, _B]], _B, _C],                                    # (fixed F2) (?:ab)*bc on abc
    [['ql', L.q(0, None, True, 1), [_A, _B]], _A, _B],                           # (fixed F2) capture on abab
    [['ql', L.q(1, 2), [_A, ['qs', L.q(0, None), ['lit', 1]]]], _B],             # F3: (?:ab*){1,2}b on abb
    [['qs', L.q(0, 2, True, None, [(5, 1)]), ['cap', 0, ['any']]], _B, _C],      # (fixed F4) static tags
    [['e', ['cap', 0, ['any']]], ['qs', L.q(0, None, False), ['any']], ['qs', L.q(1, 2, True, 1), ['ref', 0]], _B],
    # .*?(?P<k>(?P<v>.))(?P=v).* : a back-reference to a capture made inside a keyword member of MAND
    [['qs', L.q(0, None, False), ['any']], ['e', ['and2', None, ['any'], 1, ['cap', 0, ['any']]]], ['e', ['ref', 0]], ['qs', L.q(0, None), ['any']]],
    [['e', ['or2', 1, ['cap', 0, ['lit', 0]], 2, ['cap', 0, ['any']]]], ['qs', L.q(1, None), ['ref', 0]]],
]


def _list_runs(ctx):
    """run every generated pattern on the real matcher and on the Lean model+spec (once per check run)"""
    if getattr(ctx, '_c17_list', None) is not None:
        return ctx._c17_list
    pats, rng = _gen_list_patterns(ctx)
    args = [(ps, rng.choice(['str', 'str', 'MName', 'Name']), rng.randrange(4), rng.random() < 0.25) for ps in pats]
    reals = pmap(_real_list_case, args)
    cases = [{'f': 'C17.listAll', 'ps': ps, 'maxlen': MAXLEN, 'nl': NL} for ps in pats]
    try:
        outs = ctx.lean(cases)
        err = None
    except Exception as e:          # noqa: BLE001
        outs, err = None, str(e)
    ctx._c17_list = (pats, args, reals, outs, err)
    return ctx._c17_list


def _has_quant(ps):
    return any(it[0] != 'e' for it in ps)


def correspondence(ctx):
    _corr_list(ctx)
    import c17_tree
    c17_tree.correspondence(ctx)
    import c17_events
    c17_events.correspondence(ctx)


def _corr_list(ctx):
    name = 'MList(elts=[...]).match vs Pfst.Match.matchList'
    pats, args, reals, outs, err = _list_runs(ctx)
    if err is not None:
        ctx.brk('correspondence', name, f'driver error: {err}')
        return
    targets = L.all_targets(MAXLEN, NL)
    bad = 0
    n = 0
    for ps, a, real, mo in zip(pats, args, reals, outs):
        real = json.loads(real) if isinstance(real, str) else real
        m = mo.get('out', mo)
        if isinstance(real, dict) or 'm' not in m:
            bad += 1
            if len(ctx.corr_disagreements) < 20:
                ctx.corr_disagreements.append({'corr': name, 'ps': ps, 'impl': real, 'model': str(m)[:200]})
            ctx.hints.append((name, ps))
            continue
        quant = _has_quant(ps)
        for xs, r, mm in zip(targets, real, m['m']):
            n += 1
            if r != mm:
                bad += 1
                if len(ctx.corr_disagreements) < 20:
                    ctx.corr_disagreements.append({'corr': name, 'ps': ps, 'xs': xs, 'build': a[1:], 'impl': r, 'model': mm})
                if len(ctx.hints) < 200:
                    ctx.hints.append((name, ps))
        ctx.count(('L', ps), quant, n=len(targets))
        ctx.tally('list_shape', L.shape(ps))
    ctx.corr_cases += n
    ctx.dist.setdefault('correspondence_cases', {})[name] = n
    if pats:
        ctx.sample({'corr': name, 'ps': pats[0], 'targets': len(targets)})
    if bad:
        ctx.brk('correspondence', name, f'{bad}/{n} cases differ; first: ' + str(ctx.corr_disagreements[0])[:1500])


# ---------------------------------------------------------------------------------------------------------------------
# LIST: the property itself (re oracle)

def _classify(ps, xs, real, want):
    """real: encoded | None | {'exc'};  want: oracle view | None -> failure class or None"""
    if isinstance(real, dict):
        return 'raised'
    if want is None:
        return None if real is None else 'wrong-accept'
    if real is None:
        return 'wrong-reject'
    got = L.decode_top(real)
    if got['elem'] != want['elem']:
        return 'wrong-capture'
    for t, sp in want['span'].items():
        g = got['span'].get(t, 'missing')
        if g == 'missing':
            return 'wrong-capture'
        if g is None:
            if sp[0] != sp[1]:
                return 'wrong-capture'
        elif tuple(g) != tuple(sp):
            return 'wrong-capture'
    st = L.statics_of(ps)
    for t, v in st.items():
        if got['static'].get(t) != v and t not in got['elem'] and t not in got['span']:
            return 'wrong-static'
    return None


def _sweep_list(ctx):
    pats, args, reals, outs, err = _list_runs(ctx)
    targets = L.all_targets(MAXLEN, NL)
    n_oracle = n_skipped = 0
    reported = {}
    for pi, (ps, a, real) in enumerate(zip(pats, args, reals)):
        real = json.loads(real) if isinstance(real, str) else real
        if isinstance(real, dict) and 'mutated' in real:
            ctx.fail(f'C17|pattern-purity|list-{L.shape(ps)}|pattern-object-mutated',
                     f'matching the list pattern {ps} changed the pattern object or a shared container: {real["mutated"]}',
                     {'kind': 'list-purity', 'ps': ps, 'build': list(a[1:])})
            continue
        if isinstance(real, dict):
            ctx.fail(f'C17|list-quantifier|{L.shape(ps)}|build-raised', f'pattern constructor raised: {real}', {'ps': ps, 'build': a[1:]})
            continue
        if not L.has_oracle(ps):
            n_skipped += 1
            continue
        model = None
        if outs is not None:
            mo = outs[pi].get('out', outs[pi])
            model = mo.get('m') if isinstance(mo, dict) else None
        shp = L.shape(ps)
        for ti, (xs, r) in enumerate(zip(targets, real)):
            n_oracle += 1
            want = L.re_oracle(ps, xs)
            cls = _classify(ps, xs, r, want)
            ctx.tally('list_oracle', 'accept' if want is not None else 'reject')
            if cls is None:
                continue
            explained = model is not None and model[ti] == r
            sig = f'C17|list-quantifier|{shp}|{cls}' + ('' if explained else '|unexplained')
            if sig not in reported:
                reported[sig] = 0
            reported[sig] += 1
            if reported[sig] <= 3:
                src, _ = L.to_regex(ps)
                ctx.fail(sig, f'list pattern {ps} on {L.target_src(xs)}: pfst {"raised" if isinstance(r, dict) else ("matches" if r is not None else "rejects")}, '
                         f're.fullmatch({src!r}) {"matches" if want is not None else "rejects"} ({cls})',
                         {'kind': 'list', 'ps': ps, 'xs': xs, 'build': list(a[1:]), 'regex': src})
    ctx.notes['list_oracle_pairs'] = n_oracle
    ctx.notes['list_patterns_without_re_rendering'] = n_skipped
    ctx.notes['list_failures_by_signature'] = reported
    ctx.count(None, n=n_oracle)
    # bounded quantifier over a sublist that can match the empty sequence (raised IndexError before the back-off repair)
    from fst import FST
    for ps, xs in _NULLABLE_WITNESSES:
        pat = L.build_list_pattern(ps)
        r = L.real_list_match(pat, FST(L.target_src(xs)))
        src = _nullable_regex(ps)
        import re as _re
        want = _re.fullmatch(src, ''.join(L.LETTERS[x] for x in xs)) is not None
        got = 'raised' if isinstance(r, dict) else (r is not None)
        if got != want:
            cls = 'backoff-raises' if got == 'raised' else ('wrong-accept' if got else 'wrong-reject')
            ctx.fail(f'C17|list-quantifier|sublist-body-nullable|{cls}',
                     f'list pattern {ps} on {L.target_src(xs)}: pfst {got}, re.fullmatch({src!r}) {"matches" if want else "rejects"}',
                     {'kind': 'list-nullable', 'ps': ps, 'xs': xs, 'regex': src})


_NULLABLE_WITNESSES = [
    ([['ql', L.q(0, 2), [['qs', L.q(0, 1), ['lit', 0]]]], ['e', ['lit', 1]]], [2]),
    ([['ql', L.q(0, 2), [['qs', L.q(0, 1), ['lit', 0]]]], ['e', ['lit', 1]]], [1]),
    ([['ql', L.q(0, 2), [['qs', L.q(0, 1), ['lit', 0]]]], ['e', ['lit', 1]]], [0, 1]),
    ([['ql', L.q(1, 2), [['qs', L.q(0, None), ['lit', 0]]]], ['e', ['lit', 1]]], [0, 0, 1]),
]


def _nullable_regex(ps):
    def item(it):
        if it[0] == 'e':
            return L.LETTERS[it[1][1]] if it[1][0] == 'lit' else '.'
        qq = it[1]
        s = '{%d,%s}' % (qq['mn'], '' if qq['mx'] is None else qq['mx'])
        if it[0] == 'qs':
            return (L.LETTERS[it[2][1]] if it[2][0] == 'lit' else '.') + s
        return '(?:' + ''.join(item(x) for x in it[2]) + ')' + s
    return ''.join(item(x) for x in ps)


def sweep(ctx):
    _sweep_list(ctx)
    import c17_tree
    c17_tree.sweep(ctx)
    import c17_pure
    c17_pure.sweep(ctx)
    import c17_events
    c17_events.sweep(ctx)
    import c17_views
    c17_views.sweep(ctx)


def search(ctx):
    """something broke: evaluate the property itself more widely, first on the disagreeing inputs"""
    rng = random.Random(ctx.rng.random())
    pats = [h[1] for h in ctx.hints if isinstance(h[1], list)][:300]
    pats += [L.rand_seq(rng) for _ in range(6000)]
    items = [it for it in L.core_items() if L.valid_item(it)]
    pats += [[rng.choice(items) for _ in range(rng.randint(1, 3))] for _ in range(6000)]
    args = [(ps, rng.choice(['str', 'MName', 'Name']), rng.randrange(4), rng.random() < 0.25) for ps in pats]
    reals = pmap(_real_list_case, args)
    targets = L.all_targets(MAXLEN, NL)
    seen = set()
    for ps, a, real in zip(pats, args, reals):
        real = json.loads(real) if isinstance(real, str) else real
        if isinstance(real, dict):
            continue
        if not L.has_oracle(ps):
            continue
        for xs, r in zip(targets, real):
            cls = _classify(ps, xs, r, L.re_oracle(ps, xs))
            if cls:
                sig = f'C17|list-quantifier|{L.shape(ps)}|{cls}|unexplained'
                if sig not in seen:
                    seen.add(sig)
                    ctx.fail(sig, f'list pattern {ps} on {L.target_src(xs)}: {cls} against re.fullmatch',
                             {'kind': 'list', 'ps': ps, 'xs': xs, 'build': list(a[1:]), 'regex': L.to_regex(ps)[0]})
    import c17_tree
    c17_tree.search(ctx)


def replay(ctx, data):
    w = data.get('witness')
    if not w:
        print('replay file names a broken obligation, not an input:', [b for b in data.get('broken', [])][:3])
        return
    kind = w.get('kind')
    if kind == 'list':
        from fst import FST
        b = w.get('build') or ['str', 0, False]
        pat = L.build_list_pattern(w['ps'], b[0], b[1])
        f = FST(L.target_src(w['xs']))
        idx = {id(e): i for i, e in enumerate(f.a.elts)}
        r = L.real_list_match(pat, f.a if b[2] else f, _index_of(idx))
        cls = _classify(w['ps'], w['xs'], r, L.re_oracle(w['ps'], w['xs']))
        if cls:
            ctx.fail('replay', f'{cls}: pfst gives {r}, regex {w.get("regex")}', w)
    elif kind == 'views':
        import c17_views
        c17_views.replay(ctx, w)
    elif kind == 'events':
        import c17_events
        c17_events.replay(ctx, w)
    elif kind == 'purity':
        import c17_pure
        c17_pure.replay(ctx, w)
    elif kind == 'list-purity':
        b = w.get('build') or ['str', 0, False]
        r = _real_list_case((w['ps'], b[0], b[1], b[2]))
        if isinstance(r, dict) and 'mutated' in r:
            ctx.fail('replay', f'pattern object changed by matching: {r["mutated"]}', w)
    elif kind == 'list-nullable':
        from fst import FST
        import re as _re
        pat = L.build_list_pattern(w['ps'])
        r = L.real_list_match(pat, FST(L.target_src(w['xs'])))
        want = _re.fullmatch(w['regex'], ''.join(L.LETTERS[x] for x in w['xs'])) is not None
        got = 'raised' if isinstance(r, dict) else (r is not None)
        if got != want:
            ctx.fail('replay', f'pfst {got}, regex {want}', w)
    else:
        import c17_tree
        c17_tree.replay(ctx, w)
