"""C10 — raw source edits are equivalent to re-parsing the whole file, or change nothing."""

import ast
import json
import random
from pathlib import Path

import c10_ops as ops
import corpus
import util
from framework import pmap

ID = 'C10'
LEAN_MODULES = ['Pfst.Props.C10', 'Pfst.Props.C11b']
THEOREMS = [
    'Pfst.C10.wrapper_cols', 'Pfst.C10.wrapper_bytes', 'Pfst.C10.wrapper_pads_ascii', 'Pfst.C10.reparse_atomic',
    'Pfst.C10.reparse_src', 'Pfst.C10.reparse_ok_iff_wrapper_parses', 'Pfst.C10.raw_atomic', 'Pfst.C10.raw_src',
    'Pfst.C10.raw_refuses_only_invalid', 'Pfst.C10.raw_valid_accepted', 'Pfst.C10.raw_fallback_is_full_parse',
    'Pfst.C10.raw_eq_full_partial', 'Pfst.C10.raw_ok_iff_valid_partial', 'Pfst.C10.movePos_eq_offsetPos',
    'Pfst.C10.reparse_eq_full_partial', 'Pfst.C10.reparse_eq_full_f6', 'Pfst.C10.tail_not_past_semicolon',
    'Pfst.C10.guard_rejects_known_witnesses', 'Pfst.C10.f8_invalid_edit_refused', 'Pfst.C10.f9_valid_edit_accepted',
    'Pfst.C10.tail_through_match_case', 'Pfst.C10.rect_in_region_lines', 'Pfst.C10.header_graft_keeps_old_blocks', 'Pfst.C10.header_graft_same_class', 'Pfst.C10.try_finally_no_phantom_handler',
    'Pfst.C10.clip_in_range', 'Pfst.C10.ret_end_is_end_of_new_text', 'Pfst.C11b.clip_spellings', 'Pfst.C11b.clip_bounds',
    'Pfst.C10.raw_put_registry_restored', 'Pfst.C10.raw_put_outcome', 'Pfst.C10.raw_seq_registry_empty',
    'Pfst.C10.raw_seq_no_registry_error', 'Pfst.C10.leaky_seq_false',
]
RULE = ('histories of k<=6 raw edits on one live tree per corpus program, refused and accepted edits mixed, later edits placed '
        'relative to the previous one (same statement, sibling statement, parent block header, other top-level statement), '
        'continuing on the same tree after every refusal; a deterministic family of edits wholly inside the header of every '
        'block statement kind x every combination of optional blocks x nesting (identity re-put of each header token and of '
        'the first two letters, every gap collapsed / widened / turned into a continuation, names renamed or parenthesised); '
        'every block kind nested in every block kind (and `match` between two others) with the innermost last statement edited '
        'so that it ends before / at / after the end of the put text or gets a trailing semicolon (which belongs to the '
        'enclosing blocks); raw node puts with `to=` a later node (same statement, '
        'later `;` statement on the same line, later line); raw-mode slice puts (put_slice(..., raw=True)) to `_body`, orelse, '
        'finalbody, handlers and cases - every [start:stop) of templates with decorated defs/classes, docstrings and trailing '
        'comments x every replacement text, the replaced rectangle taken from CPython positions (first decorator .. end of the '
        'last element with the trailing comment of a block); raw-mode slice puts to expression lists (List/Tuple/Set elts, Call '
        'args) with the code given as an FST or an AST container whose source has trailing newlines / blank lines / comment '
        'lines / a leading comment (expected text = the elements as CPython positions give them), and to f-string values with '
        'raw=True and raw="auto" (the structured handler is not implemented, the raw fallback must be taken); expression roots judged by ast.parse(mode="eval"); before EVERY step loc/bloc/pars() of every node are read (caches '
        'populated), every put_src coordinate is spelled at random as plain / negative from the end of the source or of its '
        'own line / "end" / out of range, get_src with the same spelling is compared with plain Python slicing, replacement '
        'texts include equal-UTF-8-bytes/other-characters and equal-characters/other-bytes swaps of names and strings, raw node '
        'puts prefer a node that follows the previous edit on its line; after EVERY step every node\'s .loc and .bloc '
        '(characters) must follow from its own CPython byte positions; after EVERY step the full oracle and emptiness of '
        'fst_core._MODIFYING are checked; plus scripted histories and directed single edits on every run. Edits: '
        'per corpus program (snippets, generated programs with layout '
        'mutations, stdlib chunks): put_src(action="reparse") on rectangles at node spans, node-to-node spans, token '
        'boundaries, whole lines, indentation, line joins and arbitrary character positions, with replacement texts that '
        'are identical, valid same/different shape, invalid, trivia, block headers, statements with/without re-indentation, '
        'whole blocks; raw node puts (replace(raw=True, pars=False)) and reparse(). Every call is judged by CPython '
        '(ast.parse of the plainly spliced source) for atomicity / splice / acceptance / full tree equality / root identity, '
        'and compared with the Lean model: wrapper lines, path, first_lineno, byte delta, text handed to the parser '
        '(recorded at run time), returned end, accept/refuse, and the whole tree after the call. distinct = distinct '
        '(source, rectangle, text, op); non-trivial = the call reached _reparse_raw')
TRUSTED = [
    'modelled (Pfst/Raw.lean): clip_src_loc; _reparse_raw_stmtlike region rule (elif -> parent, header-only rule, root -> '
    'end of source), copy_lines of every wrapper family, first_lineno, first_line_col_delta, wrapper path; order of '
    'effects of _reparse_raw_base; the repaired _reparse_raw (guard: one node / same kind / same place / nothing after it, '
    'else whole-source reparse with the root mode, no mode="all" retry for module roots); _tail_parent and '
    '_set_end_pos(new, old); the `with parent._modifying(False, True)` bracket of put_src(reparse) over the C12 registry '
    'model (Pfst/RawSeq.lean) and histories of edits; tree effect (offset outside with tail=head=True, graft, first-line delta, header-only '
    'merge with end copy); returned (end_ln, end_col)',
    'inputs of the model taken from pfst helper functions, not modelled: parent_stmtlike, find_contains_loc, is_elif, bloc, '
    '_loc_block_header_end, _get_block_indent, syntax_ordered_children; _put_src text effect modelled at spec level (one '
    'formula); _offset is modelled in Pfst/Offset.lean (C11) and linked by movePos_eq_offsetPos',
    'not modelled: the location functions of raw node and slice puts (_loc_slice_raw_put_*; judged by comparing the rectangle '
    'actually replaced with the one CPython positions give, for statement-list fields); the cache flushing done by _offset (judged only by the per-node .loc/.bloc check after every step); the '
    'mode="all" retry for non-module roots, parse_match_case / parse_ExceptHandler (special path: text compared, result judged only by the full '
    'parse), _set_ast / cache maintenance, the f/t-string parent rule of _reparse_raw, argument validation of raw puts',
    'the header-only graft keeps "field absent" and "empty list" apart (Pfst.Raw.Blocks); the header-end guard of fix C10-F9 is '
    'an input of the model that is fed only when the code under test has the parameter blkhead_end',
    'excluded inputs: new sources ending in a backslash-newline (pfst parses these with an extra newline by documented '
    'convention in parsex._ast_parse; CPython rejects them; triaged as by design, not a finding); raw puts whose rectangle is not the CPython span of the node (location functions '
    'belong to other properties); raw puts that are refused before reaching _reparse_raw (delete/insert contract)',
]
ASSUMPTIONS = [
    'coordinate spellings: Pfst.C11b.clip_spellings (model Pfst/Clip.lean) is the statement that every spelling clips to the '
    'canonical rectangle; Pfst.Raw.clipSrcLoc is a second transcription of clip_src_loc kept for the C10 driver, both are '
    'compared with the implementation',
    'CPython ast.parse on the plainly spliced text is the judge of validity and of the expected tree (root kind Module)',
    'GuardSound (the guard implies locality of the parser) is evaluated per case through the model tree on the incremental '
    'path (model tree == full parse, tallied); the guard compares byte columns after the first-line delta where the code '
    'compares character columns of `loc` (same line prefix)',
    'one call is one atomic step; a history continues on the same tree after every refusal and stops only when the tree no '
    'longer equals a parse of its source (after that no expected tree exists)',
]
LEVEL_TEXT = ('Lean 4 theorems about an executable model of clip_src_loc, _reparse_raw_stmtlike, _reparse_raw_base, the graft and '
              'the repaired _reparse_raw (guard + whole-source fallback): wrapper lines keep every line number and character '
              'column of the region, byte delta formula, atomicity, text = requested splice, refused only if the whole new '
              'source is invalid and every valid new source accepted (full strength), fallback tree = full parse, registry empty '
              'after any history; on the incremental path tree = full parse and accepted-only-if-valid under the explicit '
              'hypothesis that the guard implies locality of the parser. Tied to /repo on every run by recording what the real '
              'code hands to the parser and comparing text, path, deltas, return value, the path taken (incremental / fallback) '
              'and the whole resulting tree with the model.')
LEVEL_NOTE = ('Describes the code after the fixes C10-F1/F6/F4/F2; the former counterexamples are positive theorems now and their '
              'witnesses are replayed every run (must pass). Remaining known finding: C10-F7 (NotImplementedError for a statement '
              'starting at (0,1)..(0,3), pinned by the test-suite). CPython is the judge for validity and the expected tree.')
TECHNIQUE = 'Lean 4 proof (list/zipper lemmas, omega, decide) + run-time recording correspondence + CPython-judged sweep'

FINDINGS = Path(__file__).with_name('C10_findings.json')


# ---------------------------------------------------------------------------------------------------------------------

def _programs(ctx, n, stdlib):
    rng = random.Random(ctx.rng.random())
    ps = corpus.programs(rng, n, stdlib=stdlib)
    ps.extend(SEEDS)
    return ps


# small programs with the shapes the wrapper families need (indented handlers, elif chains, match, semicolons,
# statements on header lines, non-ASCII before a statement, decorators, trailing comments)
SEEDS = [
    'if a:\n    b\nelif c:\n    d\nelif e:\n    f\nelse:\n    g\n',
    'def f():\n    if a:\n        b\n    elif c:\n        d\n    elif e:\n        f\n',
    'def f():\n    try:\n        a\n    except E as e:\n        b\n    except F:\n        c\n    else:\n        d\n    finally:\n        e\n',
    'try:\n    a\nexcept E:\n    b\nfinally:\n    c\n',
    'def f():\n    match x:\n        case 1:\n            pass\n        case [a, b] if a:\n            y = 2\n',
    'match x:\n    case 1: pass\n    case _:\n        z\n',
    'x = 1; y = 2; z = 3\nw = 4',
    'if a: b = 1; c = 2\nd = 3',
    'é = 1; ñ = "日本"; z = é\n',
    'if é: ñ = 1\n',
    'class C:\n    é = "ü"; y = 2  # c\n    def m(self): return 1  # r\n',
    '@dec\n# c\n@other(1)\ndef f(a, b=1):\n    """doc"""\n    return a + b  # tail\n\nclass K: pass\n',
    'for i in x:\n    while y:\n        with z as w:\n            pass  # deep\n    else:\n        q\n',
    'def f(a, b=1):\n    """doc"""\n    return a + b\n\nclass C:\n    x = 1\n',
    'try: pass\nexcept* E: pass\n',
    'async def f():\n    async with a as b:\n        async for c in d:\n            await e\n',
    'if a:\n\tb = 1\n\tif c:\n\t\td = 2\n',
]


def _gather(ctx, progs, k, per, ops_mix):
    items = []
    for p in progs:
        for _ in range(per):
            items.append((p, ctx.rng.randrange(1 << 30), k, ops_mix))
    res = pmap(ops.run_sequence, items)
    return [r for lst in res for r in lst]


def _pipeline(ctx, recs, plan_only=False):
    """phases B-E for a list of records; returns list of (record, model plan, phase-E result)"""
    cases, idx = [], []
    for i, r in enumerate(recs):
        c = ops.plan_case(r)
        if c is not None:
            cases.append(c)
            idx.append(i)
    plans = [None] * len(recs)
    try:
        outs = ctx.lean(cases)
    except Exception as e:
        ctx.brk('correspondence', 'C10 driver', f'driver error: {e}')
        return []
    for i, o in zip(idx, outs):
        plans[i] = o.get('out', o)
    if plan_only:
        return [(r, p, None) for r, p in zip(recs, plans)]
    cres = [None] * len(recs)
    todo = [i for i in idx if isinstance(plans[i], dict) and 'err' not in plans[i]]
    for i, c in zip(todo, pmap(ops.phase_c, [(recs[i], plans[i]) for i in todo])):
        cres[i] = c
    tcases = [(i, cres[i]['tree_case']) for i in todo if cres[i] and cres[i]['tree_case']]
    touts = [None] * len(recs)
    try:
        for (i, _), o in zip(tcases, ctx.lean([c for _, c in tcases])):
            o = o.get('out', o)
            touts[i] = o if isinstance(o, dict) and 'tree' in o else None
    except Exception as e:
        ctx.brk('correspondence', 'C10 driver(tree)', f'driver error: {e}')
    eres = pmap(ops.phase_e, [(recs[i], plans[i] if i in set(todo) else None, cres[i], touts[i]) for i in range(len(recs))]) \
        if recs else []
    return list(zip(recs, plans, eres))


def _witness(r):
    return {'src': r['src'], 'op': r['op'], 'rect': r['rect'], 'new': r['new'],
            **({'node_path': r['node_path']} if 'node_path' in r else {}),
            **({'to_path': r['to_path']} if 'to_path' in r else {}),
            **({'slice': r['slice']} if 'slice' in r else {}),
            **({'opts': r['opts']} if r.get('opts') else {}),
            **({'history': r['history']} if r.get('history') else {}),
            **({'spelled': r['spelled']} if r.get('spelled') and r['spelled'] != r['rect'] else {})}


def _account(ctx, triples, corr_name):
    nbad = 0
    first = None
    for r, m, e in triples:
        reached = m is not None
        ctx.count([r['src'], r['rect'], r['new'], r['op']], reached)
        ctx.tally('op', r['op'])
        ctx.tally('history_step', r['step'])
        if r['step'] and r['rk'].startswith('near:'):
            ctx.tally('placed_relative_to_previous_edit', r['rk'].split(':')[1])
        ctx.tally('rect_kind', r['rk'])
        ctx.tally('text_kind', r['nk'])
        ctx.tally('outcome', 'raised' if r.get('raised') else 'returned')
        for k, v in e['tally'].items():
            ctx.tally(k, v)
        if e['hyp']:
            ctx.tally('hypotheses ParseLocal+AncestorEndsStable (model tree == full parse)', e['hyp'])
        if reached:
            ctx.corr_cases += 1
            bad = list(e['corr'])
            if isinstance(m, dict) and 'err' in m:
                bad.append('driver: ' + str(m['err']))
            elif isinstance(m, dict):
                bad.extend(ops.corr_plan(r, m))
            if bad:
                nbad += 1
                d = {'corr': corr_name, 'case': _witness(r), 'disagreements': bad[:4]}
                first = first or d
                if len(ctx.corr_disagreements) < 20:
                    ctx.corr_disagreements.append(d)
                ctx.hints.append((corr_name, _witness(r)))
        for sig, what in e['fail']:
            ctx.fail(sig, f'{r["op"]} {r["rect"]} <- {r["new"]!r}: {what}', _witness(r))
            ctx.tally('failure_signature', sig)
            ctx.notes.setdefault('first_witness_per_signature', {}).setdefault(sig, {'what': what[:300], 'witness': _witness(r)})
    ctx.tally('correspondence_cases', corr_name)
    ctx.dist['correspondence_cases'][corr_name] = sum(1 for _, m, _ in triples if m is not None)
    if nbad:
        ctx.brk('correspondence', corr_name, f'{nbad} cases differ; first: ' + json.dumps(first, default=str)[:1500])


# ---- clip_src_loc ---------------------------------------------------------------------------------------------------

def _clip_cases(rng, n):
    from fst import FST
    from fst.fst_misc import clip_src_loc
    cases, impls = [], []
    srcs = ['x = 1', 'a\nbb\n\nccc', 'é = "ñ"\n', '', 'if a:\n    b\n    c  # d', '\n\n']
    roots = {s: FST(s, 'exec') for s in srcs}
    vals = ['end', 0, 1, 2, 3, 4, 5, 7, 100, -1, -2, -3, -4, -5, -100]
    for _ in range(n):
        s = rng.choice(srcs)
        a = [rng.choice(vals) for _ in range(4)]
        try:
            out = list(clip_src_loc(roots[s], *a))
        except IndexError:
            out = 'IndexError'
        cases.append({'f': 'C10.clip', 'lines': s.split('\n'), 'a': a})
        impls.append(out)
    return cases, impls


# the parser facts assumed by Pfst.C10.accepts_iff_valid_false (hypotheses of the implications), judged by CPython
PARSER_FACTS = [('if _:\n      a', True), ('def f():\n      a\n  b', False),
                ('try:   y \n2\nfinally: pass', False), ('x = 1; y \n2', True)]


def correspondence(ctx):
    for text, ok in PARSER_FACTS:
        t, _ = ops.cpy_parse(text)
        ctx.corr_cases += 1
        if (t is not None) != ok:
            ctx.brk('correspondence', 'parser facts of accepts_iff_valid_false', f'CPython {"accepts" if t else "rejects"} {text!r}')
    cases, impls = _clip_cases(random.Random(ctx.rng.random()), 3000 if ctx.quick else 30000)
    ctx.compare('clip_src_loc vs Pfst.Raw.clipSrcLoc', cases, impls, nontrivial=lambda c, o: o != 'IndexError')
    # non-Module roots: the `stmtlike is root` rule and the special match_case / ExceptHandler path (plan only)
    recs = _special_roots(random.Random(ctx.rng.random()), 150 if ctx.quick else 1500)
    triples = _pipeline(ctx, recs, plan_only=True)
    nbad = 0
    for r, m, e in triples:
        if m is None:
            continue
        ctx.corr_cases += 1
        ctx.count([r['src'], r['rect'], r['new'], 'root:' + r['on']])
        bad = ops.corr_plan(r, m) if 'err' not in m else [str(m)]
        ctx.tally('non_module_root', r['on'] + ('/special' if m.get('special') else ''))
        if bad:
            nbad += 1
            if len(ctx.corr_disagreements) < 20:
                ctx.corr_disagreements.append({'corr': 'non-Module roots', 'case': _witness(r), 'disagreements': bad[:4]})
    if nbad:
        ctx.brk('correspondence', 'plan on non-Module roots', f'{nbad} cases differ; first: '
                + json.dumps(ctx.corr_disagreements[-1], default=str)[:1200])


ROOTS = [('case 1: pass', 'match_case'), ('case [a, b] if c:\n    x = 1\n    y', 'match_case'),
         ('except E as e: pass', 'ExceptHandler'), ('except (A, B):\n    x\n    y = 2', 'ExceptHandler'),
         ('if a:\n    b\nelif c:\n    d', 'stmt'), ('while x: y  # c', 'stmt'), ('é = 1  # c', 'stmt'),
         ('try:\n    a\nfinally:\n    b', 'stmt'), ('match x:\n    case 1: pass', 'stmt')]


def _special_roots(rng, n):
    from fst import FST
    rec = ops.recorder()
    out = []
    for _ in range(n):
        src, mode = rng.choice(ROOTS)
        try:
            root = FST(src, mode)
        except Exception:
            continue
        lines = src.split('\n')
        a = rng.randrange(len(lines))
        b = rng.randint(0, len(lines[a]))
        d = rng.randint(a, len(lines) - 1)
        e = rng.randint(b if d == a else 0, len(lines[d]))
        new = rng.choice(['z', '', ' ', '2', 'q:', '\n', 'k, j', '(', ' # c'])
        r = {'src': src, 'op': 'put_src', 'rect': [a, b, d, e], 'new': new, 'rk': 'random', 'nk': 'mixed', 'on': mode, 'step': 0}
        rec.arm()
        try:
            ret = root.put_src(new, a, b, d, e, 'reparse')
            r['ret'] = list(ret)
        except Exception as ex:
            r['raised'] = [type(ex).__name__, str(ex)[:100]]
        r['events'] = rec.disarm()
        r['src_after'] = root.src
        out.append(r)
    return out


# ---- the property on the real code ----------------------------------------------------------------------------------

def _replay_findings(ctx):
    if not FINDINGS.exists():
        return
    for f in json.loads(FINDINGS.read_text()):
        w = f['witness']
        sigs = f.get('signatures') or [f.get('signature')]
        got = _run_witness(ctx, w)
        fixed = f.get('kind') == 'fixed'
        ctx.tally('finding_replayed', f['id'] + ((':fixed-but-fails' if got else ':fixed-passes') if fixed else
                                                  (':still-fails' if any(s in sigs for s, _ in got) else ':NOT-REPRODUCED')))
        if not got:
            ctx.notes.setdefault('findings_not_reproduced', []).append(f['id'])
        for sig, what in got:
            ctx.fail(sig, what, w)


def _run_witness(ctx, w):
    """replay one witness through the same pipeline; returns [(sig, what)]"""
    if w.get('root') == 'expression':
        got, _ = _expr_case(w['src'], tuple(w['rect']), w['new'])
        return [(sig, f'expression root {w["src"]!r} put_src {w["rect"]} <- {w["new"]!r}: {what}') for sig, what in (got or [])]
    if w['op'] == 'put_src' and (w.get('history') or w.get('spelled')):
        # the failing step with the earlier steps of its history, on one tree
        h = w.get('history') or {'src': w['src'], 'edits': []}
        last = (w['new'], *w['rect'], w['spelled']) if w.get('spelled') else (w['new'], *w['rect'])
        recs = ops.run_sequence((h['src'], 0, 0, ['put_src'], [tuple(e) for e in h['edits']] + [last]))
        triples = _pipeline(ctx, recs[-1:] if len(recs) == len(h['edits']) + 1 else [])
    else:
        rec = ops.recorder()
        r = _exec_witness(w, rec)
        if r is None:
            return []
        triples = _pipeline(ctx, [r])
    out = []
    for r, m, e in triples:
        for sig, what in e['fail']:
            out.append((sig, f'{r["op"]} {r["rect"]} <- {r["new"]!r}: {what}'))
    return out


def _exec_witness(w, rec):
    from fst import FST
    root = FST(w['src'], 'exec')
    src0 = root.src
    dump0 = util.dump_pos(root.a)
    r = {'src': src0, 'op': w['op'], 'rect': list(w['rect']), 'new': w['new'], 'rk': 'witness', 'nk': 'witness',
         'on': 'Module', 'step': 0}
    rid = id(root)
    if w['op'] == 'put_src':
        call = lambda: root.put_src(w['new'], *w['rect'], 'reparse')
    elif w['op'] == 'raw-slice':
        cont = root.child_from_path(_astpath(w['node_path'])) if w['node_path'] else root
        r['node_path'], r['slice'] = w['node_path'], w['slice']
        o = w.get('opts') or {}
        from fst import FST as _F
        code = (_F(o['code'][1]) if o['code'][0] == 'fst' else ast.parse(o['code'][1].strip(), mode='eval').body) if o.get('code') else w['new']
        r['opts'] = o
        call = lambda: cont.put_slice(code, w['slice'][1], w['slice'][2], w['slice'][0], raw=o.get('raw', True))
    elif w['op'] == 'raw-put-to':
        node, to = root.child_from_path(_astpath(w['node_path'])), root.child_from_path(_astpath(w['to_path']))
        r['node_path'], r['to_path'] = w['node_path'], w['to_path']
        call = lambda: node.replace(w['new'], raw=True, pars=False, to=to)
    elif w['op'] == 'raw-put':
        node = root.child_from_path(_astpath(w['node_path']))
        r['node_path'] = w['node_path']
        call = lambda: node.replace(w['new'], raw=True, pars=False)
    else:
        node = root.find_loc(*w['rect']) or root.find_in_loc(*w['rect'])
        call = lambda: node.reparse()
    rec.arm()
    exc = ret = None
    try:
        ret = call()
    except Exception as e:
        exc = e
    r['events'] = rec.disarm()
    r['root_same'] = id(root) == rid and root.root is root
    r['src_after'] = root.src
    r['dump_after'] = util.dump_pos(root.a)
    r['root_kind'] = root.a.__class__.__name__
    import fst.fst_core as fc
    r['registry'] = int(root in fc._MODIFYING)
    fc._MODIFYING.clear()
    if exc is not None:
        r['raised'] = [type(exc).__name__, str(exc)[:120]]
        r['atomic'] = r['src_after'] == src0 and r['dump_after'] == dump0
    else:
        r['ret'] = list(ret) if w['op'] == 'put_src' else None
    return r


def _astpath(p):
    from fst.common import astfield
    return [astfield(f, i) for f, i in p]


# deterministic edits through the same pipeline: one per wrapper family / graft variant, so that every run exercises them
DIRECTED = [
    # elif: whole-elif deletion and header edit (elif -> parent If, _set_end_pos), nested and top level
    ('def f():\n    if a:\n        b\n    elif c:\n        d\n    elif e:\n        f\n', [5, 8, 6, 9], 'f'),
    ('def f():\n    if a:\n        b\n    elif c:\n        d\n    elif e:\n        f\n', [4, 9, 6, 9], ''),
    ('if a:\n    b\nelif c:\n    d\nelif e:\n    f\n', [3, 5, 5, 5], ''),
    ('if a:\n    b\nelif c:\n    d\nelif e:\n    f\n', [4, 5, 4, 6], 'ee'),
    ('if a:\n    b\nelif c:\n    d\nelif e:\n    f\n', [2, 0, 3, 5], 'else:\n    dd'),
    ('def f():\n    if a:\n        b\n    elif c:\n        d\n', [3, 9, 3, 10], 'cc'),
    # first-line byte delta: non-ASCII text before a statement on its line (try: wrapper on line 0, if _: wrapper below)
    ('\u00e9 = 1; \u00f1 = "\u65e5\u672c"; z = \u00e9\n', [0, 17, 0, 18], 'zz'),
    ('\u00e9 = 1; \u00f1 = "\u65e5\u672c"; z = \u00e9\n', [0, 21, 0, 22], '(\u00e9,\n 1)'),
    ('class C:\n    \u00e9 = "\u00fc"; y = 2  # c\n', [1, 13, 1, 14], 'yy'),
    ('if \u00e9: \u00f1 = 1\n', [0, 10, 0, 11], '22'),
    # header-only reparse (with end-position copy), all block header families
    ('if abc:\n    b\n', [0, 3, 0, 4], 'x'),
    ('def f():\n    while abc:\n        b  # c\n    x\n', [1, 10, 1, 11], 'zz'),
    ('try:\n    a\nexcept E:\n    b\nfinally:\n    c\n', [0, 0, 0, 3], 'try'),
    ('match xyz:\n    case 1: pass\n    case _:\n        z\n', [0, 6, 0, 7], 'q'),
    ('def f():\n    try:\n        a\n    except Eab as e:\n        b\n    except F:\n        c\n', [3, 11, 3, 12], 'zz'),
    ('def f():\n    match x:\n        case 123:\n            pass\n        case [a, b] if a:\n            y = 2\n', [2, 13, 2, 14], '9'),
    ('for i in x:\n    while y:\n        with zab as w:\n            pass  # deep\n    else:\n        q\n', [2, 13, 2, 14], 'Z'),
    # header-only reparse where the new header is another kind of statement (block fields of the old node re-attached)
    ('x\nmatch abc:\n    case 1:\n        pass\n', [1, 0, 1, 0], 'for i in j:\n    pass\n'),
    ('if abc:\n    b\nelse:\n    c\n', [0, 0, 0, 2], 'while'),
    # header-only edit that closes the header early and brings its own body / else
    ('if a :\n    old', [0, 3, 0, 4], 'a: b\nelse'),
    ('def f():\n    while a  :\n        old\n', [1, 10, 1, 11], 'a: b\n    else'),
    ('for i in xs  :\n    y\n', [0, 9, 0, 11], 'xs: pass #'),
    # multi-line statement that starts on line 0 after a semicolon / a block header (try: wrapper with several lines)
    ('x = 1; y = [1,\n 2]\nz = 3', [1, 1, 1, 2], '22'),
    ('if a: y = (1,\n  2)\nz = 3', [0, 11, 1, 3], '4,\n 5,\n 6'),
    ('x = 1; y = [1,\n 2]', [0, 12, 0, 13], 'k'),
    # a trailing semicolon created on the last statement of a block (one-line bodies too)
    ('if x:\n  a = 1\nb = 2', [1, 6, 1, 7], '1;'),
    ('class C:\n  def f(): a = 1\nb', [1, 15, 1, 16], '1 ;'),
    ('if x: a = 1', [0, 10, 0, 11], '1;'),
    ('def f():\n    for i in x: y = i\n', [1, 20, 1, 21], 'i ;  # c'),
    # whole statement in each wrapper family
    ('def f():\n    try:\n        a\n    except E as e:\n        b\n    except F:\n        c\n', [4, 8, 4, 9], 'bb = 1'),
    ('def f():\n    match x:\n        case 1:\n            pass\n        case [a, b] if a:\n            y = 2\n', [5, 16, 5, 17], '33'),
    ('try:\n    a\nexcept E:\n    b\nfinally:\n    c\n', [3, 4, 3, 5], 'bb'),
    ('x = 1; y = 2; z = 3\nw = 4', [0, 11, 0, 12], '22'),
    ('if a: b = 1; c = 2\nd = 3', [0, 10, 0, 11], '11'),
    ('if a:\n\tb = 1\n\tif c:\n\t\td = 2\n', [3, 6, 3, 7], '22'),
]


# scripted histories on one tree mixing refused and accepted edits at different places (same statement, sibling, parent
# block header, other top-level statement); every step is judged by the full oracle and the registry check
_HSRC = 'x = 1\ndef f(a, b):\n    if a:\n        return a + b\n    return b\ny = [2, 3]\n'
HISTORIES = [
    (_HSRC, [('(', 0, 4, 0, 5), ('c', 3, 19, 3, 20)]),                       # refused, then valid in another statement
    (_HSRC, [('in', 2, 7, 2, 8), ('4', 5, 8, 5, 9), ('z', 0, 0, 0, 1)]),      # refused header edit, then two valid top-level edits
    (_HSRC, [('7', 0, 4, 0, 5), ('q', 4, 11, 4, 12)]),                        # accepted only
    (_HSRC, [(')', 3, 15, 3, 16), ('c', 3, 15, 3, 16), ('bb', 4, 11, 4, 12), ('1 +', 2, 7, 2, 8), ('not a', 2, 7, 2, 8),
             ('k', 1, 6, 1, 7)]),                                             # same stmt, sibling, parent header (refused, accepted), grandparent
    (_HSRC, [('def', 5, 0, 5, 1), (':', 0, 0, 0, 0), ('yy', 5, 0, 5, 1), ('[', 5, 5, 5, 6), ('5', 5, 5, 5, 6)]),
]


# equal UTF-8 byte length / other character count (and the reverse) followed by a raw put through a node AFTER the edit
_BC = [("x = '\u00e9'; y = 1", ('ab', 0, 5, 0, 6), [['body', 1], ['value', None]], '22'),
       ("if a:\n    s = 'ab'; t = u\nz = 3", ('\u00e9', 1, 9, 1, 11), [['body', 0], ['body', 1], ['value', None]], 'vw'),
       ("if \u00fc: w = '\u65e5'; k = f(1)  # c\n", ('abc', 0, 11, 0, 12), [['body', 0], ['body', 1], ['value', None], ['args', 0]], 'zz'),
       ("def f():\n    return 'xy' + g(h)\n", ('\u00fc', 1, 12, 1, 14), [['body', 0], ['body', 0], ['value', None], ['right', None]], 'q'),
       ("x = '\u00e9'; y = 1", ('abc', 0, 5, 0, 6), [['body', 1], ['value', None]], '22'),
       ("x = 'cd'; y = 1", ('\u00fcd', 0, 5, 0, 7), [['body', 1], ['value', None]], '22')]
HISTORIES += [(src, [first, ('raw', path, new2)]) for src, first, path, new2 in _BC]
# coordinate spellings on multi-line rectangles whose first and last lines differ in length (6th entry = as spelled)
HISTORIES += [
    ('values = (1,\n  2)\nn = 0', [('(3,\n  4', 0, 9, 1, 3, [0, -3, -2, -1]), ('5', 1, 2, 1, 3, [-2, 2, 1, -1])]),
    ('def f(a,\n      bcd): return a\nx = 1', [('zz', 0, 6, 1, 9, [-3, 6, -2, -11]), ('k', 1, 4, 1, 5, [1, -1, 'end', 99])]),
    ('if a:\n    b = [1,\n 2]; c = 3\n', [('7', 1, 9, 2, 2, [1, -2, 2, -8]), ('', 1, 11, 1, 18, [-2, 11, -2, 'end'])]),
]


def _py_resolve(spelled, lines):
    """plain Python index semantics of a spelled rectangle (the specification the spellings above are checked against)"""
    ln, col, end_ln, end_col = spelled
    n = len(lines)
    ln = n - 1 if ln == 'end' else ln + n if ln < 0 else ln
    end_ln = n - 1 if end_ln == 'end' else end_ln + n if end_ln < 0 else end_ln
    f = lambda c, i: len(lines[i]) if c == 'end' else max(0, c + len(lines[i])) if c < 0 else min(c, len(lines[i]))
    return [ln, f(col, ln), end_ln, f(end_col, end_ln)]


for _src, _script in HISTORIES:
    _cur = _src
    for _e in _script:
        if _e[0] != 'raw':
            if len(_e) == 6:
                assert _py_resolve(_e[5], _cur.split('\n')) == list(_e[1:5]), (_src, _e)
            _cur = ops.splice(_cur, _e[0], *_e[1:5])
        else:
            break


# raw put `to=` a later node: same statement, a later `;` statement on the same line, a later line, across a block header
_V = [['value', None]]
HISTORIES += [
    ('a = 1; b = 2', [('raw-to', [['body', 0]] + _V, [['body', 1]] + _V, 'x')]),
    ('a = 1; b = 2; c = 3\nd = 4', [('raw-to', [['body', 0]] + _V, [['body', 1]] + _V, 'x'), ('raw-to', [['body', 0]] + _V, [['body', 1]] + _V, 'y')]),
    ('if q: a = f(1); b = 2; d = 3\n', [('raw-to', [['body', 0], ['body', 0], ['value', None], ['args', 0]], [['body', 0], ['body', 1]] + _V, '7)')]),
    ('def g():\n    a = [1, 2]; b = 3\n    return a', [('raw-to', [['body', 0], ['body', 0], ['value', None], ['elts', 1]], [['body', 0], ['body', 1]] + _V, '4]')]),
    ('a = f(1, 2)\nb = 3', [('raw-to', [['body', 0], ['value', None], ['args', 0]], [['body', 0], ['value', None], ['args', 1]], 'k')]),
    ('a = 1\nb = 2\nc = 3', [('raw-to', [['body', 0]] + _V, [['body', 1]] + _V, 'x')]),
    ('class K:\n    a = 1; b = 2  # c\n    d = 3', [('raw-to', [['body', 0], ['body', 0]] + _V, [['body', 0], ['body', 1]] + _V, 'x')]),
]


def _histories(ctx):
    recs = []
    for src, script in HISTORIES:
        recs.extend(ops.run_sequence((src, 0, 0, ['put_src'], script)))
    return recs


def _slice_family(ctx):
    """raw-mode slice puts to statement-list fields: every [start:stop) x every replacement text, one per fresh tree"""
    edits = ops.slice_edits() + ops.expr_slice_edits()
    res = pmap(ops.run_sequence, [(src, 0, 0, ['put_src'], [e]) for src, e, _ in edits])
    recs = []
    for (src, e, label), lst in zip(edits, res):
        for r in lst:
            r['rk'], r['nk'] = label, 'slice-text'
            recs.append(r)
    return recs


def _header_family(ctx):
    """every block statement kind x optional blocks x nesting: edits wholly inside the header, one per fresh tree"""
    edits = ops.header_edits() + ops.span_edits() + ops.tail_chain_edits()
    res = pmap(ops.run_sequence, [(src, 0, 0, ['put_src'], [e]) for src, e, _ in edits])
    recs = []
    for (src, e, label), lst in zip(edits, res):
        for r in lst:
            r['rk'], r['nk'] = 'header:' + label.split(':')[0], 'header:' + label.split(':')[1]
            recs.append(r)
    return recs


# expression roots (the whole-source path with a non-module root): judged by ast.parse(mode='eval')
EXPR_ROOTS = ['a + b * c', 'f"{ab}"', 'x if y else z', '[a, b, c]', 'f(a, b=c)', 'a.b[c]', 'lambda x: x + 1', '{a: b, c: d}',
              'not a and b', 'f"{x!r:>{w}} t"', '(a, b)', 'a < b < c', '-a ** b', '[i for i in x if i]', 'a or b or c']
EXPR_TEXTS = ['+ c', 'b=', 'zz', '(q)', '', '* 2', ')', 'q,', ' and r', '.m', '[0]', 'a + b']


def _expr_case(src, rect, new):
    """one raw edit on an expression root; returns None (not applicable) or [(sig, what)] (empty = fine) and a note"""
    from fst import FST
    import fst.fst_core as fc
    fc._MODIFYING.clear()
    try:
        root = FST(src)
    except Exception:
        return None, None
    if not isinstance(root.a, ast.expr):
        return None, None
    d0 = util.dump_pos(root.a)
    new_src = ops.splice(src, new, *rect)
    try:
        ref = ast.parse(new_src, mode='eval').body
    except SyntaxError:
        ref = None
    except Exception:
        return None, None
    out = []
    note = None
    pre = 'C10|put_src-reparse|expr-root|'
    try:
        root.put_src(new, *rect, 'reparse')
    except Exception as e:
        if root.src != src or util.dump_pos(root.a) != d0:
            out.append((pre + 'not-atomic', f'raised {type(e).__name__} but source or tree changed'))
        elif ref is not None:
            out.append((pre + f'refuses-valid-source|{type(e).__name__}',
                        f'raised {type(e).__name__}: {e} although the new source is a valid expression'))
    else:
        if root.src != new_src:
            out.append((pre + 'src-not-splice', 'source is not the requested splice'))
        elif ref is not None and util.dump_pos(root.a) != util.dump_pos(ref):
            out.append((pre + 'tree-differs', 'tree differs from ast.parse(new source, mode="eval"): '
                        + util.first_diff(util.dump_pos(root.a), util.dump_pos(ref))))
        elif ref is None:
            note = 'accepted-as-another-kind (mode "all" retry of non-module roots, by design)'
    if root in fc._MODIFYING:
        out.append((pre + 'registry-not-empty', 'registry entry left behind'))
    return out, note


def _expr_roots(ctx):
    import io
    import tokenize
    n = 0
    for src in EXPR_ROOTS:
        toks = [t for t in tokenize.generate_tokens(io.StringIO(src).readline)
                if t.type not in (tokenize.NEWLINE, tokenize.NL, tokenize.ENDMARKER) and t.start[0] == 1]
        rects = [(0, t.start[1], 0, t.end[1]) for t in toks]
        rects += [(0, a.start[1], 0, b.end[1]) for a, b in zip(toks, toks[1:])] + [(0, t.end[1], 0, t.end[1]) for t in toks]
        for rect in rects:
            for new in EXPR_TEXTS + [src[rect[1]:rect[3]]]:
                got, note = _expr_case(src, rect, new)
                if got is None:
                    continue
                n += 1
                w = {'src': src, 'op': 'put_src', 'rect': list(rect), 'new': new, 'root': 'expression'}
                ctx.count([src, rect, new, 'expr-root'])
                if note:
                    ctx.tally('expr_root', note)
                for sig, what in got:
                    ctx.fail(sig, f'expression root {src!r} put_src {list(rect)} <- {new!r}: {what}', w)
                    ctx.tally('failure_signature', sig)
                    ctx.notes.setdefault('first_witness_per_signature', {}).setdefault(sig, {'what': what[:300], 'witness': w})
    ctx.notes['expr_root_edits'] = n


def _directed(ctx):
    rec = ops.recorder()
    recs = []
    for src, rect, new in DIRECTED:
        r = _exec_witness({'src': src, 'op': 'put_src', 'rect': rect, 'new': new}, rec)
        r['rk'], r['nk'] = 'directed', 'directed'
        recs.append(r)
    return recs


def sweep(ctx):
    q = ctx.quick
    _replay_findings(ctx)
    _account(ctx, _pipeline(ctx, _directed(ctx)), 'directed edits (every wrapper family / graft variant) vs Pfst.Raw')
    _account(ctx, _pipeline(ctx, _histories(ctx)), 'scripted histories (refused and accepted edits at different places) vs Pfst.Raw')
    _account(ctx, _pipeline(ctx, _header_family(ctx)), 'header edits (every block kind x optional blocks x nesting) vs Pfst.Raw')
    _account(ctx, _pipeline(ctx, _slice_family(ctx)), 'raw slice puts to statement-list fields vs Pfst.Raw')
    _expr_roots(ctx)
    progs = _programs(ctx, 160 if q else 1200, 12 if q else 150)
    mix = ['put_src'] * 7 + ['raw-put'] * 2 + ['raw-put-to', 'raw-slice', 'reparse']
    recs = _gather(ctx, progs, 6, 6 if q else 9, mix)
    triples = _pipeline(ctx, recs)
    _account(ctx, triples, 'raw reparse (wrapper, path, deltas, return, accept, tree) vs Pfst.Raw')
    ctx.notes['edits'] = len(recs)
    ctx.notes['edits_reaching_reparse'] = sum(1 for _, m, _ in triples if m is not None)
    for r, m, e in triples:
        if m is not None and isinstance(m, dict) and 'handed' in m:
            ctx.sample({'src': r['src'][:160], 'rect': r['rect'], 'new': r['new'], 'handed_to_parser': '\n'.join(m['handed'])[:200],
                        'path': m['path'], 'delta': m['delta']}, cap=4)


def search(ctx):
    """Something broke: evaluate the property itself more widely, first around the disagreeing inputs."""
    seeds = []
    for name, w in ctx.hints[:200]:
        if isinstance(w, dict) and w.get('f') == 'C10.clip':
            # a coordinate spelling on which clip_src_loc and the model disagree: the same spelling through put_src (identity text)
            src = '\n'.join(w['lines'])
            exp = ctx.lean([w])[0].get('out')
            if isinstance(exp, list) and src.strip():
                wit = {'src': src, 'op': 'put_src', 'rect': exp, 'new': ops.splice_get(w['lines'], *exp), 'spelled': w['a']}
                for sig, what in _run_witness(ctx, wit):
                    ctx.fail(sig, what, wit)
            continue
        if isinstance(w, dict) and 'src' in w:
            seeds.append(w['src'])
            for sig, what in _run_witness(ctx, w) if 'op' in w else []:
                ctx.fail(sig, what, w)
    progs = list(dict.fromkeys(seeds)) + _programs(ctx, 500, 40)
    mix = ['put_src'] * 7 + ['raw-put'] * 2 + ['reparse']
    recs = _gather(ctx, progs, 6, 8, mix)
    n = 0
    for r, m, e in _pipeline(ctx, recs):
        n += 1
        for sig, what in e['fail']:
            ctx.fail(sig, f'{r["op"]} {r["rect"]} <- {r["new"]!r}: {what}', _witness(r))
    ctx.notes['search_edits'] = n


def replay(ctx, data):
    w = data.get('witness')
    if not w or 'op' not in w:
        print('replay file names a broken obligation, not an input:', [b for b in data.get('broken', [])][:3])
        return
    for sig, what in _run_witness(ctx, w):
        ctx.fail(sig, what, w)
