"""C15 — walking stays sound while the tree is being modified."""

import ast
import itertools
import json
import random

import c15_real as R
import corpus
import util
from framework import pmap

ID = 'C15'
LEAN_MODULES = ['Pfst.Props.C15']
LEAN_DEPS = ['Pfst.WalkMut', 'Pfst.WalkMutLemmas']
THEOREMS = [
    'Pfst.C15.step_inv', 'Pfst.C15.mut_inv', 'Pfst.C15.send_inv', 'Pfst.C15.run_inv', 'Pfst.C15.yield_alive',
    'Pfst.C15.no_double', 'Pfst.C15.terminates', 'Pfst.C15.replaced_children_next', 'Pfst.C15.removed_continues',
    'Pfst.C15.send_honoured', 'Pfst.C15.checks_sound', 'Pfst.C15.concrete_init_inv', 'Pfst.C15.init_inv',
    'Pfst.C15.dead_skipped', 'Pfst.C15.alloc_bound', 'Pfst.C15.apply_bound', 'Pfst.C15.yield_alive_leave_both', 'Pfst.C15.leave_rewalk_children',
    'Pfst.C15.both_rewalk_reenters', 'Pfst.C15.leave_rewalk_removed', 'Pfst.C15.root_rewalk_children', 'Pfst.C15.root_rewalk_both',
    'Pfst.C15.root_rewalk_new_children', 'Pfst.C15.search_consumer_send_wins', 'Pfst.C15.search_auto_send',
    'Pfst.C15.send_last', 'Pfst.C15.search_send_true_honoured',
]
RULE = ('(a) nested-list programs (every ordered tree shape with <= 7 List/Name nodes): scripted consumers "at yield k do '
        'action A on target T" with A in {replace by leaf / by [x, y] / by [[x], y], remove} x optional send(False|True), '
        'T in {cur, parent, gparent, root, prev, next, child0, childN, pprev, pnext, first, wroot}; all single scripts for '
        'small trees and sampled pairs, for every on x back x recurse x self_ (x scope for enter); the real walk and the Lean '
        'machine run the same script, compared on the sequence of yielded (FST id, AST id, leaving) and on the final numbered '
        'tree; the model is run twice: with its own replace/remove and with the observed real trees (contract mutOk evaluated); '
        '(b) corpus programs with random scripts, compared through observed trees; (c) property oracle at every yield of '
        'every run (alive, root identity, reachable by ast.walk, first entry, bound on yields, no exception, children-next / '
        'continues / send rules, final tree = ast.parse of final source), plus search() and sub() as consumers. '
        'distinct = distinct (program, parameters, script); non-trivial = at least one tree mutation was performed')
TRUSTED = [
    'modelled: the three loops of fst_traverse.walk (enter with the yield-from nesting for send(True); leave; both) as step '
    'machines over a store (ast.f, fst.a, syntax_ordered_children, check_all_param); replace as _set_ast sees it (FST of the '
    'position kept, old subtree dead, fresh nodes below) and remove as a one-element slice delete',
    'search(class pattern, nested) is modelled as Search.forwarded (every consumer send is forwarded; search sends False itself only '
    'when the consumer sent nothing and nested=False) on top of the walk machines, compared on the same scripted histories; '
    'the scope helpers are swept with deterministic replace / remove / send on every node they yield (walrus targets, first '
    'iterators, defaults, decorators, bases, annotations, type parameters), all in {False, True, Name}, both directions, '
    'oracle: an FST instance, alive, in the tree, no repeat, no exception',
    'an in-place kind switch of a parent (Try <-> TryStar after all handlers were replaced: a fresh AST adopts the existing '
    'children under the same FST) is, like the BoolOp collapse, outside the contract Mut: such histories are contract-exempt, '
    'yields are still compared and the oracle requires the replacement\'s children to be walked next (judged on the node '
    'replace() returned, not on the old FST) and the children of an untouched node to be walked after a sibling edit',
    'not modelled: scope=True (_ScopeContext; exercised by the sweep only, observationally compared on list programs where it '
    'must not change anything), asts=, the f.a->None `None` entries of syntax_ordered_children, source text and positions '
    '(the final-tree oracle covers them per run), cut / raw operations (documented as unsupported or lossy during a walk)',
    'theorems cover on="enter" in full; for leave/both only yield_alive_leave_both is proved (every yield is alive, linked, '
    'reachable), the rest is tied to the code by correspondence and the oracle',
    'operations that re-home an existing AST into another FST (collapse of a two-operand BoolOp on remove with norm=True) do '
    'not meet the contract Mut: such histories are counted as contract-exempt, their yields are still compared with the '
    'machine and judged by the oracle; entry uniqueness is stated and checked on AST identity (the recycled FST object '
    'can be yielded a second time with its new AST)',
    'children of a dead node are taken as [] by the model (walk reads them only in the root-leave send(True) restart, where '
    'all of them are dead); the sweep checks after every mutation that detached nodes are dead and reachable nodes linked',
]
ASSUMPTIONS = [
    'consumer mutations satisfy the contract Mut (dead stays dead, an AST keeps its FST, children change only by deletion / '
    'fresh insertion, an FST changes its AST only to a fresh one under the same parent); evaluated by the Lean driver '
    '(mutOkB) on every mutation the real code performed in the correspondence runs',
    'the `all` callable is a pure function of the node (documented requirement)',
]
LEVEL_TEXT = ('Lean 4 theorems about a step machine mirroring the on="enter" loop of walk (with yield-from nesting): an invariant '
              'preserved by every walk step, every send and every store change meeting the consumer contract, for every '
              'interleaving; consequences: every yielded node is alive and linked, no AST is entered twice, yields are bounded '
              'by the number of ids ever allocated, replaced children are next, removal continues with the stack, send(False/True) '
              'honoured. Tied to /repo by running machine and real walk on the same scripted mutation histories each run.')
LEVEL_NOTE = ('Theorems are about the model for on="enter"; leave/both and scope are checked differentially and by the per-yield '
              'oracle. The store contract is an assumption of the theorems, evaluated on every real mutation in the runs.')
TECHNIQUE = 'Lean 4 proof (invariant over a small-step machine, induction over interleavings) + model-implementation correspondence'

LEAVES = 'abcdefghij'
REPL = ['r{u}', '[r{u}a, r{u}b]', '[[r{u}a], r{u}b]']
SENDS = [None, False, True]
ONS = ['enter', 'leave', 'both']


# ---- nested-list programs ------------------------------------------------------------------------------------------

def trees(n):
    """all ordered rooted trees with n nodes, as nested lists (a leaf is [])"""
    if n == 1:
        return [[]]
    out = []
    for forest in forests(n - 1):
        out.append(forest)
    return out


_FOREST = {}


def forests(n):
    """all ordered forests with n nodes in total"""
    if n in _FOREST:
        return _FOREST[n]
    if n == 0:
        r = [[]]
    else:
        r = []
        for k in range(1, n + 1):
            for t in trees(k):
                for rest in forests(n - k):
                    r.append([t] + rest)
    _FOREST[n] = r
    return r


def render(t, names, empty_leaf=False):
    if not t:
        return '[]' if empty_leaf and next(names) in 'cf' else next(names)
    return '[' + ', '.join(render(c, names, empty_leaf) for c in t) + ']'


def list_sources(maxn):
    out = []
    for n in range(2, maxn + 1):
        for t in trees(n):
            out.append((n, render(t, iter(LEAVES))))
    return out


def n_vis(src):
    return sum(1 for n in ast.walk(ast.parse(src)) if isinstance(n, (ast.List, ast.Name)))


def param_grid():
    g = []
    for on in ONS:
        for back in (False, True):
            for recurse in (True, False):
                for self_ in (True, False):
                    g.append(dict(on=on, back=back, recurse=recurse, self_=self_))
    return g


def act_list(target, action, send, u):
    acts = []
    if action == 'remove':
        acts.append(['remove', target])
    elif action is not None:
        acts.append(['replace', target, REPL[action].format(u=u)])
    if send is not None:
        acts.append(['send', send])
    return acts


def single_scripts(nyield):
    """every (k, target, action, send)"""
    for k in range(nyield):
        for send in SENDS:
            if send is not None:
                yield [[k, [['send', send]]]]
            for t in R.TARGETS:
                for action in (0, 1, 2, 'remove'):
                    yield [[k, act_list(t, action, send, 'x')]]


def rand_script(rng, nyield, nact):
    sc = []
    for i in range(nact):
        k = rng.randrange(nyield)
        t = rng.choice(R.TARGETS[:1] * 3 + R.TARGETS)
        action = rng.choice([0, 1, 2, 'remove', 'remove', None])
        send = rng.choice([None, None, False, True])
        a = act_list(t, action, send, 'xyzuvw'[i % 6])
        if a:
            sc.append([k, a])
    sc.sort(key=lambda e: e[0])
    return sc


WROOTS = [[0, 0], [0, 0], []]     # the outer List (twice as likely) or the Module


def list_cases(ctx):
    """generator of cases (streamed: the thorough tier has ~900k of them)"""
    rng = random.Random(ctx.rng.random())
    q = ctx.quick
    grid = param_grid()
    srcs = list_sources(7)
    budget_single = 6000 if q else 100000
    budget_multi = 4000 if q else 120000
    exh_n = 0 if q else 5          # single scripts are enumerated exhaustively for trees up to this many nodes

    def enum(small):
        for n, src in srcs:
            if n > (5 if q else 6) or (n <= exh_n) != small:
                continue
            for p in grid:
                ny = (n + 2) * (2 if p['on'] == 'both' else 1)
                for sc in single_scripts(ny):
                    yield (src, p, sc)

    n_exh = sum(1 for _ in enum(True)) if exh_n else 0
    n_pool = sum(1 for _ in enum(False))
    pick = set(rng.sample(range(n_pool), min(budget_single, n_pool)))
    ctx.notes['single_script_space'] = n_exh + n_pool
    ctx.notes['single_scripts'] = ('exhaustive for trees <= %d nodes (%d scripts); ' % (exh_n, n_exh) if exh_n else '') + \
        'sampled %d of %d for larger trees' % (len(pick), n_pool)
    if exh_n:
        for src, p, sc in enum(True):
            yield dict(p, src=src, wroot=[0, 0], script=sc, all='F', mode='exec')
    for i, (src, p, sc) in enumerate(enum(False)):
        if i in pick:
            yield dict(p, src=src, wroot=[0, 0], script=sc, all='F', mode='exec')
    for _ in range(budget_multi):
        n, src = rng.choice(srcs)
        if rng.random() < 0.15:
            src = src.replace('c', '[]').replace('f', '[]')
        p = rng.choice(grid)
        ny = (n + 3) * (2 if p['on'] == 'both' else 1)
        sc = rand_script(rng, ny, rng.choice([2, 2, 3, 4]))
        c = dict(p, src=src, wroot=rng.choice(WROOTS), script=sc, all=rng.choice('FFFTN'), mode='exec')
        if p['on'] == 'enter' and rng.random() < 0.25:
            c['scope'] = True
        elif rng.random() < 0.2:
            c['search'] = {'nested': rng.random() < 0.5}
            c['all'] = rng.choice(['LN', 'L', 'N'])
        if c['wroot'] == [0, 0] and rng.random() < 0.2:
            # walk a proper subtree: the first inner List, if any
            t = ast.parse(src).body[0].value
            idx = [i for i, e in enumerate(t.elts) if isinstance(e, ast.List)]
            if idx:
                c['wroot'] = [0, 0, idx[0]]
        yield c


REWALK_SRCS = ['[a, [b, c], d]', '[[a, [b]], c]', '[a, b]']


def rewalk_cases():
    """deterministic: send(True) on every yield of leave/both walks combined with a replace / remove of the node just
    yielded, an ancestor, a sibling or a child in the same step (the repeat walk must use the CURRENT children)"""
    out = []
    for src in REWALK_SRCS:
        n = n_vis(src)
        for on in ('leave', 'both'):
            for back in (False, True):
                for recurse in (True, False):
                    for k in range((n + 1) * (2 if on == 'both' else 1)):
                        for t in ('cur', 'parent', 'gparent', 'prev', 'next', 'child0'):
                            for action in (1, 2, 'remove'):
                                out.append(dict(on=on, back=back, recurse=recurse, self_=True, src=src, wroot=[0, 0],
                                                script=[[k, act_list(t, action, True, 'w')]], all='F', mode='exec'))
                        out.append(dict(on=on, back=back, recurse=recurse, self_=True, src=src, wroot=[0, 0],
                                        script=[[k, [['send', True]]]], all='F', mode='exec'))
    return out


SEARCH_SRCS = ['[a, [b, c], d]', '[[a, [b]], c]']


def search_cases():
    """deterministic: FST.search(class pattern, nested, on) driven like walk: at match k replace / remove the matched node
    (or not) and answer with send(True | False | nothing)"""
    out = []
    for src in SEARCH_SRCS:
        n = n_vis(src)
        for pat in ('LN', 'L'):
            for nested in (False, True):
                for on in ONS:
                    for back in (False, True):
                        for k in range((n + 1) * (2 if on == 'both' else 1)):
                            for action in (None, 1, 2, 'remove'):
                                for send in (None, True, False):
                                    if pat == 'L' and back and action == 2:
                                        continue
                                    out.append(dict(on=on, back=back, recurse=True, self_=True, src=src, wroot=[0, 0],
                                                    script=[[k, act_list('cur', action, send, 'w')]] if (action is not None or send is not None) else [],
                                                    all=pat, mode='exec', search={'nested': nested}))
    return out


def _fst():
    from fst import FST
    return FST


def _run(case):
    try:
        return R.run_case(case, _fst())
    except Exception as e:        # harness problem, not a verdict
        import traceback
        return {'end': 'harness-exc', 'err': traceback.format_exc()[-1500:]}


def lean_case(case, res, which):
    d = _lean_case(case, res, which)
    if case.get('search'):
        d['nested'] = case['search']['nested']
    return d


def _lean_case(case, res, which):
    return {'f': 'C15.run', 'on': case['on'], 'self': case.get('self_', True), 'recurse': case.get('recurse', True),
            'back': case.get('back', False), 'tree': res['tree0'], 'next': res['next0'], 'root': res['root_fid'],
            'script': res['mscript' + which], 'cap': 40 * (res['next0'] + 8) + 2}


def _pending():
    """signatures of findings recorded in C15_findings.json that the shared known_findings.json does not list yet: reported
    in the evidence notes instead of as failures until they are listed (they then show as KNOWN-FINDING lines)"""
    import framework
    from pathlib import Path
    f = Path(__file__).with_name('C15_findings.json')
    if not f.exists():
        return set()
    mine = set()
    for e in json.loads(f.read_text()):
        if e.get('kind', 'known') == 'known':
            mine.update(e.get('signatures') or [e.get('signature')])
    listed = set()
    for e in framework.load_known(ID):
        listed.update(e.get('signatures') or [e.get('signature')])
    return mine - listed


PENDING = None


def sig(case, cls, last_mut):
    return f'C15|{case["on"]}|{last_mut[0]}|{last_mut[1]}|{cls}'


def report_viol(ctx, case, res, where):
    seen = set()
    for cls, detail, last_mut in res.get('viol', []):
        if case.get('search'):
            cls = 'search-' + cls       # the consumer drives FST.search(), not FST.walk()
        s = sig(case, cls, last_mut)
        if s in seen:
            continue
        seen.add(s)
        global PENDING
        if PENDING is None:
            PENDING = _pending()
        if s in PENDING:
            ctx.tally('finding_recorded_but_not_listed_yet', s)
            continue
        ctx.fail(s, f'{where}: {detail} (on={case["on"]}, back={case.get("back")}, recurse={case.get("recurse")}, '
                    f'self_={case.get("self_")}, scope={case.get("scope", False)})', {'case': case})


def compare(ctx, name, cases, results, also_ideal):
    """run the Lean machine on what the real runs did; compare yields (and final trees for the idealised actions)"""
    lc, meta = [], []
    for c, r in zip(cases, results):
        if r.get('end') in ('noparse', 'nowroot', 'rejected', 'harness-exc', 'exc-create:NotImplementedError'):
            ctx.tally('excluded', r.get('end'))
            if r.get('end') == 'harness-exc':
                ctx.brk('correspondence', name, 'harness exception: ' + r.get('err', ''))
            continue
        if r['tree0'] is None:
            continue
        if c.get('scope') and not also_ideal:
            ctx.tally('excluded', 'scope=True on a corpus program (not modelled; oracle only)')
            continue
        lc.append(lean_case(c, r, 'B'))
        meta.append((c, r, 'B'))
        if also_ideal and r['idealA']:
            lc.append(lean_case(c, r, 'A'))
            meta.append((c, r, 'A'))
    try:
        outs = ctx.lean(lc)
    except Exception as e:
        ctx.brk('correspondence', name, f'driver error: {e}')
        return 0, 0, None
    nbad = 0
    first = None
    for (c, r, w), mo in zip(meta, outs):
        ctx.corr_cases += 1
        m = mo.get('out', mo)
        ctx.count([c['src'], c['on'], c.get('back'), c.get('recurse'), c.get('self_'), c.get('scope'), c.get('all'),
                   c.get('wroot'), c['script'], w, c.get('search')], r['n_mut'] > 0 or bool(c.get('search')))
        why = None
        if 'yields' not in m:
            why = 'model error ' + json.dumps(m)[:200]
        elif r['end'] != 'done':
            why = f'real walk ended with {r["end"]}'
        elif m['yields'] != r['yields']:
            i = next((i for i, (x, y) in enumerate(zip(m['yields'], r['yields'])) if x != y), min(len(m['yields']), len(r['yields'])))
            why = f'yield sequences differ at #{i}: model {m["yields"][i:i + 3]} real {r["yields"][i:i + 3]}'
        elif m['end'] != 'done':
            why = f'model ended with {m["end"]}'
        elif w == 'A' and (m['tree'] != r['final'] or m['next'] != r['final_next']):
            why = 'final numbered tree differs (replace/remove model vs real effect)'
        elif not m['mutok']:
            if r.get('moved') and not also_ideal:
                ctx.tally('excluded', 'contract-exempt: operation re-homed an existing AST (yields still compared)')
            else:
                why = 'a real mutation does not meet the consumer contract (mutB false)'
        if why:
            nbad += 1
            d = {'corr': name + '/' + w, 'why': why, 'case': c}
            if first is None:
                first = d
            if len(ctx.corr_disagreements) < 20:
                ctx.corr_disagreements.append(d)
            ctx.hints.append((name, c))
    d = ctx.dist.setdefault('correspondence_cases', {})
    d[name] = d.get(name, 0) + len(lc)
    return len(lc), nbad, first


BATCH = 60000


def _batches(it, n):
    it = iter(it)
    while True:
        b = list(itertools.islice(it, n))
        if not b:
            return
        yield b


def run_compare(ctx, name, case_iter, also_ideal, where, tally_prefix=''):
    """real runs + oracle + model comparison, in batches (bounded memory); one brk for the whole stream"""
    tot = bad = 0
    first = None
    sample = None
    for cases in _batches(case_iter, BATCH):
        results = pmap(_run, cases)
        for c, r in zip(cases, results):
            ctx.tally(tally_prefix + 'on', c['on'])
            ctx.tally(tally_prefix + 'end', r.get('end'))
            if r.get('end') == 'rejected' and tally_prefix:
                ctx.tally('rejected', r.get('rejected', '')[:40])
            if r.get('n_mut'):
                ctx.tally(tally_prefix + 'last_mutation', '%s %s' % r['last_mut'])
            report_viol(ctx, c, r, where)
            if sample is None and r.get('end') == 'done' and r.get('n_mut'):
                sample = {'src': c['src'][:200], 'on': c['on'], 'script': c['script'], 'yields': r['yields'][:12],
                          'final_src': r['final_src'][:200]}
        n, nb, f = compare(ctx, name, cases, results, also_ideal)
        tot += n
        bad += nb
        first = first or f
        del results
    if sample:
        ctx.sample(sample)
    if bad:
        ctx.brk('correspondence', name, f'{bad}/{tot} cases differ; first: ' + json.dumps(first, default=str)[:1500])


def correspondence(ctx):
    run_compare(ctx, 'walk(list programs) vs Pfst.WalkMut machines', itertools.chain(rewalk_cases(), search_cases(), list_cases(ctx)), True,
                'list program')
    ctx.exhaustive = ctx.notes.get('single_scripts', '').startswith('exhaustive')   # for the bounded part only, see notes


# ---- corpus programs -------------------------------------------------------------------------------------------------

EXPR_REPL = ['zz', '[zz, yy]', 'zz.ww(yy)', '(zz + yy)']
STMT_REPL = ['zz = yy', 'if zz:\n    yy\n    ww', 'pass']


def prog_cases(ctx, n_prog, per, stdlib):
    rng = random.Random(ctx.rng.random())
    progs = corpus.programs(rng, n_prog, stdlib=stdlib)
    hard = corpus.hard_snippets() if hasattr(corpus, 'hard_snippets') else []
    progs = progs + (hard if not ctx.quick else rng.sample(hard, min(len(hard), 25)))     # appended after the existing inputs
    cases = []
    grid = param_grid()
    for src in progs:
        try:
            nn = sum(1 for _ in ast.walk(ast.parse(src)))
        except Exception:
            continue
        if nn > 400:
            continue
        for _ in range(per):
            p = rng.choice(grid)
            ny = max(2, min(nn, 60))
            sc = []
            for i in range(rng.choice([1, 1, 2, 3])):
                k = rng.randrange(ny)
                t = rng.choice(R.TARGETS[:1] * 4 + R.TARGETS)
                kind = rng.random()
                send = rng.choice([None, None, None, False, True])
                acts = []
                if kind < 0.45:
                    acts.append(['replace', t, rng.choice(EXPR_REPL)])
                elif kind < 0.6:
                    acts.append(['replace', t, rng.choice(STMT_REPL)])
                elif kind < 0.9:
                    acts.append(['remove', t])
                if send is not None:
                    acts.append(['send', send])
                if acts:
                    sc.append([k, acts])
            sc.sort(key=lambda e: e[0])
            c = dict(p, src=src, wroot=[], script=sc, all=rng.choice('FFT'), mode='exec')
            if p['on'] == 'enter' and rng.random() < 0.3:
                c['scope'] = True
            cases.append(c)
    return cases


# ---- search() and sub() as consumers ---------------------------------------------------------------------------------

def _search_case(arg):
    """search(pattern) with a mutating consumer; sub(); returns list of (sigparts, detail, witness)"""
    src, seed = arg
    rng = random.Random(seed)
    from fst import FST
    import fst.match as M
    out = []
    try:
        root = FST(src, 'exec')
    except Exception:
        return out
    n0 = sum(1 for _ in ast.walk(root.a))
    on = rng.choice(ONS)
    back = rng.random() < 0.3
    nested = rng.random() < 0.7
    pat = rng.choice([M.MName, M.MList, M.MOR(M.MName, M.MList), M.MCall, M.Mexpr])
    action = rng.choice(['replace', 'remove', 'none'])
    target = rng.choice(['cur', 'cur', 'parent', 'prev', 'next', 'gparent'])
    at = rng.randrange(0, 6)
    w = {'src': src, 'on': on, 'back': back, 'nested': nested, 'pat': getattr(pat, '__name__', repr(pat)), 'action': action,
         'target': target, 'at': at, 'consumer': 'search', 'seed': seed}
    last = ('none', 'none')
    seen = set()
    introduced = 0
    k = 0
    try:
        gen = root.search(pat, nested, on=on, back=back)
        for item in gen:
            m, leaving = item if on == 'both' else (item, on == 'leave')
            f = m.matched
            a = f.a
            if a is None or getattr(a, 'f', None) is not f:
                out.append((on, last, 'dead-yield', f'search match {k} is not alive', w))
                break
            if id(a) not in R._reachable(root.a):
                out.append((on, last, 'detached-yield', f'search match {k} not reachable from the root', w))
                break
            if not leaving:
                if id(a) in seen:
                    out.append((on, last, 'double-entry', f'search match {k} entered twice', w))
                    break
                seen.add(id(a))
            if k == at and action != 'none':
                tg = R.resolve_targets(root.a, a, None, root.a)
                ta = tg.get(target)
                if ta is not None and ta.f is not None:
                    before = {id(n) for n in ast.walk(root.a)}
                    try:
                        if action == 'replace':
                            ta.f.replace('[sa, sb]' if isinstance(ta, ast.expr) else 'sa = sb', norm=True)
                        else:
                            ta.f.remove(norm=True)
                    except Exception:
                        return out          # operation rejected: not a verdict about the walk
                    last = (action, target)
                    introduced += sum(1 for n in ast.walk(root.a) if id(n) not in before)
                    seen_keep.extend(ast.walk(root.a))
            k += 1
            if k > 4 * (n0 + introduced) + 16:
                out.append((on, last, 'unbounded', 'search does not terminate', w))
                break
    except Exception as e:
        out.append((on, last, 'raised', f'search raised {type(e).__name__}: {e}', w))
        return out
    d = util.tree_equals_parse(root)
    if d:
        out.append((on, last, 'final-tree', 'after search: ' + d, w))
    return out


seen_keep = []


def _sub_case(arg):
    src, seed = arg
    rng = random.Random(seed)
    from fst import FST, NodeError
    import fst.match as M
    out = []
    try:
        root = FST(src, 'exec')
    except Exception:
        return out
    on = rng.choice(['enter', 'leave'])
    back = rng.random() < 0.3
    nested = rng.random() < 0.5
    pat, repl = rng.choice([(M.MName(ctx=ast.Load), 'log(__FST_)'), (M.MName(ctx=ast.Load), '[__FST_, q]'),
                            (M.MList(ctx=ast.Load), '(__FST_,)'), (M.MList(ctx=ast.Load), 'wrap(__FST_)'),
                            (M.MCall, '__FST_.more'), (M.MConstant, 'k')])
    cb = rng.choice(['none', 'none', 'remove-prev', 'replace-next', 'replace-parent'])
    count = rng.choice([0, 0, 1, 2])
    w = {'src': src, 'on': on, 'back': back, 'nested': nested, 'pat': getattr(pat, '__name__', None) or repr(pat), 'repl': repl, 'callback_after': cb,
         'count': count, 'consumer': 'sub', 'seed': seed}
    calls = [0]
    keep = []
    last = ['replace', 'cur']

    def after(f):
        calls[0] += 1
        keep.append(f)
        if calls[0] > 2000:
            raise RuntimeError('C15-harness: too many substitutions')
        if cb == 'none' or calls[0] != 2:
            return
        a = f.a
        if a is None:
            return
        tg = R.resolve_targets(root.a, a, None, root.a)
        sel = cb.split('-')[1]
        ta = tg.get(sel)
        if ta is None or ta.f is None:
            return
        try:
            if cb.startswith('remove'):
                ta.f.remove(norm=True)
            else:
                ta.f.replace('[ca, cb]' if isinstance(ta, ast.expr) else 'ca = cb', norm=True)
            last[:] = cb.split('-')
        except Exception:
            raise _Rejected()

    try:
        root.sub(pat, repl, nested, count=count, on=on, back=back, callback_after=after, norm=True)
    except _Rejected:
        return out
    except Exception as e:
        if 'C15-harness' in str(e):
            if not nested:      # documented: nested=True can loop forever with a self-matching template
                out.append((on, tuple(last), 'unbounded', 'sub(nested=False) keeps substituting', w))
        elif isinstance(e, (SyntaxError, NotImplementedError, ValueError, NodeError)):
            pass                # the substitution itself was refused by the put machinery: no verdict about the walk
        else:
            out.append((on, tuple(last), 'raised', f'sub raised {type(e).__name__}: {e}', w))
        return out
    d = util.tree_equals_parse(root)
    if d:
        out.append((on, tuple(last), 'final-tree', 'after sub: ' + d, w))
    return out


WITH_SRCS = ['def work():\n    with a:\n        with b:\n            with c:\n                body()\n    after()\n',
             'with a:\n    with b:\n        x = 1\n',
             'if t:\n    with a:\n        with b:\n            with c:\n                with d:\n                    pass\nelse:\n    with e:\n        with f:\n            g()\n']
WITH_REPLS = {'one': 'with __FST_outer, __FST_inner:\n    __FST_body',
              'two': 'with __FST_outer, __FST_inner:\n    __FST_body\nmerged()',
              'pre': 'merged()\nwith __FST_outer, __FST_inner:\n    __FST_body'}
LIST_SUB_SRCS = ['x = [[[a]]]', 'y = [[a], [[b]], c]']


def subdet_cases(quick=False):
    """deterministic sub()/subn() runs: statement patterns with one- and two-statement templates (slice put: the matched
    node is not kept), expression patterns, loop in {False, True, 2, 3}, nested, on, back, count"""
    out = []
    for src in WITH_SRCS[:2 if quick else 3]:
        for rn in WITH_REPLS:
            for loop in (False, True, 2, 3):
                for nested in (False, True):
                    for on in ('enter', 'leave'):
                        for back in (False, True):
                            for count in (0,) if quick else (0, 1):
                                out.append(dict(src=src, pat='with', repl=rn, loop=loop, nested=nested, on=on, back=back, count=count))
    for src in LIST_SUB_SRCS:
        for loop in (False, True, 2):
            for nested in (False, True):
                for on in ('enter', 'leave'):
                    for back in (False, True):
                        out.append(dict(src=src, pat='list1', repl='elt', loop=loop, nested=nested, on=on, back=back, count=0))
    return out


def _subdet_case(c):
    """-> [(on, failure class, detail, witness)]; valid templates by construction, so ANY exception is a verdict"""
    from fst import FST
    import fst.match as M
    out = []
    root = FST(c['src'], 'exec')
    if c['pat'] == 'with':
        pat = M.MWith(items=M.M(outer=...), body=[M.MWith(items=M.M(inner=...), body=M.M(body=...))])
        repl = WITH_REPLS[c['repl']]
    else:
        pat = M.MList(elts=[M.M(e=...)])
        repl = '__FST_e'
    w = dict(c, consumer='subdet')
    calls = []
    after = []

    class Stop(Exception):
        pass

    def in_tree(f):
        a = getattr(f, 'a', None)
        return a is not None and getattr(a, 'f', None) is f and any(x is a for x in ast.walk(root.a))

    def callback(f):
        calls.append(f)
        if len(calls) > 200:
            raise Stop()
        if not in_tree(f):
            out.append((c['on'], 'sub-dead-node', f'sub() is about to substitute a node which is not part of the tree ({f!r})', w))
        return False

    def callback_after(f):
        after.append(f)
        if not in_tree(f):
            out.append((c['on'], 'sub-dead-node', f'sub() reports a substituted node which is not part of the tree ({f!r})', w))

    try:
        _, uniq, total = root.subn(pat, repl, c['nested'], count=c['count'], loop=c['loop'], on=c['on'], back=c['back'],
                                   callback=callback, callback_after=callback_after, norm=True)
    except Stop:
        if not (c['nested'] and c['repl'] != 'one'):
            out.append((c['on'], 'sub-unbounded', 'sub() keeps substituting (more than 200 substitutions)', w))
        return out
    except Exception as e:
        out.append((c['on'], 'sub-raised', f'sub() raised {type(e).__name__}: {e}', w))
        return out
    d = util.tree_equals_parse(root)
    if d:
        out.append((c['on'], 'sub-final-tree', 'after sub(): ' + d, w))
        return out
    if total != len(after) or uniq > total:
        out.append((c['on'], 'sub-count', f'subn() reports {uniq}/{total} substitutions, callback_after was called {len(after)} times', w))
    if c['pat'] == 'with' and c['repl'] != 'one':
        n = sum(1 for x in ast.walk(root.a) if isinstance(x, ast.Call) and getattr(x.func, 'id', None) == 'merged')
        if n != total:
            out.append((c['on'], 'sub-count', f'{total} substitutions but {n} marker statements in the result', w))
    names0 = sorted(x.id for x in ast.walk(ast.parse(c['src'])) if isinstance(x, ast.Name))
    names1 = sorted(x.id for x in ast.walk(root.a) if isinstance(x, ast.Name) and x.id != 'merged')
    if names0 != names1:
        out.append((c['on'], 'sub-lost-nodes', f'names before {names0} after {names1}', w))
    return out


class _Rejected(Exception):
    pass


LIST_PROGS = ['[[a, b], [c, [d, e]], f]', 'x = [a, [b, c], d]\ny = [[e], f(g, [h])]', 'f([a, b], [c, [d]])',
              '[pre_grand, [pre_parent, [self], post_parent], post_grand]', 'v = [a, (b, [c, d]), {e: [f]}]']


SCOPE_SRCS = [
    'def f():\n    return [i for i in e if i]\n',
    'def f(a=d):\n    x = {k: v for k, v in m.items()}\n    return (j for j in [p, q])\n',
    'class C:\n    y = [u for u in (v for v in w)]\n',
    'def func(arg):\n    vals = [(last := item * 2) for item in arg]\n    return last, vals\n',
    'def f(a=d, *, k: ann = dk) -> ret:\n    g = lambda p=q, *r, s=t: (w := p)\n'
    '    return {x: (y := v) for x in it1 for v in [z for z in (u := it2)]}\n',
    '@deco(dd)\nclass C(Base, metaclass=M):\n    y = [u for u in (v for v in w)]\n    def m(self, z: int = cz): pass\n',
    '@dec\ndef h[T: bound](x: T = dflt):\n    return (i for i in [(j := i) for i in x])\n',
]
SCOPE_ACTS = [[['replace', 'cur', 'zz']], [['replace', 'cur', 'zz'], ['send', True]], [['replace', 'cur', '[zz, yy]'], ['send', True]],
              [['replace', 'cur', 'zz.ww(yy)']], [['remove', 'cur']], [['send', True]], [['send', False]]]


def scope_cases(quick=False):
    """oracle only (the scope helpers are not modelled): on every yield of a scope walk -- first iterators and walrus
    targets of (nested) comprehensions, defaults, decorators, bases, annotations, type parameters -- replace / remove
    exactly the yielded node and / or send, for all in {False, True, a type}, both directions"""
    out = []
    for src in SCOPE_SRCS:
        n = sum(1 for _ in ast.walk(ast.parse(src)))
        for all_ in 'FTN':
            ny = min(n, 26 if quick else 36) if all_ == 'T' else min(n, 16 if quick else 22)
            for back in (False, True):
                for k in range(ny):
                    for acts in (SCOPE_ACTS[:5] if quick else SCOPE_ACTS):
                        out.append(dict(on='enter', back=back, recurse=True, self_=True, scope=True, src=src, wroot=[0],
                                        script=[[k, acts]], all=all_, mode='exec'))
    return out


CATALOGUE = [
    'raise X from Y', 'raise X(a) from Y.b',
    'try:\n    a\nexcept E as n:\n    b\nexcept (F, G):\n    c\nelse:\n    d\nfinally:\n    e\n',
    'try:\n    a\nfinally:\n    b\n', 'try:\n    a\nexcept E as n:\n    b\n    c\nfinally:\n    e\n    g\n',
    'try:\n    a\nexcept* E as n:\n    b\n    c\n', 'try:\n    a\nexcept* E:\n    b\nexcept* F:\n    c\nfinally:\n    d\n',
    '@d1\n@d2(x)\ndef f(a, b=1, *c, d: int = 2, **e) -> r:\n    return a\n',
    '@d1\nclass C(B1, B2, k=v):\n    x = 1\n',
    'x = {a: b, **c, d: e}', 'f(a, *b, k=v, **kw)', 'with a as b, c as d:\n    pass\n', 'with (a as b):\n    x\n    y\n',
    'x = a[b:c:d, e]', 'x = a < b <= c != d', 'x = a and b or c', 'x = not a and b',
    'if a:\n    b\nelse:\n    c\n', 'if a:\n    b\nelif c:\n    d\n', 'while a:\n    b\nelse:\n    c\n',
    'for i in x:\n    b\nelse:\n    c\n', 'x = [i for i in a if b if c]', 'x = {k: v for k, v in a for j in b}',
    'x = lambda a, b=1, *c, d=2: a', 'x: int = 1', 'x += 1', 'x = y = z', 'del a, b, c', 'import a, b as c',
    'from m import a, b as c', 'assert a, b', 'r = (yield a)', 'x = a if b else c',
    'match s:\n    case [a, *b]:\n        pass\n    case {"k": v, **r}:\n        pass\n    case C(p, q=r) | D():\n        pass\n',
    'x = f"{a}{b!r:>{w}}"', 'x = (a := b)',
    'async def f():\n    await a\n    async for i in x: pass\n    async with a as b: pass\n',
    'type T[U] = list[U]', 'x = a, *b', 'x = a.b.c', 'x = -a + ~b', 'def f():\n    "doc"\n    pass\n',
    'def g():\n    if a:\n        b\n    c\n', 'x = [a, b]; y = (c, d); z = {e, f}',
]


def catalogue_cases(quick=False):
    """every statement / expression kind with optional and list children: at each yield remove or replace the node just
    yielded or a sibling (edits that implicitly remove or re-home other subtrees: Raise.exc -> cause, handler type -> name,
    Dict key <-> value, the last element of a block, a BoolOp operand, ...); compared through observed trees, judged by the
    oracle (in particular: every yield is in the CURRENT plain-ast tree of the root, detached nodes are dead)"""
    out = []
    for src in CATALOGUE:
        n = sum(1 for a in ast.walk(ast.parse(src)) if R.vis_of(a, 'F'))
        for on in ONS:
            for back in (False, True):
                if quick and back and on != 'enter':
                    continue
                for k in range(min(n, 10 if quick else 14) * (2 if on == 'both' else 1)):
                    for acts in ([['remove', 'cur']], [['replace', 'cur', '@kind']], [['remove', 'next']], [['replace', 'prev', '@kind']],
                                 [['replace', 'next', '@kind']], [['replace', 'cur', 'zz']], [['remove', 'prev']])[:5 if quick else 7]:
                        out.append(dict(on=on, back=back, recurse=True, self_=True, src=src, wroot=[], script=[[k, acts]],
                                        all='F', mode='exec'))
    return out


SLICE_SRCS = [
    'x = {a: b, c: [d, e], **f, g: h}', 'match s:\n    case {"k": [v, w], "l": m, **r}:\n        pass\n',
    'x = a < [b, c] <= d != e', 'f(a, [b, c], k=v, *d, **e)', 'class C(B1, [B2, B3][0], k=v):\n    pass\n',
    'def f(a, b=[p, q], *c, d=1, **e):\n    pass\n', 'match s:\n    case C(p, [q, r], k=v):\n        pass\n',
    'if t:\n    a\n    [b, c]\n    d\nelse:\n    e\n', 'x = [a, [b, c], d, e]', 'with a as b, c as [d, e], f:\n    pass\n',
    'del a, [b, c][0], d', 'x = y = [p, q] = z', 'import a, b, c', 'x = a and [b, c] and d and e',
    'try:\n    a\nexcept E:\n    [b, c]\nexcept F:\n    d\n', 'x = {a, (b, c), d}',
]


def slice_cases(quick=False):
    """slice deletions / replacements through every virtual or paired field and plain list fields during a walk: the run
    (1 or 2 elements or key:value pairs) starting at the node just yielded, at a following or a preceding sibling, or
    at the parent; every `on`, both directions, every yield"""
    out = []
    acts = [[['delslice', 'cur', 1]], [['delslice', 'next', 1]], [['delslice', 'prev', 1]], [['delslice', 'cur', 2]],
            [['delslice', 'parent', 1]], [['putslice', 'cur', 1]], [['delslice', 'pnext', 1]], [['delslice', 'pprev', 1]]]
    for src in SLICE_SRCS:
        n = sum(1 for a in ast.walk(ast.parse(src)) if R.vis_of(a, 'F'))
        for on in ONS:
            for back in (False, True):
                if quick and back and on == 'both':
                    continue
                for k in range(min(n, 9 if quick else 14) * (2 if on == 'both' else 1)):
                    for a in (acts[:5] if quick else acts):
                        out.append(dict(on=on, back=back, recurse=True, self_=True, src=src, wroot=[], script=[[k, a]],
                                        all='F', mode='exec'))
    return out


COLLAPSE_SRCS = ['x = a and b', 'x = [a and b, c or d or e]', 'if a and b:\n    pass\n', 'y = f(a or b, (c and d))']


def collapse_cases():
    """removing an operand of a two-operand BoolOp with norm=True collapses it: the remaining operand's AST moves into
    the BoolOp's FST (not a `Mut` change: compared through observed trees, judged by the oracle)"""
    out = []
    for src in COLLAPSE_SRCS:
        n = sum(1 for _ in ast.walk(ast.parse(src)))
        for on in ONS:
            for back in (False, True):
                for k in range(min(n, 12) * (2 if on == 'both' else 1)):
                    for t in ('cur', 'prev', 'next'):
                        out.append(dict(on=on, back=back, recurse=True, self_=True, src=src, wroot=[], script=[[k, [['remove', t]]]],
                                        all='F', mode='exec'))
    return out


ROOT_EDIT = [   # (source, walk root path, [(selector, field), ...]): every (virtual) list field of a scope-like walk root
    ('x = [i + j for i in a for j in b if c]', [0, 1], [('cur', 'generators')]),
    ('x = {i for i in a if b}', [0, 1], [('cur', 'generators')]),
    ('x = (i for i in a)', [0, 1], [('cur', 'generators')]),
    ('x = {k: v for k, v in a for w in b}', [0, 1], [('cur', 'generators')]),
    ('f = lambda a, b=d, *c: a + b', [0, 1], [('child0', '_all')]),
    ('def f(a, b=d, *c, e: t = 1) -> r:\n    return a\n', [0], [('child0', '_all')]),
    ('@d1\n@d2(x)\ndef f(a):\n    return a\n', [0], [('cur', 'decorator_list')]),
    ('@d1\nclass C(B1, B2, k=v):\n    x = 1\n', [0], [('cur', '_bases'), ('cur', 'decorator_list')]),
    ('class C[T, U](B):\n    x = 1\n', [0], [('cur', 'type_params'), ('cur', '_bases')]),
    ('x = {a: b, **c}', [0, 1], [('cur', '_all')]), ('f(a, *b, k=v)', [0, 0], [('cur', '_args')]),
    ('x = [a, [b, c], d]', [0, 1], [('cur', 'elts'), ('childN', 'elts')]),
]


def root_edit_cases():
    """the walk root (comprehension, lambda, def, class, containers) loses ALL elements of one of its list fields while it
    is the node just yielded (or at a later yield), with norm=False (intermediate states of a rebuild) and norm=True;
    scope=True and scope=False, all in {False, True}, both directions"""
    out = []
    for src, wroot, fields in ROOT_EDIT:
        for sel, field in fields:
            for scope in (True, False):
                for all_ in 'FT':
                    for back in (False, True):
                        for norm in (False, True):
                            for k in (0, 1, 2, 4):
                                for send in (None, True):
                                    acts = [['delfield', 'wroot' if (sel == 'cur' and k) else sel, field]] + ([['send', True]] if send else [])
                                    c = dict(on='enter', back=back, recurse=True, self_=True, src=src, wroot=wroot, script=[[k, acts]],
                                             all=all_, mode='exec', norm=norm)
                                    if scope:
                                        c['scope'] = True
                                    out.append(c)
    return out


def sweep(ctx):
    q = ctx.quick
    redit = root_edit_cases()
    sc = scope_cases(q) + [c for c in redit if c.get('scope')]
    for c, r in zip(sc, pmap(_run, sc)):
        ctx.tally('scope_end', r.get('end'))
        ctx.count([c['src'], c['back'], c['script'], 'scope'], r.get('n_mut', 0) > 0)
        report_viol(ctx, c, r, 'scope walk')
    # corpus programs: oracle + correspondence through observed trees
    cases = [c for c in redit if not c.get('scope')] + collapse_cases() + slice_cases(q) + catalogue_cases(q) + prog_cases(ctx, 60 if q else 500, 5 if q else 14, 4 if q else 40)
    run_compare(ctx, 'walk(corpus programs, observed mutations) vs Pfst.WalkMut machines', cases, False, 'corpus program',
                'prog_')
    # search / sub
    rng = random.Random(ctx.rng.random())
    progs = LIST_PROGS * (3 if q else 20) + corpus.programs(rng, 40 if q else 400, stdlib=0)
    args = [(p, rng.randrange(1 << 30)) for p in progs for _ in range(4 if q else 6)]
    sd = subdet_cases(q)
    for lst in pmap(_subdet_case, sd):
        for on, cls, detail, w in lst:
            ctx.fail(f'C15|{on}|replace|cur|{cls}', 'sub()/subn() as consumer: ' + detail, w)
    ctx.count(None, n=len(sd))
    ctx.notes['subdet_runs'] = len(sd)
    for fn, nm in ((_search_case, 'search'), (_sub_case, 'sub')):
        res = pmap(fn, args)
        n = 0
        for lst in res:
            n += 1
            for on, last, cls, detail, w in lst:
                ctx.fail(f'C15|{on}|{last[0]}|{last[1]}|{nm}-{cls}', f'{nm}() as consumer: {detail}', w)
        ctx.count(None, n=n)
        ctx.notes[nm + '_runs'] = n


def search(ctx):
    """wider oracle run on the implementation (no model): first the disagreeing inputs, then fresh scripts"""
    hinted = [c for _, c in ctx.hints[:200]]
    for c, r in zip(hinted, pmap(_run, hinted)):
        report_viol(ctx, c, r, 'hinted case')
    if ctx.failures:
        return
    sub = type('C', (), {})()
    sub.rng = random.Random(ctx.rng.random())
    sub.quick = False
    sub.notes = {}
    n = 0
    for cases in _batches(itertools.islice(list_cases(sub), 250000), BATCH):
        for c, r in zip(cases, pmap(_run, cases)):
            report_viol(ctx, c, r, 'list program (search)')
        n += len(cases)
        if ctx.failures:
            break
    ctx.notes['search_cases'] = n


def replay(ctx, data):
    w = data.get('witness')
    if not w:
        print('replay file names a broken obligation, not an input:', [b for b in data.get('broken', [])][:3])
        return
    if 'case' in w:
        r = _run(w['case'])
        for cls, detail, last in r.get('viol', []):
            ctx.fail('replay', f'{cls}: {detail}', w)
    elif w.get('consumer') == 'subdet':
        for on, cls, detail, _ in _subdet_case({k: v for k, v in w.items() if k != 'consumer'}):
            ctx.fail('replay', f'{cls}: {detail}', w)
    elif w.get('consumer') in ('search', 'sub'):
        fn = _search_case if w['consumer'] == 'search' else _sub_case
        for on, last, cls, detail, _ in fn((w['src'], w['seed'])):
            ctx.fail('replay', f'{cls}: {detail}', w)
