"""C13 — reconcile() returns a valid tree that equals the externally edited AST."""

import ast
import random

import corpus
import util
import c13_lib as L
from framework import pmap

ID = 'C13'
LEAN_MODULES = ['Pfst.Props.C13']
LEAN_DEPS = ['Pfst.Reconcile', 'Pfst.ReconcileLemmas']
THEOREMS = [
    'Pfst.C13.frame', 'Pfst.C13.fallback_overrides', 'Pfst.C13.foreign_ok_correct', 'Pfst.C13.fields_scalar_correct',
    'Pfst.C13.trace_correct_partial', 'Pfst.C13.trace_correct_false', 'Pfst.C13.untouched_silent',
    'Pfst.C13.no_change_false', 'Pfst.C13.rounds',
    # full statements (mutual structural induction, Pfst/ReconcileCorrect.lean, ReconcileQuiet.lean, ReconcileKept.lean)
    'Pfst.C13.node_correct', 'Pfst.C13.intree_never_fails', 'Pfst.C13.children_correct', 'Pfst.C13.slice_correct',
    'Pfst.C13.slice_correct_ast', 'Pfst.C13.dict_correct', 'Pfst.C13.trace_correct', 'Pfst.C13.rounds_correct', 'Pfst.C13.untouched_silent_full',
    'Pfst.C13.no_change', 'Pfst.C13.no_change_ops', 'Pfst.C13.untouched_kept',
]
RULE = ('corpus programs (snippets covering every node type, generated programs, layout / comment / parenthesis variants, '
        'stdlib chunks) are parsed to an FST, marked, and edited by 1-3 pure-AST mutations per round for 1-3 mark/reconcile '
        'rounds: replace an expression by a new AST / an in-tree node (move, duplicate) / a node of another FST tree (intact or '
        'modified) / a new parent wrapping the old node; insert, delete, swap, reverse, move, duplicate statements and list, '
        'tuple, set, dict, call-argument, BoolOp elements (new, in-tree, foreign; across containers); tail deletions; '
        'primitive changes (identifiers, constants, attribute / def / arg names, operators); optional fields set / unset; '
        'Global names. Every case is run through the Lean model (op trace) and the real reconcile() with put / put_slice / '
        'replace / put_src wrapped at run time; traces are compared op for op (a real op that raised followed by the '
        'documented pure-AST retry at an ancestor covers the model ops below it and is counted as fallback). The same runs '
        'are judged by the oracle: result == ast.parse(result.src) with positions; ast.dump equality with the edited AST; '
        'unchanged tree => identical source; untouched statements keep their text and trailing comment. '
        'distinct = distinct (program, mutation script); non-trivial = the trace is not empty')
TRUSTED = [
    'modelled (Pfst/Reconcile.lean): Reconcile.recurse_node (in-tree in place / off path / other tree verified / other tree '
    'unverified / pure AST; the except -> put_node retry), recurse_children (ctx/str skipped, scalar `!=` comparison, the slice '
    'field name list, Dict -> recurse_slice_dict, different-length NotImplementedError), recurse_slice and recurse_slice_dict '
    '(first-element condition, contiguous-run detection, other-tree verification of the run, insertion past the end, tail '
    'deletion), put_node, _SLICE_COMAPTIBILITY (read from the imported module on every run)',
    'not modelled: what put / put_slice / replace / copy / get_slice do to the source text (C03-C08); their failures are '
    'observed as raised ops and accepted only in the shape of the documented retry at the parent; verify(reparse=False) is '
    're-implemented in the harness (link check) and its verdict is an input of the model',
    'the serialiser (harness/c13_lib.py Ser): origin tags from node.f / f.root / f.parent / f.pfield, Dict as a list of '
    '(key, value) pairs, ctx and str fields dropped, primitive values as (Python == class, exact type+repr)',
    'excluded inputs: programs with a keyword-only lambda parameter inside an f-string (C13-F8); list edits of unparenthesised '
    'tuples written with backslash continuations (C13-F7); deletions in Global / Nonlocal names lists written with a backslash '
    'continuation (C13-F10); in-tree nodes moved under nodes of other trees (C13-F5); primitive / '
    'optional-field / list edits inside nodes of other trees (C13-F2); mutation targets inside f-strings, patterns, subscript slices, decorators, Store/Del targets; Starred and '
    'Slice elements; Try orelse/finalbody emptiness; cyclic edits; nodes whose .f was copied by copy.copy',
    'docstring-position multi-line strings are compared after inspect.cleandoc (reconcile runs with docstr=True; docstring '
    'indentation is formatting); ctx fields are not compared with the edited AST (the C01 oracle checks them against the parse)',
    'untouched statement := same object at the same path with the same chain of ancestor objects, identical ids and dump of its '
    'whole subtree; compared text = first decorator .. end position plus same-line trailing comment; statements under an '
    'ancestor that the real run re-put as pure AST (documented formatting loss of the retry) are not compared; statements at or below an If '
    'that is the first statement of an If.orelse (elif spelling and its indentation) are not compared',
]
ASSUMPTIONS = [
    'wfN (hypothesis of trace_correct / untouched_kept, decidable, Pfst/Reconcile.lean): every in-tree origin names an existing '
    'path of the marked tree whose node has the same kind and field shapes (AST classes have fixed _fields), tree ids of other '
    'trees are != 0, list elements are not lists, the (key, value) pairs of a Dict have a key that is a node or None and a pair '
    'origin consistent with what recurse_slice_dict reads off values[i].f / keys[i].f (the serialiser computes it that way); '
    'evaluated by the driver per case (`wf`, tallied as theorem_hypothesis)',
    'primOK (part of wfN): Python == on the primitives compared by recurse_children coincides with identity of type and value; '
    'false in general (trace_correct_false, finding C13-F1)',
    'stillN (hypothesis of no_change / untouched_silent_full): all nodes in place, scalars == the marked ones, list fields of the '
    'marked length holding nodes only (None / str list elements are re-put on every reconcile: no_change_false, C13-F8); Dict '
    'pairs in place with key and value in place (None key over None key)',
    'keptN (hypothesis of untouched_kept): the ancestors of the untouched subtree are in place and recurse_children of none of '
    'them raises (otherwise the documented retry puts the ancestor as a pure AST and the formatting below it is lost); no Dict '
    'list on the path itself (statements are never inside a Dict)',
    'a copy of a verified node of another tree has the structure of that node (false when only primitives were changed there: '
    'finding C13-F2)',
]
LEVEL_TEXT = ('Lean 4 theorems about an executable model of the reconcile diff, proved by mutual structural induction over the '
              'nested tree type: for EVERY marked/edited pair meeting the decidable side condition wfN (any size, any '
              'mix of in-place, moved, duplicated, foreign and new nodes; slices and Dicts of any length with runs, insertions past '
              'the end and tail deletions; the except -> put_node fallback) replaying the emitted operation trace on the structure of the '
              'marked copy yields the structure of the edited tree (trace_correct); unchanged tree => empty trace (no_change); an '
              'unchanged subtree under in-place ancestors is disjoint from the region of every operation (untouched_kept); '
              'repeated rounds by induction. Outside wfN (finding F1 inputs) the conclusion is evaluated per case. The trace is compared '
              'with the real operations of reconcile() on every run.')
LEVEL_NOTE = ('The theorems are about the model and the container laws of applyOps; the tie to /repo is differential (op traces '
              'of thousands of mutation scripts per run) plus the oracle on the real result. Text-level claims (validity, '
              'comments kept) rest on the oracle sweep and on C01/C03/C07, not on a proof.')
TECHNIQUE = 'Lean 4 proof (mutual structural induction over nested trees) + model-implementation trace correspondence + oracle sweep'

SIGS = None


def _sigs():
    global SIGS
    if SIGS is None:
        SIGS = L.SigTable()
    return SIGS


def _mpath(root, path):
    """(field, idx) path -> model steps"""
    steps = []
    n = root
    for field, i in path:
        steps += L.rel_steps(type(n), field, i)
        v = getattr(n, field)
        n = v if i is None else v[i]
    return steps


def _under_elif(root, path):
    n = root
    for field, i in path:
        v = getattr(n, field, None)
        c = v if i is None else (v[i] if isinstance(v, list) and i < len(v) else None)
        if c is None:
            return False
        if isinstance(n, ast.If) and field == 'orelse' and i == 0 and isinstance(c, ast.If):
            return True
        n = c
    return False


SPECIAL = ('prim_conflate', 'foreign_prim', 'prim_ellipsis', 'prim_attr_int')


def _w_foreign_compare(a, FST):
    o = FST('w = a is not e not in f', 'exec')
    o.a.body[0].value.comparators[0] = a.body[0].value          # in-tree node under a node of another tree
    a.body.append(o.a.body[0])
    return o


def _w_move_multiline_op(a, FST):
    a.body[0].value.ops[0] = a.body[1].value.ops[0]              # in-tree operator moved out of its parentheses


def _w_swap_backslash(a, FST):
    e = a.body[0].value.elts
    e[0], e[-1] = e[-1], e[0]


def _w_nothing(a, FST):
    pass


def _w_global_backslash_del(a, FST):
    del a.body[0].names[-1]                                      # last name after a backslash continuation deleted


def _fstring_kwonly(tree):
    """a lambda with a keyword-only parameter without default inside an f-string (see C13-F8)"""
    for n in ast.walk(tree):
        if isinstance(n, ast.JoinedStr):
            for x in ast.walk(n):
                if isinstance(x, ast.arguments) and any(d is None for d in x.kw_defaults):
                    return True
    return False


# fixed scripts: minimal witnesses of findings whose shape the random generator is kept away from
WITNESS = {
    'foreign_compare_intree': ('x = yy', _w_foreign_compare, 'Compare.comparators'),
    'swap_backslash_tuple': ('x = a \\\n   , b', _w_swap_backslash, 'Tuple.elts'),
    'nochange_fstring_kwonly': ("f'{ {1: lambda *, y: 1} }'", _w_nothing, '-'),
    'move_multiline_op': ('x = a < b\ny = (a not\n  in b)', _w_move_multiline_op, 'Compare.ops'),
    'global_backslash_del': ('global g1,  \\\n  g2', _w_global_backslash_del, 'Global.names'),
}


def _run_case(arg):
    """One program, 1-3 rounds.  Returns a dict (JSON-able) with per-round model input, real trace and oracle verdicts."""
    src, seed, mode, foreign = arg
    from fst import FST
    L.RECORDER.install()
    rng = random.Random(seed)
    if mode in WITNESS:
        src = WITNESS[mode][0]
    res = {'src': src, 'seed': seed, 'mode': mode, 'rounds': []}
    try:
        f = FST(src, 'exec')
    except Exception as e:
        res['skip'] = 'parse: ' + type(e).__name__
        return res
    if L.util.tree_equals_parse(f) is not None:
        res['skip'] = 'initial tree != parse'
        return res
    if mode not in WITNESS and _fstring_kwonly(f.a):
        res['skip'] = 'keyword-only lambda inside an f-string (C13-F8)'
        return res
    if mode in WITNESS:
        src = WITNESS[mode][0]
    nrounds = 1 if mode != 'normal' else rng.choice([1, 1, 2, 3])
    for rd in range(nrounds):
        mut = L.Mutator(rng, foreign, f)
        R = {'round': rd}
        res['rounds'].append(R)
        f.mark()
        marked_src = f.src
        R['marked_src'] = marked_src
        lines_b = [l.encode() for l in f.lines]
        snaps = L.snapshot_stmts(f.a)
        for s in snaps:
            s['text'] = L.stmt_text(lines_b, s['node'])
        S = L.Ser(f, _sigs())
        try:
            mark_json = S.ser(f.a)
        except RecursionError:
            res['skip'] = 'recursion'
            return res
        muts = []
        if mode == 'normal':
            want_n = rng.choice([1, 1, 1, 2, 3])
            tries = 0
            while len(muts) < want_n and tries < 12:
                tries += 1
                try:
                    m = mut.apply(f.a)
                except RecursionError:
                    m = None
                if m:
                    muts.append(m)
        elif mode in WITNESS:
            from fst import FST as _F
            keep = WITNESS[mode][1](f.a, _F)
            muts.append((mode, WITNESS[mode][2]))
        elif mode in SPECIAL:
            for _ in range(8):
                m = mut.apply(f.a, mode)
                if m:
                    muts.append(m)
                    break
            if not muts:
                res['skip'] = 'no site'
                return res
        R['muts'] = [list(m) for m in muts]
        try:
            edited_json = S.ser(f.a)
            want = L.norm_dump(f.a)
            ast.unparse(f.a)         # CPython accepts the edited AST as a tree (type-valid)
        except (RecursionError, IndexError, ValueError) as e:
            res['skip'] = 'edited tree not serialisable: ' + type(e).__name__
            return res
        R['case'] = {'f': 'C13.reconcile', 'mark': mark_json, 'edited': edited_json}
        R['reps'] = [list(k) for k, _ in sorted(S.rep.items(), key=lambda kv: kv[1])]
        R['foreign'] = S.foreign_seen
        # untouched statements (decided on the edited AST, before reconcile)
        untouched = []
        for s in snaps:
            if _under_elif(f.a, s['path']):
                continue        # `elif` / `else: if` spelling (and the indentation below it) depends on the sibling count
            n2, chain2 = L.follow(f.a, s['path'])
            if n2 is s['node'] and chain2 == s['chain'] and [id(x) for x in ast.walk(n2)] == s['ids'] \
                    and ast.dump(n2) == s['dump']:
                untouched.append((s['path'], _mpath(f.a, s['path']), s['text']))
        R['case']['paths'] = [list(mp) for _, mp, _ in untouched][:40]
        L.RECORDER.begin()
        try:
            o = f.reconcile()
        except NotImplementedError as e:
            R['refused'] = 'NotImplementedError: ' + str(e)[:80]
            R['real'] = list(L.RECORDER.log)
            L.RECORDER.end()
            return res
        except RecursionError:
            res['skip'] = 'recursion'
            L.RECORDER.end()
            return res
        except Exception as e:
            R['raised'] = type(e).__name__ + ': ' + str(e)[:160]
            R['real'] = list(L.RECORDER.log)
            L.RECORDER.end()
            return res
        R['real'] = list(L.RECORDER.log)
        L.RECORDER.end()
        R['result_src'] = o.src
        # ---- oracle ----
        fails = []
        d = util.tree_equals_parse(o)
        if d is not None:
            cls = 'invalid-tree'
            if 'withitem(context_expr=Tuple(elts=[' in d and 'structure differs' in d and 'with (' in o.src:
                # same defect as C01-K3: `with (x,):` is read by CPython as a parenthesised with-item list, not a 1-tuple
                cls = 'invalid-tree@with-sole-1tuple'
            fails.append((cls, d))
        else:
            got = L.norm_dump(o.a)
            if got != want:
                fails.append(('structure-differs', util.first_diff(got, want).replace('live=', 'result=').replace('parsed=', 'edited=')))
            if (not muts or mode == 'nochange_fstring_kwonly') and o.src != marked_src:
                fails.append(('nochange-src-differs', util.first_diff(o.src, marked_src)))
            if not fails:
                ast_puts = [e['op'][1] for e in R['real'] if e['op'][0] == 'put' and e['op'][2] == 'ast']
                lines_o = [l.encode() for l in o.lines]
                ncmp = nex = 0
                for path, mpath, text in untouched:
                    if any(L.is_prefix(p, mpath) for p in ast_puts):
                        nex += 1
                        continue
                    n3, _ = L.follow(o.a, path)
                    if n3 is None:
                        fails.append(('untouched-missing', str(path)))
                        break
                    t3 = L.stmt_text(lines_o, n3)
                    ncmp += 1
                    if t3 != text:
                        fails.append(('untouched-text-changed', f'{type(n3).__name__} at {path}: {text!r} -> {t3!r}'))
                        break
                R['untouched_compared'] = ncmp
                R['untouched_excluded'] = nex
        R['fails'] = fails
        if fails:
            return res
        f = o
    return res


def _programs(ctx, n, stdlib):
    rng = random.Random(ctx.rng.random())
    return corpus.programs(rng, n, stdlib=stdlib)


def _has_dict(t):
    """a mode-2 list (Dict pairs) somewhere in a serialised tree"""
    stack = [t]
    while stack:
        x = stack.pop()
        if isinstance(x, list) and x:
            if x[0] == 'm' and len(x) == 4 and x[2] == 2:
                return True
            if x[0] in ('n', 'm'):
                stack.extend(x[3])
    return False


def _sig(R, cls):
    muts = R.get('muts') or []
    kinds = '+'.join(sorted(set(m[0] for m in muts))) or 'none'
    sites = '+'.join(sorted(set(m[1] for m in muts))) or '-'
    return f'C13|{kinds}|{sites}|{cls}'


def _cases(ctx, progs, nspecial, per_prog=1):
    foreign = None
    args = []
    for p in progs:
        for _ in range(per_prog):
            args.append((p, ctx.rng.randrange(1 << 30), 'normal', foreign))
    for p in progs[:nspecial]:
        args.append((p, ctx.rng.randrange(1 << 30), 'nochange', foreign))
    for p in progs[:nspecial]:
        for m in SPECIAL:
            args.append((p, ctx.rng.randrange(1 << 30), m, foreign))
    for m, (wsrc, _, _) in WITNESS.items():
        args.append((wsrc, 0, m, foreign))
    return args


def _judge(ctx, results, name='reconcile trace vs Pfst.Reconcile.reconcile', search=False):
    """model vs real trace (correspondence) and the oracle verdicts (property) for a batch of executed cases"""
    cases, owners = [], []
    for res in results:
        if 'skip' in res:
            ctx.tally('skipped', res['skip'])
            continue
        for R in res['rounds']:
            if 'case' in R:
                cases.append(R['case'])
                owners.append((res, R))
    try:
        outs = ctx.lean(cases)
    except Exception as e:
        ctx.brk('correspondence', name, f'driver error: {e}')
        outs = [None] * len(cases)
    bad = 0
    for (res, R), c, mo in zip(owners, cases, outs):
        muts = R.get('muts') or []
        for m in muts:
            ctx.tally('mutation_kind', m[0])
        if 'refused' in R:
            ctx.tally('refused', R['refused'][:60])
        key = [res['src'], res['seed'], res['mode'], R['round']]
        # ---- property oracle ----
        if 'raised' in R:
            cls = 'raised:' + R['raised'].split(':')[0]
            ctx.fail(_sig(R, cls), f'reconcile() raised {R["raised"]} after {muts}',
                     {'src': res['src'], 'seed': res['seed'], 'mode': res['mode'], 'round': R['round'], 'muts': muts})
        for cls, detail in R.get('fails', []):
            ctx.fail(_sig(R, cls), f'{cls} after {muts}: {detail[:300]}',
                     {'src': res['src'], 'seed': res['seed'], 'mode': res['mode'], 'round': R['round'], 'muts': muts,
                      'marked_src': R.get('marked_src'), 'result_src': R.get('result_src')})
        ctx.tally('untouched_statements_compared', 'n')
        ctx.dist['untouched_statements_compared']['n'] += R.get('untouched_compared', 0) - 1
        # ---- correspondence ----
        if mo is None:
            continue
        ctx.corr_cases += 1
        m = mo.get('out', mo)
        if not isinstance(m, dict) or 'ops' not in m:
            bad += 1
            if len(ctx.corr_disagreements) < 20:
                ctx.corr_disagreements.append({'corr': name, 'key': key, 'model': m})
            continue
        mops = [L.canon_model_op(op, R['reps']) for op in m['ops']]
        msrcs = [op[2] if op[1] == 'put' else None for op in m['ops']]
        real = R.get('real', [])
        ctx.count(key, bool(mops))
        if m.get('fail'):
            # the model says the exception leaves reconcile(): the real run must have refused
            st = 'equal' if 'refused' in R else 'differ'
            detail = 'model predicts an escaping NotImplementedError'
        elif 'refused' in R or 'raised' in R:
            st, detail = 'real-raised', None
        else:
            st, detail = L.compare_traces(mops, real, msrcs)
        ctx.tally('trace_status', st)
        if st == 'fallback':
            ctx.tally('fallback_retries', detail)
            for e in real:
                if 'raised' in e:
                    ctx.tally('real_op_raised', e['raised'].split(':')[0])
        # ---- hypotheses of the full theorems, evaluated on the real case (how much of the run the theorems cover) ----
        wf = m.get('wf')
        ctx.tally('theorem_hypothesis', 'trace_correct: wfN ' + ('holds' if wf else 'fails (mode ' + res['mode'] + (', Dict present' if _has_dict(c['edited']) else '') + ')'))
        if wf and not m.get('fail') and not m.get('res_ok', True):
            ctx.brk('proof', 'Pfst.C13.trace_correct', f'driver: wfN holds, no failure, but applyOps trace != erase edited on {key}')
        if not muts:
            ctx.tally('theorem_hypothesis', 'no_change: stillN ' + ('holds' if m.get('still') else 'fails'))
        if m.get('still') and m['ops']:
            ctx.brk('proof', 'Pfst.C13.no_change', f'driver: stillN holds but the trace is not empty on {key}')
        for kp, tc in zip(m.get('kept', []), m.get('touched', [])):
            ctx.tally('theorem_hypothesis', 'untouched_kept: keptN ' + ('holds' if kp else 'fails') + ' on an untouched statement')
            if kp and wf and tc:
                ctx.brk('proof', 'Pfst.C13.untouched_kept', f'driver: keptN and wfN hold but an operation touches the path on {key}')
        if not m.get('res_ok', True) and not m.get('fail'):
            ctx.tally('model_result_ne_edited', res['mode'])
            if res['mode'] != 'prim_conflate':
                st = 'differ'
                detail = 'model: applyOps trace (erase mark) != erase edited (WF / PrimExact hypothesis false on this input)'
        if st == 'differ':
            bad += 1
            if len(ctx.corr_disagreements) < 20:
                ctx.corr_disagreements.append({'corr': name, 'src': res['src'], 'seed': res['seed'], 'mode': res['mode'],
                                               'round': R['round'], 'muts': muts, 'detail': detail,
                                               'model_ops': mops[:12], 'real_ops': [e for e in real][:12]})
            ctx.hints.append((res['src'], res['seed'], res['mode']))
    ctx.tally('correspondence_cases', name)
    ctx.dist['correspondence_cases'][name] = ctx.dist['correspondence_cases'].get(name, 1) - 1 + len(cases)
    if owners:
        res, R = owners[0]
        ctx.sample({'src': res['src'][:200], 'muts': R.get('muts'), 'real_ops': [e['op'] for e in R.get('real', [])][:6]})
    if bad:
        ctx.brk('correspondence', name, f'{bad}/{len(cases)} cases differ; first: ' + str(ctx.corr_disagreements[0])[:1500])


def correspondence(ctx):
    """runs in sweep() (same executions serve the trace comparison and the oracle)"""
    ctx.notes['sig_table'] = {str(k[0].__name__) + '.' + k[1]: v for k, v in _sigs().table.items()}


def sweep(ctx):
    q = ctx.quick
    progs = _programs(ctx, 420 if q else 3000, 20 if q else 200)
    args = _cases(ctx, progs, 120 if q else 600, per_prog=2 if q else 4)
    results = pmap(_run_case, args)
    _judge(ctx, results)
    ctx.notes['cases'] = len(args)


def search(ctx):
    progs = _programs(ctx, 2500, 100)
    hint_args = [(s, sd, m, None) for (s, sd, m) in ctx.hints[:50] if isinstance(s, str)]
    args = hint_args + _cases(ctx, progs, 300, per_prog=3)
    results = pmap(_run_case, args)
    n = 0
    for res in results:
        for R in res.get('rounds', []):
            n += 1
            muts = R.get('muts') or []
            if 'raised' in R:
                ctx.fail(_sig(R, 'raised:' + R['raised'].split(':')[0]), f'reconcile() raised {R["raised"]} after {muts}',
                         {'src': res['src'], 'seed': res['seed'], 'mode': res['mode'], 'round': R['round'], 'muts': muts})
            for cls, detail in R.get('fails', []):
                ctx.fail(_sig(R, cls), f'{cls} after {muts}: {detail[:300]}',
                         {'src': res['src'], 'seed': res['seed'], 'mode': res['mode'], 'round': R['round'], 'muts': muts,
                          'marked_src': R.get('marked_src'), 'result_src': R.get('result_src')})
    ctx.notes['search_rounds'] = n


def replay(ctx, data):
    w = data.get('witness')
    if not w:
        print('replay file names a broken obligation, not an input:', [b for b in data.get('broken', [])][:3])
        return
    res = _run_case((w['src'], w['seed'], w.get('mode', 'normal'), None))
    for R in res.get('rounds', []):
        if 'raised' in R:
            ctx.fail('replay', 'raised ' + R['raised'], w)
        for cls, detail in R.get('fails', []):
            ctx.fail('replay', f'{cls}: {detail}', w)
