"""C13 — reconcile() returns a valid tree that equals the externally edited AST."""

import ast
import hashlib
import json
import random

import corpus
import util
import c13_lib as L

ID = 'C13'
LEAN_MODULES = ['Pfst.Props.C13', 'Pfst.Props.C13Options', 'Pfst.Props.C13Fallback', 'Pfst.Props.C13Params',
                'Pfst.Props.C13Foreign', 'Pfst.Props.C13Prims']
LEAN_DEPS = ['Pfst.Reconcile', 'Pfst.ReconcileLemmas']
THEOREMS = [
    'Pfst.C13.frame', 'Pfst.C13.fallback_overrides', 'Pfst.C13.foreign_ok_correct', 'Pfst.C13.fields_scalar_correct',
    'Pfst.C13.trace_correct_partial', 'Pfst.C13.pyNe_exact', 'Pfst.C13.conflation_seen', 'Pfst.C13.untouched_silent',
    'Pfst.C13.no_change_scalar_elems', 'Pfst.C13.rounds',
    # full statements (mutual structural induction, Pfst/ReconcileCorrect.lean, ReconcileQuiet.lean, ReconcileKept.lean)
    'Pfst.C13.node_correct', 'Pfst.C13.intree_never_fails', 'Pfst.C13.children_correct', 'Pfst.C13.slice_correct',
    'Pfst.C13.slice_correct_ast', 'Pfst.C13.dict_correct', 'Pfst.C13.trace_correct', 'Pfst.C13.rounds_correct', 'Pfst.C13.untouched_silent_full',
    'Pfst.C13.no_change', 'Pfst.C13.no_change_ops', 'Pfst.C13.untouched_kept',
    # the pinned option set of FST.reconcile (tables regenerated each run: Pfst/Gen/ReconcileOptions.lean)
    'Pfst.C13.refused_pinned', 'Pfst.C13.pinned_refused', 'Pfst.C13.pinned_global', 'Pfst.C13.read_controlled',
    # the retry-at-parent fallback over the refusal alphabet (Pfst/Gen/ReconcileCatch.lean)
    'Pfst.C13.battery_caught', 'Pfst.C13.battery_retried', 'Pfst.C13.fallback_total', 'Pfst.C13.fallback_kind_independent',
    'Pfst.C13.recNode_is_fallbackStep',
    # the parameter defaults of Reconcile.__init__ (Pfst/Gen/ReconcileParams.lean)
    'Pfst.C13.foreign_run_needs_verified', 'Pfst.C13.foreign_run_unverified_falls_back', 'Pfst.C13.foreign_unverified_is_ast_put',
    'Pfst.C13.prims_battery_complete', 'Pfst.C13.verify_compares_exactly', 'Pfst.C13.reconcile_compares_exactly',
    'Pfst.C13.comparison_sites_agree',
    'Pfst.C13.params_lattice_complete', 'Pfst.C13.omitted_gets_default', 'Pfst.C13.given_is_kept', 'Pfst.C13.param_independent',
]
RULE = ('corpus programs (snippets covering every node type, generated programs, layout / comment / parenthesis variants, '
        'stdlib chunks) are parsed to an FST, marked, and edited by 1-3 pure-AST mutations per round for 1-3 mark/reconcile '
        'rounds: replace an expression by a new AST / an in-tree node (move, duplicate) / a node of another FST tree (intact or '
        'modified) / a new parent wrapping the old node; insert, delete, swap, reverse, move, duplicate statements and list, '
        'tuple, set, dict, call-argument, BoolOp elements (new, in-tree, foreign; across containers); tail deletions; '
        'primitive changes (identifiers, constants, attribute / def / arg names, operators); optional fields set / unset; '
        'Global names. Every case is run through the Lean model (op trace) and the real reconcile() with put / put_slice / '
        'replace / put_src wrapped at run time; traces are compared op for op (a real op that raised followed by the '
        'documented pure-AST retry at an ancestor covers the model ops below it and is counted as fallback). The same runs '
        'are judged by the oracle: result == ast.parse(result.src) with positions; ast.dump equality with the edited AST; '
        'unchanged tree => identical source; untouched statements keep their text and trailing comment; ANY exception leaving '
        'reconcile() on an edited AST that ast.unparse accepts is a failure (raised:<Type>). The edit kinds include scalar edits whose '
        'direct put is refused (ImportFrom module/level, keyword.arg <-> None, Starred <-> plain Call argument, alias.asname, '
        'ExceptHandler.name), which force the retry-at-parent fallback. '
        'FOREIGN-RUN FAMILY (every run): runs (length 1-3, start / middle / end) of nodes of ANOTHER marked tree whose list the user '
        'reversed / shortened / lengthened / rotated there (pure AST) before splicing them into statement bodies, List / Tuple / Set '
        'elts, Dict pairs (slice-capable) and Call args, decorators, MatchSequence patterns (one by one): 405 scripts. '
        'ARGUMENT-LAYOUT FAMILY (every run): every valid source order (length <= 4) of positional / *starred / keyword / **mapping '
        'items of a Call and of a ClassDef x (keyword -> **, ** -> keyword, *x -> x, x -> *x). IDENTIFIER FAMILY (every run): 30 '
        'identifier-bearing constructs (handler names, aliases, attributes, keywords, args, def / class names, targets, match '
        'captures, global / nonlocal names, type variables) whose OLD identifier is a piece of the keywords / text around it '
        '(`except OSError as s`), renamed. '
        'CONSTANT-KIND FAMILY (every run): a Constant changed to another kind of literal (int, float, str, bytes, None, True, big int) in 13 contexts (attribute object, subscript, ** operands, unary, call, ...) x Constant parenthesised or not x '
        'enclosing expression parenthesised or not. '
        'NON-MODULE ROOTS (every run): statement and expression roots with comments / lines around the node, unchanged / renamed / '
        'child replaced / second round; judged by CPython parse of the result, tokenize comments, identical source when unchanged. '
        'OPTIONAL-FIELD FAMILY (every run): 46 scripts adding / removing an optional field (MatchMapping.rest, handler name, MatchAs / '
        'MatchStar name, asname, cause, msg, return / yield / AnnAssign value, returns, annotation, optional_vars, Slice parts, '
        'ImportFrom.module, vararg / kwarg, TypeVar bound) next to parenthesised or spaced neighbours. '
        'FOREIGN-PRIMITIVE FAMILY (every run): primitives edited in ANOTHER tree (1 -> True, 0 -> False / 0.0, 30 -> 30.0, True -> 1, '
        'renames, string changes; links stay intact) before a statement, a run of statements, a value expression or container '
        'elements of it are mixed in: 46 scripts; plus the random `foreign_conflate` mode. The two primitive comparison sites '
        '(compare_asts used by verify() of copies, recurse_children) are evaluated on a 13 x 13 value battery into '
        'Pfst/Gen/ReconcilePrims.lean. '
        'DICT FAMILY (every run): fixed Dicts and a MatchMapping whose keys and values / patterns are edited INDEPENDENTLY (swap or '
        'rotate values only, keys only, key of one entry with the value of another from the same Dict, from a second in-tree Dict, from a '
        'Dict of another tree, with ** entries). PARAMETERS: a slice of the scripts is re-run with every combination of reconcile()\'s '
        'own keyword parameters omitted / None / given their documented default (26 calls): the returned source must be the bare '
        'call\'s; Reconcile.__init__ is evaluated on the whole presence lattice into Pfst/Gen/ReconcileParams.lean. '
        'CALLER OPTIONS: a slice of the same scripts is re-run inside `with FST.options(...)` (parse, mark, edits, reconcile) for every '
        'global option of FST.get_options() at each non-default value, one at a time, plus random combinations; the oracle must give '
        'the same verdicts, and for options reconcile() refuses as keywords ("managed during the process") the returned source must '
        'be identical to the default-environment run. The option tables of FST.reconcile (pinned by its FST.options block, refused as '
        'keywords, read from the thread default during the replay) are extracted at run time into Pfst/Gen/ReconcileOptions.lean. '
        'distinct = distinct (program, mutation script, caller options); non-trivial = the trace is not empty')
TRUSTED = [
    'modelled (Pfst/Reconcile.lean): Reconcile.recurse_node (in-tree in place / off path / other tree verified / other tree '
    'unverified / pure AST; unchanged None / identifier list elements left alone (repair of F8); the except -> put_node retry), '
    'recurse_children (ctx/str skipped, scalar comparison by value AND type (repair of F1), the slice '
    'field name list, Dict -> recurse_slice_dict, different-length NotImplementedError), recurse_slice and recurse_slice_dict '
    '(first-element condition, contiguous-run detection, other-tree verification of the run, insertion past the end, tail '
    'deletion), put_node, _SLICE_COMAPTIBILITY (read from the imported module on every run)',
    'not modelled: what put / put_slice / replace / copy / get_slice do to the source text (C03-C08); their failures are '
    'observed as raised ops and accepted only in the shape of the documented retry at the parent; verify(reparse=False) is '
    're-implemented in the harness (link check) and, for the reparse of the copy added by the repair of F2, by a comparison with '
    'CPython\'s parse of the other tree\'s source; the verdict is an input of the model',
    'the serialiser (harness/c13_lib.py Ser): origin tags from node.f / f.root / f.parent / f.pfield, Dict as a list of '
    '(key, value) pairs, ctx and str fields dropped, primitive values as (Python == class, exact type+repr)',
    'excluded inputs: list edits of unparenthesised '
    'tuples written with backslash continuations (C13-F7); deletions in Global / Nonlocal names lists written with a backslash '
    'continuation (C13-F10); in-tree nodes moved under nodes of other trees (C13-F5); primitive / '
    'optional-field / list edits inside nodes of other trees (C13-F2); mutation targets inside f-strings, patterns, subscript slices, decorators, Store/Del targets; Starred and '
    'Slice elements; Try orelse/finalbody emptiness; cyclic edits; nodes whose .f was copied by copy.copy',
    'docstring-position multi-line strings are compared after inspect.cleandoc (reconcile runs with docstr=True; docstring '
    'indentation is formatting); ctx fields are not compared with the edited AST (the C01 oracle checks them against the parse)',
    'untouched statement := same object at the same path with the same chain of ancestor objects, identical ids and dump of its '
    'whole subtree; compared text = first decorator .. end position plus same-line trailing comment; statements under an '
    'ancestor that the real run re-put as pure AST (documented formatting loss of the retry) are not compared; statements at or below an If '
    'that is the first statement of an If.orelse (elif spelling and its indentation) are not compared',
]
ASSUMPTIONS = [
    'caller-controllable options (accepted by reconcile() as keywords: promote, elif_, pep8space, set_norm, op_side, op, args_as) may '
    'change the returned source; under them only validity and structural equality are required',
    'readDefault (Pfst/Gen/ReconcileOptions.lean) is what a fixed mini sweep of mark/reconcile rounds reads from the thread default; '
    'the environment sweep is the behavioural check for anything it does not reach',
    'wfN (hypothesis of trace_correct / untouched_kept, decidable, Pfst/Reconcile.lean): every in-tree origin names an existing '
    'path of the marked tree whose node has the same kind and field shapes (AST classes have fixed _fields), tree ids of other '
    'trees are != 0, list elements are not lists, the (key, value) pairs of a Dict have a key that is a node or None and a pair '
    'origin consistent with what recurse_slice_dict reads off values[i].f / keys[i].f (the serialiser computes it that way); '
    'evaluated by the driver per case (`wf`, tallied as theorem_hypothesis)',
    'no hypothesis about primitive values is left in wfN: since the repair of C13-F1 recurse_children compares value AND type, the '
    'model compares the whole (== class, type+repr) pair (pyNe_exact); the serialiser identifies nothing but signed zeros '
    '(0.0 / -0.0 are == and of one type; Constant(-0.0) has no source form and is not generated)',
    'stillN (hypothesis of no_change / untouched_silent_full): all nodes in place, scalars (fields and None / str list elements: '
    'Global.names, kw_defaults) the marked ones, list fields of the marked length; Dict pairs in place with key and value in '
    'place (None key over None key); since the repair of C13-F8 it holds on every unedited tree of the sweep (cross-checked)',
    'keptN (hypothesis of untouched_kept): the ancestors of the untouched subtree are in place and recurse_children of none of '
    'them raises (otherwise the documented retry puts the ancestor as a pure AST and the formatting below it is lost); no Dict '
    'list on the path itself (statements are never inside a Dict)',
    'a copy of a verified node of another tree has the structure of that node: since the repair of C13-F2 the copy is reparsed '
    '(copy().verify()); the harness decides the `ok` flag of the model by the link check AND by comparing the subtree with '
    'CPython\'s parse of the other tree\'s source at the same path (c13_lib.same_as_source)',
]
LEVEL_TEXT = ('Lean 4 theorems about an executable model of the reconcile diff, proved by mutual structural induction over the '
              'nested tree type: for EVERY marked/edited pair meeting the decidable side condition wfN (any size, any '
              'mix of in-place, moved, duplicated, foreign and new nodes; slices and Dicts of any length with runs, insertions past '
              'the end and tail deletions; the except -> put_node fallback) replaying the emitted operation trace on the structure of the '
              'marked copy yields the structure of the edited tree (trace_correct); unchanged tree => empty trace (no_change); an '
              'unchanged subtree under in-place ancestors is disjoint from the region of every operation (untouched_kept); '
              'repeated rounds by induction. Outside wfN (finding F1 inputs) the conclusion is evaluated per case. The trace is compared '
              'with the real operations of reconcile() on every run.')
LEVEL_NOTE = ('The theorems are about the model and the container laws of applyOps; the tie to /repo is differential (op traces '
              'of thousands of mutation scripts per run) plus the oracle on the real result. Text-level claims (validity, '
              'comments kept) rest on the oracle sweep and on C01/C03/C07, not on a proof.')
TECHNIQUE = 'Lean 4 proof (mutual structural induction over nested trees) + model-implementation trace correspondence + oracle sweep'

SIGS = None


def _sigs():
    global SIGS
    if SIGS is None:
        SIGS = L.SigTable()
    return SIGS


def _mpath(root, path):
    """(field, idx) path -> model steps"""
    steps = []
    n = root
    for field, i in path:
        steps += L.rel_steps(type(n), field, i)
        v = getattr(n, field)
        n = v if i is None else v[i]
    return steps


def _under_elif(root, path):
    n = root
    for field, i in path:
        v = getattr(n, field, None)
        c = v if i is None else (v[i] if isinstance(v, list) and i < len(v) else None)
        if c is None:
            return False
        if isinstance(n, ast.If) and field == 'orelse' and i == 0 and isinstance(c, ast.If):
            return True
        n = c
    return False


SPECIAL = ('prim_conflate', 'foreign_prim', 'foreign_conflate', 'prim_ellipsis', 'prim_attr_int')


def _w_foreign_compare(a, FST):
    o = FST('w = a is not e not in f', 'exec')
    o.a.body[0].value.comparators[0] = a.body[0].value          # in-tree node under a node of another tree
    a.body.append(o.a.body[0])
    return o


def _w_move_multiline_op(a, FST):
    a.body[0].value.ops[0] = a.body[1].value.ops[0]              # in-tree operator moved out of its parentheses


def _w_swap_backslash(a, FST):
    e = a.body[0].value.elts
    e[0], e[-1] = e[-1], e[0]


def _w_nothing(a, FST):
    pass


def _w_global_backslash_del(a, FST):
    del a.body[0].names[-1]                                      # last name after a backslash continuation deleted


# ---- deterministic Dict / MatchMapping family: keys and values edited INDEPENDENTLY (every run, both tiers) ----------------------

DICT_SRCS = [
    'd = {x + 1: p, y - 2: q}',
    "d = {a: 1, 'b': 2}",
    "d = {a: 1, **r, 'k': [2], **s, c.d: f(3)}",
    "d = {\n    a: 1,  # one\n    'b': 2,  # two\n    (c): 3,\n}",
]


def _dict_ops():
    def swap(lst, i, j):
        lst[i], lst[j] = lst[j], lst[i]

    def D(a):
        return a.body[0].value

    ops = {}
    ops['swapvals01'] = lambda a, FST: swap(D(a).values, 0, 1)
    ops['swapvals0n'] = lambda a, FST: swap(D(a).values, 0, len(D(a).values) - 1)
    ops['swapkeys01'] = lambda a, FST: swap(D(a).keys, 0, 1)
    ops['swapkeys0n'] = lambda a, FST: swap(D(a).keys, 0, len(D(a).keys) - 1)
    ops['rotvals'] = lambda a, FST: D(a).values.append(D(a).values.pop(0))
    ops['rotkeys'] = lambda a, FST: D(a).keys.append(D(a).keys.pop(0))

    def cross_same(a, FST):                       # the key of entry 1 with the value of entry 0, appended (nodes reused)
        d = D(a)
        d.keys.append(d.keys[1])
        d.values.append(d.values[0])

    def cross_other(a, FST, k=1, v=0):            # same, taken from a Dict of another FST tree
        o = FST("e = {u: 0, w: 1, **t, 'z': 2}", 'exec')
        od = o.a.body[0].value
        D(a).keys.append(od.keys[k])
        D(a).values.append(od.values[v])
        return o

    def pair_other(a, FST):                       # control: two intact entries of the other tree
        o = FST("e = {u: 0, w: 1, **t, 'z': 2}", 'exec')
        od = o.a.body[0].value
        D(a).keys.extend(od.keys[1:3])
        D(a).values.extend(od.values[1:3])
        return o

    ops['cross_same'] = cross_same
    ops['cross_other'] = cross_other
    ops['cross_other_star'] = lambda a, FST: cross_other(a, FST, 2, 0)      # `**` key of entry 2 with the value of entry 0
    ops['cross_other_unstar'] = lambda a, FST: cross_other(a, FST, 0, 2)    # key of entry 0 with the value of the `**` entry
    ops['pair_other'] = pair_other
    return ops


def _w_cross_second_dict(a, FST):
    d, e = a.body[0].value, a.body[1].value
    e.keys.append(d.keys[1])
    e.values.append(d.values[0])


def _mm(a):
    return a.body[0].cases[0].pattern


# ---- deterministic family: runs of nodes of ANOTHER marked tree whose list the user edited there before splicing --------------

FOREIGN_KINDS = {
    # kind: (marked source, other tree's source, accessor of the (list of) lists in a Module AST)
    'stmts': ('a = 1  # one\nb = 2\n', 's0 = 0  # c0\ns1 = 1\ns2 = 2  # c2\ns3 = 3\ns4 = 4  # c4\n', lambda m: [m.body]),
    'fbody': ('def f():\n    a = 1  # one\n    b = 2\n', 'def g():\n    s0 = 0  # c0\n    s1 = 1\n    s2 = 2\n    s3 = 3  # c3\n    s4 = 4\n',
              lambda m: [m.body[0].body]),
    'list': ('x = [0, 1]', 'y = [10,  11, 12 ,  13, 14]', lambda m: [m.body[0].value.elts]),
    'tuple': ('x = (0, 1)', 'y = (20, 21,  22, 23 , 24)', lambda m: [m.body[0].value.elts]),
    'set': ('x = {0, 1}', 'y = {30,  31, 32, 33 , 34}', lambda m: [m.body[0].value.elts]),
    'dict': ('x = {p: 0, q: 1}', 'y = {k0: v0, k1:  v1, k2: v2 , k3: v3, k4: v4}',
             lambda m: [m.body[0].value.keys, m.body[0].value.values]),
    'args': ('x = f(0, 1, 2)', 'y = g(40, 41, 42, 43, 44)', lambda m: [m.body[0].value.args]),            # plain list: replaced in place
    'decos': ('@d0\n@d1\n@d2\ndef f(): pass', '@e0\n@e1\n@e2\n@e3\n@e4\ndef g(): pass', lambda m: [m.body[0].decorator_list]),
    'mseq': ('match m:\n    case [0, 1, 2]:\n        pass', 'match n:\n    case [50, 51, 52, 53, 54]:\n        pass',
             lambda m: [m.body[0].cases[0].pattern.patterns]),
}
FOREIGN_INPLACE = ('args', 'decos', 'mseq')      # lists reconcile handles one by one (same length required): elements are replaced


def _foreign_edits():
    def new_like(x):
        if isinstance(x, ast.stmt):
            return ast.Assign([ast.Name('fresh', ast.Store())], ast.Constant(99), lineno=1)
        if isinstance(x, ast.pattern):
            return ast.MatchValue(ast.Constant(99))
        return ast.Name('fresh', ast.Load())

    return {
        'reverse': lambda l: l.reverse(),
        'delfirst': lambda l: l.__delitem__(0),
        'insfront': lambda l: l.insert(0, new_like(l[0])),
        'rotate': lambda l: l.append(l.pop(0)),
        'swapends': lambda l: l.__setitem__(slice(None), [l[-1]] + l[1:-1] + [l[0]]),
    }


def _foreign_case(kind, edit, n, pos):
    msrc, osrc, acc = FOREIGN_KINDS[kind]

    def fn(a, FST):
        o = FST(osrc, 'exec')
        olists = acc(o.a)
        for l in olists:
            _foreign_edits()[edit](l)              # the user edits the OTHER tree's list (pure AST) ...
        ln = len(olists[0])
        i = 0 if pos == 'start' else ln - n if pos == 'end' else max(0, (ln - n) // 2)
        runs = [l[i:i + n] for l in olists]        # ... and takes a run of it
        if any(x is None or not hasattr(x, 'f') for r in runs for x in r):
            runs = [[x for x in r] for r in runs]
        tl = acc(a)
        if kind in FOREIGN_INPLACE:
            for l, r in zip(tl, runs):
                l[0:len(r)] = r[:len(l)]
        else:
            at = 1 if pos != 'end' else len(tl[0])
            for l, r in zip(tl, runs):
                l[at:at] = r
        return o

    return (msrc, fn, {'stmts': 'Module.body', 'fbody': 'FunctionDef.body', 'list': 'List.elts', 'tuple': 'Tuple.elts', 'set': 'Set.elts',
                       'dict': 'Dict.dict', 'args': 'Call.args', 'decos': 'FunctionDef.decorator_list', 'mseq': 'MatchSequence.patterns'}[kind])


# ---- deterministic family: primitives edited in ANOTHER tree (also to == values of another type) before its nodes are mixed in ---

FPRIM_OTHER = ('def defaults():\n    retries = 1  # max retries\n    timeout = [0, 30]  # seconds\n    return retries, timeout\n'
               'flag = 1  # f\nzero = 0\nd = {1: 0, \'k\': 30}  # d\non = True\nlst = [0,  1, 2 ,  3]  # l\nr = g(x)  # call\n')


def _fprim_edits():
    """name -> (index of the statement of the other tree that holds the edit, edit of the other tree's AST)"""
    def const(n):
        return [x for x in ast.walk(n) if isinstance(x, ast.Constant)]

    def setc(stmt, k, v):
        const(stmt)[k].value = v

    E = {}
    E['int1_to_True'] = (1, lambda m: setc(m.body[1], 0, True))
    E['int0_to_False'] = (2, lambda m: setc(m.body[2], 0, False))
    E['int0_to_float'] = (2, lambda m: setc(m.body[2], 0, 0.0))
    E['True_to_int'] = (4, lambda m: setc(m.body[4], 0, 1))
    E['in_def_1_to_True'] = (0, lambda m: setc(m.body[0].body[0], 0, True))
    E['in_def_30_to_float'] = (0, lambda m: setc(m.body[0].body[1], 1, 30.0))
    E['dict_key_1_to_True'] = (3, lambda m: setc(m.body[3], 0, True))
    E['dict_val_30_to_float'] = (3, lambda m: setc(m.body[3], 3, 30.0))
    E['list_elt_1_to_True'] = (5, lambda m: setc(m.body[5], 1, True))
    E['int1_to_2'] = (1, lambda m: setc(m.body[1], 0, 2))
    E['str_changed'] = (3, lambda m: setc(m.body[3], 2, 'K'))
    E['name_renamed'] = (6, lambda m: setattr(m.body[6].value.args[0], 'id', 'x_changed'))
    E['target_renamed'] = (1, lambda m: setattr(m.body[1].targets[0], 'id', 'flag_changed'))
    E['func_renamed'] = (0, lambda m: setattr(m.body[0], 'name', 'defaults_changed'))
    return E


def _fprim_case(edit, splice):
    idx, fn_edit = _fprim_edits()[edit]

    def fn(a, FST):
        o = FST(FPRIM_OTHER, 'exec')
        fn_edit(o.a)                                   # the OTHER tree's AST is edited (primitives only: links stay intact)
        ob = o.a.body
        if splice == 'stmt':                           # the statement alone (a slice run of one)
            a.body.insert(1, ob[idx])
        elif splice == 'run':                          # a run of statements around it
            lo = max(0, idx - 1)
            a.body[1:1] = ob[lo:lo + 3]
        elif splice == 'value':                        # its value expression as a single node
            n = ob[idx]
            a.body[0].value = n.value if hasattr(n, 'value') else n.body[0].value
        elif splice == 'elts':                         # elements / pairs of its container value
            v = ob[idx].value
            if isinstance(v, ast.Dict):
                a.body[2].value.keys.extend(v.keys)
                a.body[2].value.values.extend(v.values)
            else:
                a.body[1].value.elts.extend(v.elts)
        return o

    return ('x = 0  # first\ny = [9]\nz = {8: 7}\nw = 5  # last\n', fn,
            {'stmt': 'Module.body', 'run': 'Module.body', 'value': 'Assign.value', 'elts': 'List.elts'}[splice])


# ---- deterministic family: identifier fields whose OLD text also occurs in the keywords / text around them -------------------

IDENT_TEMPLATES = [
    # (name, source with {N}, AST class, field, None | index in a list field)
    ('handler_name', 'try:\n    pass\nexcept OSError as {N}:\n    pass', ast.ExceptHandler, 'name'),
    ('handler_name_wide', 'try:\n    pass\nexcept  OSError   as   {N} :\n    pass', ast.ExceptHandler, 'name'),
    ('handler_name_tight', 'try:\n    pass\nexcept(OSError)as {N}:\n    pass', ast.ExceptHandler, 'name'),
    ('handlerstar_name', 'try:\n    pass\nexcept* OSError as {N}:\n    pass', ast.ExceptHandler, 'name'),
    ('alias_asname', 'import mmm as {N}', ast.alias, 'asname'),
    ('alias_name', 'import {N} as mmm', ast.alias, 'name'),
    ('alias_from_asname', 'from mmm import nnn as {N}', ast.alias, 'asname'),
    ('alias_from_name', 'from mmm import {N} as nnn', ast.alias, 'name'),
    ('importfrom_module', 'from {N} import nnn', ast.ImportFrom, 'module'),
    ('attribute_attr', 'qqq.{N} = 1', ast.Attribute, 'attr'),
    ('attribute_attr_wide', 'qqq . {N} . zzz', ast.Attribute, 'attr'),
    ('keyword_arg', 'fff(qqq, {N}=1)', ast.keyword, 'arg'),
    ('keyword_arg_class', 'class CCC(QQQ, {N}=1): pass', ast.keyword, 'arg'),
    ('arg_arg', 'def fff(ddd, {N}): pass', ast.arg, 'arg'),
    ('arg_kwonly', 'def fff(*, {N}=1): pass', ast.arg, 'arg'),
    ('arg_vararg', 'def fff(*{N}, **kkk): pass', ast.arg, 'arg'),
    ('arg_lambda', 'lll = lambda mmm, {N}: 0', ast.arg, 'arg'),
    ('funcdef_name', 'def {N}(): pass', ast.FunctionDef, 'name'),
    ('asyncdef_name', 'async def {N}(): pass', ast.AsyncFunctionDef, 'name'),
    ('classdef_name', 'class {N}: pass', ast.ClassDef, 'name'),
    ('with_target', 'with www as {N}: pass', ast.Name, 'id'),
    ('for_target', 'for {N} in fff: pass', ast.Name, 'id'),
    ('comp_target', 'rrr = [0 for {N} in fff if iii]', ast.Name, 'id'),
    ('named_target', 'if ({N} := fff): pass', ast.Name, 'id'),
    ('matchas_name', 'match mmm:\n    case CCC() as {N}: pass', ast.MatchAs, 'name'),
    ('matchstar_name', 'match mmm:\n    case [ccc, *{N}]: pass', ast.MatchStar, 'name'),
    ('matchmapping_rest', 'match mmm:\n    case {{"k": vvv, **{N}}}: pass', ast.MatchMapping, 'rest'),
    ('global_name', 'def ggg():\n    global lll, {N}', ast.Global, 'names'),
    ('nonlocal_name', 'def ooo():\n    {N} = 0\n    def iii():\n        nonlocal {N}', ast.Nonlocal, 'names'),
    ('typevar_name', 'def fff[TTT, {N}](): pass', ast.TypeVar, 'name'),
]


def _ident_names(template):
    """identifiers that are substrings of the fixed text around the placeholder: every letter, and the 2-3 letter pieces of its
    keywords (`as` is a keyword, `a` and `s` are not; `ex`, `exc`, `imp`, ...)"""
    import keyword
    fixed = template.replace('{N}', ' ')
    words = set(w for w in __import__('re').findall(r'[A-Za-z_]+', fixed))
    kw = sorted(w for w in words if keyword.iskeyword(w) or keyword.issoftkeyword(w))      # pieces of the keywords first
    rest = sorted(w for w in words if w not in kw)
    out = []
    for k in (1, 2, 3):
        for w in kw + rest:
            for i in range(len(w) - k + 1):
                c = w[i:i + k]
                if c.isidentifier() and not keyword.iskeyword(c) and c not in ('_', 'match', 'case', 'type') and c not in words:
                    out.append(c)
    seen = []
    for c in out:
        if c not in seen:
            seen.append(c)
    return seen[:16]


def _ident_case(tname, template, cls, field, old):
    src = template.replace('{N}', old)

    def fn(a, FST):
        for n in ast.walk(a):
            if type(n) is cls:
                v = getattr(n, field, None)
                if v == old:
                    setattr(n, field, 'renamed')
                    return
                if isinstance(v, list) and old in v:
                    v[v.index(old)] = 'renamed'
                    return
        raise RuntimeError('no site')

    return (src, fn, f'{cls.__name__}.{field}')


# ---- deterministic family: every source order of positional / starred / keyword / ** items of a Call and of a ClassDef -----------

def _arg_layouts(maxlen=4):
    """valid item sequences: p (positional), s (*starred), k (keyword), d (**mapping).  Rules of the grammar: no p after k or d,
    no s after d."""
    out = []

    def go(seq):
        if seq:
            out.append(seq)
        if len(seq) == maxlen:
            return
        for c in 'pskd':
            if c == 'p' and ('k' in seq or 'd' in seq):
                continue
            if c == 's' and 'd' in seq:
                continue
            go(seq + c)

    go('')
    return out


def _layout_src(seq, cls):
    items = []
    n = {'p': 0, 's': 0, 'k': 0, 'd': 0}
    for c in seq:
        i = n[c]
        n[c] += 1
        items.append({'p': f'pos{i}', 's': f'*star{i}', 'k': f'key{i}=val{i}', 'd': f'**map{i}'}[c])
    body = ', '.join(items)
    return f'class CCC({body}):\n    pass  # c\n' if cls else f'rrr = fff({body})  # c\n'


def _layout_case(seq, cls, edit, j):
    src = _layout_src(seq, cls)

    def fn(a, FST):
        n = a.body[0] if cls else a.body[0].value
        args = n.bases if cls else n.args
        kws = n.keywords
        if edit == 'kw_none':          # k=v -> **v
            [k for k in kws if k.arg is not None][j].arg = None
        elif edit == 'kw_name':        # **m -> name=m
            [k for k in kws if k.arg is None][j].arg = 'newkey'
        elif edit == 'unstar':         # *s -> s
            i = [i for i, x in enumerate(args) if isinstance(x, ast.Starred)][j]
            args[i] = args[i].value
        elif edit == 'star':           # p -> *p
            i = [i for i, x in enumerate(args) if not isinstance(x, ast.Starred)][j]
            args[i] = ast.Starred(args[i], ast.Load())

    return (src, fn, ('ClassDef' if cls else 'Call') + {'kw_none': '.keywords', 'kw_name': '.keywords', 'unstar': '.args', 'star': '.args'}[edit])


# ---- deterministic family: optional fields added / removed next to parenthesised (or spaced) neighbours ------------------------

def _N(i, ctx=None):
    return ast.Name(i, ctx or ast.Load())


OPT_TEMPLATES = [
    # (name, source, AST class, field, new value factory | None to delete)
    ('mm_rest_set_par', 'match m:\n    case {"k": (1 | 2)}: pass', ast.MatchMapping, 'rest', lambda: 'rrr'),
    ('mm_rest_set_par2', 'match m:\n    case {"k": (x), 3: ((y))}: pass', ast.MatchMapping, 'rest', lambda: 'rrr'),
    ('mm_rest_set', 'match m:\n    case {"k": x}: pass', ast.MatchMapping, 'rest', lambda: 'rrr'),
    ('mm_rest_set_empty', 'match m:\n    case {}: pass', ast.MatchMapping, 'rest', lambda: 'rrr'),
    ('mm_rest_unset_par', 'match m:\n    case {"k": (x), **rrr}: pass', ast.MatchMapping, 'rest', None),
    ('mm_rest_unset_par_sp', 'match m:\n    case {"k": ( 1 | 2 ) , ** rrr }: pass', ast.MatchMapping, 'rest', None),
    ('mm_rest_unset', 'match m:\n    case {"k": x, **rrr}: pass', ast.MatchMapping, 'rest', None),
    ('mm_rest_unset_only', 'match m:\n    case {**rrr}: pass', ast.MatchMapping, 'rest', None),
    ('handler_name_set_par', 'try:\n    pass\nexcept (OSError):\n    pass', ast.ExceptHandler, 'name', lambda: 'nnn'),
    ('handler_name_set_tuple', 'try:\n    pass\nexcept (A, B)  :\n    pass', ast.ExceptHandler, 'name', lambda: 'nnn'),
    ('handler_name_unset_par', 'try:\n    pass\nexcept (OSError) as nnn:\n    pass', ast.ExceptHandler, 'name', None),
    ('matchas_name_set_par', 'match m:\n    case (1 | 2): pass', ast.MatchAs, 'name', 'wrap'),
    ('matchas_name_unset_par', 'match m:\n    case (1 | 2) as nnn: pass', ast.MatchAs, 'name', 'unwrap'),
    ('matchstar_name_unset', 'match m:\n    case [(a), *rrr]: pass', ast.MatchStar, 'name', None),
    ('matchstar_name_set', 'match m:\n    case [(a), *_]: pass', ast.MatchStar, 'name', lambda: 'rrr'),
    ('alias_asname_set', 'import a . b', ast.alias, 'asname', lambda: 'ccc'),
    ('alias_asname_unset', 'from m import (a  as  b)', ast.alias, 'asname', None),
    ('raise_cause_set', 'raise (eee)', ast.Raise, 'cause', lambda: _N('ccc')),
    ('raise_cause_unset', 'raise (eee) from (ccc)', ast.Raise, 'cause', None),
    ('assert_msg_set', 'assert (ttt)', ast.Assert, 'msg', lambda: _N('mmm')),
    ('assert_msg_unset', 'assert (ttt), (mmm)', ast.Assert, 'msg', None),
    ('return_value_set', 'def f():\n    return  # c', ast.Return, 'value', lambda: _N('vvv')),
    ('return_value_unset', 'def f():\n    return (vvv)  # c', ast.Return, 'value', None),
    ('annassign_value_set', 'x: (int)  # c', ast.AnnAssign, 'value', lambda: _N('vvv')),
    ('annassign_value_unset', 'x: (int) = (vvv)  # c', ast.AnnAssign, 'value', None),
    ('returns_set', 'def f(a=(1)): pass', ast.FunctionDef, 'returns', lambda: _N('rrr')),
    ('returns_unset', 'def f(a=(1)) -> (rrr): pass', ast.FunctionDef, 'returns', None),
    ('arg_annotation_set', 'def f(aaa, bbb=(1)): pass', ast.arg, 'annotation', lambda: _N('int')),
    ('arg_annotation_unset', 'def f(aaa: (int), bbb=(1)): pass', ast.arg, 'annotation', None),
    ('withitem_vars_set', 'with (ccc): pass', ast.withitem, 'optional_vars', lambda: _N('vvv', ast.Store())),
    ('withitem_vars_unset', 'with (ccc) as vvv: pass', ast.withitem, 'optional_vars', None),
    ('slice_step_set', 'x[(a):(b)]', ast.Slice, 'step', lambda: _N('sss')),
    ('slice_step_unset', 'x[(a):(b):(sss)]', ast.Slice, 'step', None),
    ('slice_lower_unset', 'x[(a):(b)]', ast.Slice, 'lower', None),
    ('slice_upper_set', 'x[(a):]', ast.Slice, 'upper', lambda: _N('bbb')),
    ('yield_value_unset', 'def g():\n    yyy = yield (vvv)', ast.Yield, 'value', None),
    ('yield_value_set', 'def g():\n    yyy = (yield)', ast.Yield, 'value', lambda: _N('vvv')),
    ('importfrom_module_set', 'from . import (aaa)', ast.ImportFrom, 'module', lambda: 'mmm'),
    ('importfrom_module_unset', 'from .mmm import (aaa)', ast.ImportFrom, 'module', None),
    ('vararg_set', 'def f(a=(1)): pass', ast.arguments, 'vararg', lambda: ast.arg('vvv', None)),
    ('vararg_unset', 'def f(a=(1), *vvv): pass', ast.arguments, 'vararg', None),
    ('kwarg_set', 'def f(a=(1)): pass', ast.arguments, 'kwarg', lambda: ast.arg('kkk', None)),
    ('kwarg_unset', 'def f(a=(1), **kkk): pass', ast.arguments, 'kwarg', None),
    ('lambda_kwarg_unset', 'l = lambda a=(1), **kkk: 0', ast.arguments, 'kwarg', None),
    ('typevar_bound_set', 'def f[TTT](): pass', ast.TypeVar, 'bound', lambda: _N('int')),
    ('typevar_bound_unset', 'def f[TTT: (int)](): pass', ast.TypeVar, 'bound', None),
    # not included: `except (E) as n:` -> `except:` (type and name removed together): the put of type=None removes the name as a
    # side effect, so the real trace has one op where the model (which predicts the slot from the mark) has two; result is right
]


def _opt_case(name, src, cls, field, val):
    def fn(a, FST):
        for n in ast.walk(a):
            if type(n) is cls:
                if field == 'both':                         # `except (E) as n:` -> `except:`
                    n.name = None
                    n.type = None
                elif val == 'wrap':                         # pattern P -> P as nnn
                    pass
                elif val == 'unwrap':
                    n.name = None if n.pattern is None else n.name
                    if n.pattern is not None:               # `(1 | 2) as nnn` -> the inner pattern takes its place
                        for p in ast.walk(a):
                            for f_, v in ast.iter_fields(p):
                                if v is n:
                                    setattr(p, f_, n.pattern)
                                    return
                                if isinstance(v, list) and any(x is n for x in v):
                                    v[[x is n for x in v].index(True)] = n.pattern
                                    return
                else:
                    setattr(n, field, val() if val is not None else None)
                return
        if val == 'wrap':                                   # no MatchAs yet: wrap the case pattern
            c = a.body[0].cases[0]
            c.pattern = ast.MatchAs(c.pattern, 'nnn')
            return
        raise RuntimeError('no site')

    return (src, fn, f'{cls.__name__}.{field}')


# ---- deterministic family: Constant.value changed to another KIND of literal, in every context x parenthesisation -------------

CONST_CTX = {
    'attr': '{C}.real', 'attr2': '{C}.real.imag', 'subscr': '{C}[0]', 'powl': '{C} ** 2', 'powr': '2 ** {C}', 'neg': '-{C}',
    'not': 'not {C}', 'call': 'f({C})', 'ifexp': '{C} if a else b', 'cmp': 'a < {C}', 'elt': '[{C}, 1]', 'mul': '{C} * x',
    'callfn': '{C}(x)',
}
CONST_OLD = {'float': 1.5, 'str': 'ss', 'none': None, 'int': 7}
CONST_NEW = {'int': 3, 'float': 2.5, 'str': 'tt', 'none': None, 'true': True, 'big': 10 ** 20, 'bytes': b'bb'}


def _const_case(ctx, cpar, ppar, old, new):
    c = repr(CONST_OLD[old])
    e = CONST_CTX[ctx].replace('{C}', f'({c})' if cpar else c)
    src = f'y = ({e}) + 2  # c' if ppar else f'y = {e}  # c'
    marker = CONST_OLD[old]

    def fn(a, FST):
        for n in ast.walk(a):
            if isinstance(n, ast.Constant) and type(n.value) is type(marker) and n.value == marker:
                n.value = CONST_NEW[new]
                n.kind = None
                return
        raise RuntimeError('no site')

    return (src, fn, 'Constant.value')


def _family():
    fam = {}
    for ctx in CONST_CTX:
        for cpar in (False, True):
            for ppar in (False, True):
                for old in CONST_OLD:
                    for new in CONST_NEW:
                        if type(CONST_OLD[old]) is type(CONST_NEW[new]) and CONST_OLD[old] == CONST_NEW[new]:
                            continue
                        case = _const_case(ctx, cpar, ppar, old, new)
                        try:
                            ast.parse(case[0])
                        except SyntaxError:
                            continue              # `7.real`: the marked source itself must be valid
                        fam[f'const_{ctx}_{"c" if cpar else "-"}{"p" if ppar else "-"}_{old}_{new}'] = case
    for name, src, cls, field, val in OPT_TEMPLATES:
        fam[f'opt_{name}'] = _opt_case(name, src, cls, field, val)
    for seq in _arg_layouts():
        for cls in (False, True):
            for edit, c in (('kw_none', 'k'), ('kw_name', 'd'), ('unstar', 's'), ('star', 'p')):
                for j in sorted({0, seq.count(c) - 1}) if seq.count(c) else []:      # first and last item of that kind
                    if edit == 'star' and j > 0:
                        continue
                    fam[f'layout_{"class" if cls else "call"}_{seq}_{edit}{j}'] = _layout_case(seq, cls, edit, j)
    for tname, template, cls, field in IDENT_TEMPLATES:
        for old in _ident_names(template):
            try:
                ast.parse(template.replace('{N}', old))
            except SyntaxError:
                continue
            fam[f'ident_{tname}_{old}'] = _ident_case(tname, template, cls, field, old)
    for edit in _fprim_edits():
        for splice in ('stmt', 'run', 'value'):
            fam[f'fprim_{edit}_{splice}'] = _fprim_case(edit, splice)
    for edit in ('dict_key_1_to_True', 'dict_val_30_to_float', 'list_elt_1_to_True', 'str_changed'):
        fam[f'fprim_{edit}_elts'] = _fprim_case(edit, 'elts')
    for kind in FOREIGN_KINDS:
        for edit in _foreign_edits():
            for n in (1, 2, 3):
                for pos in ('start', 'middle', 'end'):
                    fam[f'foreign_{kind}_{edit}_{n}{pos}'] = _foreign_case(kind, edit, n, pos)
    for i, src in enumerate(DICT_SRCS):
        for name, fn in _dict_ops().items():
            fam[f'dict{i}_{name}'] = (src, fn, 'Dict.dict')
    fam['dict_cross_second'] = ('d = {x: 0, y: 1}\ne = {u: v}', _w_cross_second_dict, 'Dict.dict')
    msrc = "match m:\n    case {1: a, 'k': [b, c], 3.5: D(e), **rest}:\n        pass"
    sw = lambda lst, i, j: lst.__setitem__(slice(None), [lst[j] if k == i else lst[i] if k == j else x for k, x in enumerate(lst)])
    fam['mm_swapkeys'] = (msrc, lambda a, FST: sw(_mm(a).keys, 0, 1), 'MatchMapping.keys')
    fam['mm_swappats'] = (msrc, lambda a, FST: sw(_mm(a).patterns, 0, 1), 'MatchMapping.patterns')
    fam['mm_rotpats'] = (msrc, lambda a, FST: _mm(a).patterns.append(_mm(a).patterns.pop(0)), 'MatchMapping.patterns')
    fam['mm_rotkeys'] = (msrc, lambda a, FST: _mm(a).keys.append(_mm(a).keys.pop(0)), 'MatchMapping.keys')
    return fam


def _fstring_kwonly(tree):
    """a lambda with a keyword-only parameter without default inside an f-string (see C13-F8)"""
    for n in ast.walk(tree):
        if isinstance(n, ast.JoinedStr):
            for x in ast.walk(n):
                if isinstance(x, ast.arguments) and any(d is None for d in x.kw_defaults):
                    return True
    return False


def _w_prim_inf(a, FST):
    a.body[0].value.value = float('inf')


def _w_level_dotted(a, FST):
    a.body[0].level = 2


def _w_trystar_handlers(a, FST):
    a.body[1].handlers[:] = a.body[0].handlers                  # every handler of the TryStar replaced by handlers of a Try


def _w_foreign_reordered(a, FST):
    o = FST('[1, 2, 3, 4]', 'exec')
    o.a.body[0].value.elts.reverse()                            # the user reorders the other tree's list ...
    a.body[0].value.elts.append(o.a.body[0].value.elts[0])      # ... and takes its (new) first element
    return o


def _w_alias_dotted_space(a, FST):
    a.body[0].names[0].asname = None


def _w_dict_del_before_stars(a, FST):
    d = a.body[0].value
    del d.keys[0]
    del d.values[0]


def _w_try_star_handlers(a, FST):
    a.body[0].handlers[:] = a.body[1].handlers                  # every handler of the Try replaced by except* handlers


def _custom_copy_keeps_mark():
    """statement root: mark(), copy(whole=False), edit, reconcile() -> list of (class, detail)"""
    from fst import FST
    f = FST('x = 1  # c')
    f.mark()
    f.copy(whole=False)
    f.a.value = ast.Constant(2)
    try:
        o = f.reconcile()
    except Exception as e:
        return [('raised:' + type(e).__name__, str(e)[:120])]
    return [] if o.src == 'x = 2  # c' else [('structure-differs', repr(o.src))]


ROOT_SRCS = {
    # root that is NOT a Module: (source with comments / lines around the node, FST mode, CPython parse of the result)
    'assign': ('# lead\nx = a + b  # tr\n# after', None),
    'funcdef': ('# lead\n\n@deco  # d\ndef f(a):  # h\n    # inner\n    return a  # r\n# after\n', None),
    'ifstmt': ('# lead\nif a:  # c1\n    b = a  # c2\nelse:\n    pass\n\n# after', None),
    'binop': ('# c\n(a +  # in\n b)  # t\n# z', 'expr'),
    'call': ('# c\ncall(a, b)  # t\n# z', 'expr'),
    'listexpr': ('# c\n[a,  # one\n b]\n# z', 'expr'),
}


def _root_edits():
    def rename(t):
        for n in ast.walk(t):
            if isinstance(n, ast.Name) and n.id == 'a':
                n.id = 'renamed'

    def replace_b(t):
        for n in ast.walk(t):
            for f_, v in ast.iter_fields(n):
                if isinstance(v, ast.Name) and v.id == 'b' and isinstance(v.ctx, ast.Load):
                    setattr(n, f_, ast.Call(ast.Name('g', ast.Load()), [], []))
                    return
                if isinstance(v, list):
                    for i, x in enumerate(v):
                        if isinstance(x, ast.Name) and x.id == 'b' and isinstance(x.ctx, ast.Load):
                            v[i] = ast.Call(ast.Name('g', ast.Load()), [], [])
                            return

    return {'nochange': lambda t: None, 'rename': rename, 'replace': replace_b}


def _comments(src):
    import io
    import tokenize
    try:
        return [t.string for t in tokenize.generate_tokens(io.StringIO(src + '\n').readline) if t.type == tokenize.COMMENT]
    except Exception:
        return None


def _custom_root(kind, edit, rounds=1):
    """mark / edit / reconcile on a root that is a statement or an expression; judges: CPython parse of the returned source ==
    the edited AST, every comment token (tokenize) of the marked source still there in order, no change => identical source"""
    def run():
        from fst import FST
        src, mode = ROOT_SRCS[kind]
        f = FST(src, mode) if mode else FST(src)
        for rd in range(rounds):
            before = f.src
            f.mark()
            _root_edits()[edit if rd == 0 else 'nochange'](f.a)
            want = L.norm_dump(f.a)
            try:
                o = f.reconcile()
            except Exception as e:
                return [('raised:' + type(e).__name__, str(e)[:120])]
            try:
                t = ast.parse(o.src, mode='eval').body if mode == 'expr' else ast.parse(o.src).body[0]
            except SyntaxError as e:
                return [('invalid-tree', f'source no longer parses: {e}: {o.src!r}')]
            if L.norm_dump(t) != want or L.norm_dump(o.a) != want:
                return [('structure-differs', repr(o.src)[:200])]
            if _comments(o.src) != _comments(before):
                return [('comments-lost', f'{_comments(before)} -> {_comments(o.src)}: {o.src!r}'[:300])]
            if (edit == 'nochange' or rd > 0) and o.src != before:
                return [('nochange-src-differs', f'{before!r} -> {o.src!r}'[:300])]
            f = o
        return []
    return run


CUSTOM = {'copy_keeps_mark': (_custom_copy_keeps_mark, 'FST.copy')}
for _k in ROOT_SRCS:
    for _e in ('nochange', 'rename', 'replace'):
        CUSTOM[f'root_{_k}_{_e}'] = (_custom_root(_k, _e), 'non-Module root')
    CUSTOM[f'root_{_k}_rename_2rounds'] = (_custom_root(_k, 'rename', 2), 'non-Module root')


def _w_kw_none(a, FST):
    n = a.body[0]
    (n.value if isinstance(n, ast.Assign) else n).keywords[0].arg = None


def _w_nonstar_after_kw(a, FST):
    a.body[1].value.args[0] = ast.Name('b', ast.Load())


def _w_import_relative(a, FST):
    a.body[1].module = None
    a.body[1].level = 1


# fixed scripts: minimal witnesses of findings whose shape the random generator is kept away from
WITNESS = {
    'foreign_compare_intree': ('x = yy', _w_foreign_compare, 'Compare.comparators'),
    'swap_backslash_tuple': ('x = a \\\n   , b', _w_swap_backslash, 'Tuple.elts'),
    'nochange_fstring_kwonly': ("f'{ {1: lambda *, y: 1} }'", _w_nothing, '-'),
    'prim_inf': ('x = 1.5', _w_prim_inf, 'Constant.value'),
    'imp_level_dotted': ('from .a.b import c', _w_level_dotted, 'ImportFrom.level'),
    'trystar_all_handlers': ('try:\n    pass\nexcept A:\n    pass\nexcept B:\n    pass\ntry:\n    pass\nexcept* C:\n    pass\n',
                             _w_trystar_handlers, 'TryStar.handlers'),
    'foreign_reordered': ('x = [0]', _w_foreign_reordered, 'List.elts'),
    'dict_del_before_stars': ('x = {a: 1, **b, **c}', _w_dict_del_before_stars, 'Dict.dict'),
    'try_all_star_handlers': ('try:\n    pass\nexcept A:\n    pass\ntry:\n    pass\nexcept* C:\n    pass\nexcept* D:\n    pass\n',
                              _w_try_star_handlers, 'Try.handlers'),
    'alias_dotted_space': ('import p . q as r', _w_alias_dotted_space, 'Import.names'),
    # edits whose direct put is refused with ValueError: must come out of the retry at the parent (no finding: regression scripts)
    'retry_kw_none_call': ('r = f(a=b, *c)\n', _w_kw_none, 'Call.keywords'),
    'retry_kw_none_class': ('class C(m=M, *B):\n    pass\n', _w_kw_none, 'ClassDef.keywords'),
    'retry_nonstar_after_kw': ('pre = 0  # first\nr = f(x=1, *a)\npost = 2  # last\n', _w_nonstar_after_kw, 'Call.args'),
    'retry_import_relative': ('x = 1  # first\nfrom a import b\ny = 2  # last\n', _w_import_relative, 'ImportFrom.module'),
    'move_multiline_op': ('x = a < b\ny = (a not\n  in b)', _w_move_multiline_op, 'Compare.ops'),
    'global_backslash_del': ('global g1,  \\\n  g2', _w_global_backslash_del, 'Global.names'),
}


# non-default values of every global option (`FST.get_options()`), used as the CALLER's thread defaults around
# mark() / the AST edits / reconcile(): reconcile pins its own option set, its result must not depend on these
ENV_VALUES = {
    'raw': [True, 'auto'],
    'trivia': [False, 'all+1', ()],
    'coerce': [False],
    'promote': [False, 'all'],
    'elif_': [False],
    'pep8space': [False, 1],
    'docstr': [False, 'strict'],
    'pars': [False, True],
    'pars_walrus': [True, None],
    'pars_arglike': [False, None],
    'norm': [True, 'call'],
    'norm_self': [True, False],
    'norm_get': [True, False],
    'set_norm': ['call'],
    'op_side': ['right'],
    'op': ['<'],
    'args_as': ['kw', 'pos'],
}


def env_name(env):
    return ','.join(f'{k}={env[k]!r}' for k in sorted(env)) if env else ''


def _envs(rng, ncombos):
    """every global option at each non-default value, one at a time, plus a few random combinations"""
    from fst import FST
    names = list(FST.get_options())
    envs = []
    for o in names:
        for v in ENV_VALUES.get(o, []):
            envs.append({o: v})
    missing = [o for o in names if o not in ENV_VALUES]
    for _ in range(ncombos):
        ks = rng.sample([o for o in names if o in ENV_VALUES], rng.randint(2, 4))
        envs.append({k: rng.choice(ENV_VALUES[k]) for k in ks})
    return envs, missing


WITNESS.update(_family())


def _run_case(arg):
    """(src, seed, mode, foreign[, env]): with `env` the whole case (parse, mark, edits, reconcile) runs inside
    `with FST.options(**env)` (the caller's own defaults); the edits depend on (src, seed, mode) only."""
    env = arg[4] if len(arg) > 4 else None
    if len(arg) > 5 and arg[5] is not None:
        return _run_case_kw(arg)
    if not env:
        try:
            return _run_case_inner(arg[:4])
        except Exception:
            # never kill the pool (a raising task makes pool.map return early and the run would end without a verdict on the
            # other cases); the crash is reported by _judge as a broken correspondence with its traceback
            import traceback
            return {'src': arg[0], 'seed': arg[1], 'mode': arg[2], 'rounds': [], 'skip': 'harness crash',
                    'crash': traceback.format_exc()[-1500:]}
    from fst import FST
    try:
        with FST.options(**env):
            res = _run_case_inner(arg[:4])
    except Exception as e:
        res = {'src': arg[0], 'seed': arg[1], 'mode': arg[2], 'rounds': [], 'skip': 'harness exception under env: ' + type(e).__name__}
    res['env'] = env
    for R in res.get('rounds', []):       # the model comparison is done on the default-environment runs; keep the transfer small
        if 'case' in R:
            R['case'] = {}
            R['reps'] = []
            R['real'] = [e for e in R.get('real', []) if 'raised' in e][:5]
    return res


PARAMS = ('trivia_ast_put', 'trivia_fst_put', 'trivia_fst_get')     # reconcile()'s own keyword parameters


def _param_defaults():
    from fst import reconcile as RC
    return {'trivia_ast_put': RC._DEFAULT_TRIVIA_AST_PUT, 'trivia_fst_put': RC._DEFAULT_TRIVIA_FST_PUT,
            'trivia_fst_get': RC._DEFAULT_TRIVIA_FST_GET}


def _kw_lattice():
    """every combination of (omitted | None | the documented default value given explicitly) of reconcile()'s parameters:
    27 calls that must all behave like the bare call; the codes are kept JSON-able ('o', 'n', 'd')"""
    import itertools
    return [dict(zip(PARAMS, c)) for c in itertools.product('ond', repeat=3) if set(c) != {'o'}]


def _kw_values(codes):
    d = _param_defaults()
    return {k: (None if c == 'n' else d[k]) for k, c in codes.items() if c != 'o'}


def _run_case_kw(arg):
    """(src, seed, mode, foreign, None, codes): reconcile() is called with the keyword parameters described by `codes`"""
    codes = arg[5]
    try:
        res = _run_case_inner(arg[:4], _kw_values(codes))
    except Exception:
        import traceback
        res = {'src': arg[0], 'seed': arg[1], 'mode': arg[2], 'rounds': [], 'skip': 'harness crash',
               'crash': traceback.format_exc()[-1500:]}
    res['kw'] = codes
    for R in res.get('rounds', []):
        if 'case' in R:
            R['case'] = {}
            R['reps'] = []
            R['real'] = [e for e in R.get('real', []) if 'raised' in e][:5]
    return res


def _run_case_inner(arg, rkw=None):
    """One program, 1-3 rounds.  Returns a dict (JSON-able) with per-round model input, real trace and oracle verdicts."""
    src, seed, mode, foreign = arg
    from fst import FST
    if mode in CUSTOM:
        fails = CUSTOM[mode][0]()
        return {'src': src, 'seed': seed, 'mode': mode,
                'rounds': [{'round': 0, 'muts': [[mode, CUSTOM[mode][1]]], 'fails': [f for f in fails if not f[0].startswith('raised:')],
                            **({'raised': fails[0][0][7:] + ': ' + fails[0][1]} if fails and fails[0][0].startswith('raised:') else {})}]}
    L.RECORDER.install()
    rng = random.Random(seed)
    if mode in WITNESS:
        src = WITNESS[mode][0]
    res = {'src': src, 'seed': seed, 'mode': mode, 'rounds': []}
    try:
        f = FST(src, 'exec')
    except Exception as e:
        res['skip'] = 'parse: ' + type(e).__name__
        return res
    if L.util.tree_equals_parse(f) is not None:
        res['skip'] = 'initial tree != parse'
        return res
    if mode in WITNESS:
        src = WITNESS[mode][0]
    nrounds = 1 if mode != 'normal' else rng.choice([1, 1, 2, 3])
    for rd in range(nrounds):
        mut = L.Mutator(rng, foreign, f)
        R = {'round': rd}
        res['rounds'].append(R)
        f.mark()
        marked_src = f.src
        R['marked_src'] = marked_src
        lines_b = [l.encode() for l in f.lines]
        snaps = L.snapshot_stmts(f.a)
        for s in snaps:
            s['text'] = L.stmt_text(lines_b, s['node'])
        S = L.Ser(f, _sigs())
        try:
            mark_json = S.ser(f.a)
        except RecursionError:
            res['skip'] = 'recursion'
            return res
        muts = []
        if mode == 'normal':
            want_n = rng.choice([1, 1, 1, 2, 3])
            tries = 0
            while len(muts) < want_n and tries < 12:
                tries += 1
                try:
                    m = mut.apply(f.a)
                except RecursionError:
                    m = None
                if m:
                    muts.append(m)
        elif mode in WITNESS:
            from fst import FST as _F
            keep = WITNESS[mode][1](f.a, _F)
            muts.append((mode, WITNESS[mode][2]))
        elif mode in SPECIAL:
            for _ in range(8):
                m = mut.apply(f.a, mode)
                if m:
                    muts.append(m)
                    break
            if not muts:
                res['skip'] = 'no site'
                return res
        R['muts'] = [list(m) for m in muts]
        edited_json = None
        try:
            want = L.norm_dump(f.a)
            R['want_h'] = hashlib.md5(want.encode()).hexdigest()
            ast.unparse(f.a)         # CPython accepts the edited AST as a tree (type-valid)
            edited_json = S.ser(f.a)
        except (RecursionError, IndexError, ValueError) as e:
            if not (mode in WITNESS and isinstance(e, IndexError) and str(e) == 'C13-F16'):
                res['skip'] = 'edited tree not serialisable: ' + type(e).__name__ + (' (C13-F16 shape)' if str(e) == 'C13-F16' else '')
                return res
        if edited_json is not None:
            R['case'] = {'f': 'C13.reconcile', 'mark': mark_json, 'edited': edited_json}
        R['reps'] = [list(k) for k, _ in sorted(S.rep.items(), key=lambda kv: kv[1])]
        R['foreign'] = S.foreign_seen
        # untouched statements (decided on the edited AST, before reconcile)
        untouched = []
        for s in snaps:
            if _under_elif(f.a, s['path']):
                continue        # `elif` / `else: if` spelling (and the indentation below it) depends on the sibling count
            n2, chain2 = L.follow(f.a, s['path'])
            if n2 is s['node'] and chain2 == s['chain'] and [id(x) for x in ast.walk(n2)] == s['ids'] \
                    and ast.dump(n2) == s['dump']:
                untouched.append((s['path'], _mpath(f.a, s['path']), s['text']))
        if 'case' in R:
            R['case']['paths'] = [list(mp) for _, mp, _ in untouched][:40]
        L.RECORDER.begin()
        try:
            o = f.reconcile(**(rkw or {}))
        except RecursionError:
            res['skip'] = 'recursion'
            L.RECORDER.end()
            return res
        except Exception as e:
            R['raised'] = type(e).__name__ + ': ' + str(e)[:160]
            R['real'] = list(L.RECORDER.log)
            L.RECORDER.end()
            return res
        R['real'] = list(L.RECORDER.log)
        L.RECORDER.end()
        R['result_src'] = o.src
        # ---- oracle ----
        fails = []
        d = util.tree_equals_parse(o)
        if d is not None:
            cls = 'invalid-tree'
            if 'withitem(context_expr=Tuple(elts=[' in d and 'structure differs' in d and 'with (' in o.src:
                # same defect as C01-K3: `with (x,):` is read by CPython as a parenthesised with-item list, not a 1-tuple
                cls = 'invalid-tree@with-sole-1tuple'
            fails.append((cls, d))
        else:
            got = L.norm_dump(o.a)
            if got != want:
                fails.append(('structure-differs', util.first_diff(got, want).replace('live=', 'result=').replace('parsed=', 'edited=')))
            if (not muts or mode == 'nochange_fstring_kwonly') and o.src != marked_src:
                fails.append(('nochange-src-differs', util.first_diff(o.src, marked_src)))
            if not fails:
                ast_puts = [e['op'][1] for e in R['real'] if e['op'][0] == 'put' and e['op'][2] == 'ast']
                lines_o = [l.encode() for l in o.lines]
                ncmp = nex = 0
                for path, mpath, text in untouched:
                    if any(L.is_prefix(p, mpath) for p in ast_puts):
                        nex += 1
                        continue
                    n3, _ = L.follow(o.a, path)
                    if n3 is None:
                        fails.append(('untouched-missing', str(path)))
                        break
                    t3 = L.stmt_text(lines_o, n3)
                    ncmp += 1
                    if t3 != text:
                        fails.append(('untouched-text-changed', f'{type(n3).__name__} at {path}: {text!r} -> {t3!r}'))
                        break
                R['untouched_compared'] = ncmp
                R['untouched_excluded'] = nex
        R['fails'] = fails
        if fails:
            return res
        f = o
    return res


def _programs(ctx, n, stdlib):
    rng = random.Random(ctx.rng.random())
    return corpus.programs(rng, n, stdlib=stdlib)


def _has_dict(t):
    """a mode-2 list (Dict pairs) somewhere in a serialised tree"""
    stack = [t]
    while stack:
        x = stack.pop()
        if isinstance(x, list) and x:
            if x[0] == 'm' and len(x) == 4 and x[2] == 2:
                return True
            if x[0] in ('n', 'm'):
                stack.extend(x[3])
    return False


def _sig(R, cls):
    muts = R.get('muts') or []
    kinds = '+'.join(sorted(set(m[0] for m in muts))) or 'none'
    sites = '+'.join(sorted(set(m[1] for m in muts))) or '-'
    return f'C13|{kinds}|{sites}|{cls}'


def _cases(ctx, progs, nspecial, per_prog=1):
    foreign = None
    args = []
    for p in progs:
        for _ in range(per_prog):
            args.append((p, ctx.rng.randrange(1 << 30), 'normal', foreign))
    for p in progs[:nspecial]:
        args.append((p, ctx.rng.randrange(1 << 30), 'nochange', foreign))
    for p in progs[:nspecial]:
        for m in SPECIAL:
            args.append((p, ctx.rng.randrange(1 << 30), m, foreign))
    for m, (wsrc, _, _) in WITNESS.items():
        args.append((wsrc, 0, m, foreign))
    for m in CUSTOM:
        args.append(('', 0, m, foreign))
    return args


def _judge(ctx, results, name='reconcile trace vs Pfst.Reconcile.reconcile', search=False, model=True):
    """model vs real trace (correspondence) and the oracle verdicts (property) for a batch of executed cases"""
    cases, owners = [], []
    for res in results:
        if 'crash' in res:
            ctx.brk('correspondence', 'C13 harness crash', json.dumps({'src': res.get('src'), 'seed': res.get('seed'), 'mode': res.get('mode')})
                    + ' ' + res['crash'])
        if 'skip' in res:
            ctx.tally('skipped', res['skip'])
            continue
        for R in res['rounds']:
            cases.append(R.get('case') or None)       # rounds without a model input (custom scripts) still go through the oracle
            owners.append((res, R))
    outs = [None] * len(cases)       # oracle verdicts only
    if model:
        idx = [i for i, c in enumerate(cases) if c]
        try:
            for i, o in zip(idx, ctx.lean([cases[i] for i in idx])):
                outs[i] = o
        except Exception as e:
            ctx.brk('correspondence', name, f'driver error: {e}')
    bad = 0
    for (res, R), c, mo in zip(owners, cases, outs):
        muts = R.get('muts') or []
        for m in muts:
            ctx.tally('mutation_kind', m[0])
        if 'refused' in R:
            ctx.tally('refused', R['refused'][:60])
        key = [res['src'], res['seed'], res['mode'], R['round'], env_name(res.get('env'))]
        at = ('@' + env_name(res['env'])) if res.get('env') else ('@' + _kw_name(res['kw'])) if res.get('kw') else ''
        # ---- property oracle ----
        if 'raised' in R:
            cls = 'raised:' + R['raised'].split(':')[0]
            ctx.fail(_sig(R, cls + at), f'reconcile() raised {R["raised"]} after {muts}' + (f' under caller options {at[1:]}' if at else ''),
                     {'src': res['src'], 'seed': res['seed'], 'mode': res['mode'], 'round': R['round'], 'muts': muts,
                      'env': res.get('env'), 'kw': res.get('kw')})
        for cls, detail in R.get('fails', []):
            ctx.fail(_sig(R, cls + at), f'{cls} after {muts}' + (f' under caller options {at[1:]}' if at else '') + f': {detail[:300]}',
                     {'src': res['src'], 'seed': res['seed'], 'mode': res['mode'], 'round': R['round'], 'muts': muts,
                      'env': res.get('env'), 'kw': res.get('kw'), 'marked_src': R.get('marked_src'), 'result_src': R.get('result_src')})
        ctx.tally('untouched_statements_compared', 'n')
        ctx.dist['untouched_statements_compared']['n'] += R.get('untouched_compared', 0) - 1
        # ---- correspondence ----
        if mo is None:
            continue
        ctx.corr_cases += 1
        m = mo.get('out', mo)
        if not isinstance(m, dict) or 'ops' not in m:
            bad += 1
            if len(ctx.corr_disagreements) < 20:
                ctx.corr_disagreements.append({'corr': name, 'key': key, 'model': m})
            continue
        mops = [L.canon_model_op(op, R['reps']) for op in m['ops']]
        msrcs = [op[2] if op[1] == 'put' else op[4] if op[1] == 'slice' else None for op in m['ops']]
        real = R.get('real', [])
        ctx.count(key, bool(mops))
        if m.get('fail'):
            # the model says the exception leaves reconcile(): the real run must have refused
            st = 'equal' if 'refused' in R else 'differ'
            detail = 'model predicts an escaping NotImplementedError'
        elif 'refused' in R or 'raised' in R:
            st, detail = 'real-raised', None
        elif res['mode'] in WITNESS and R.get('fails'):
            st, detail = 'witness-of-a-finding', None     # the real run is the recorded defect; its trace is not the model's
        else:
            st, detail = L.compare_traces(mops, real, msrcs)
        ctx.tally('trace_status', st)
        if st == 'fallback':
            ctx.tally('fallback_retries', detail)
            for e in real:
                if 'raised' in e:
                    ctx.tally('real_op_raised', e['raised'].split(':')[0])
        # ---- hypotheses of the full theorems, evaluated on the real case (how much of the run the theorems cover) ----
        wf = m.get('wf')
        ctx.tally('theorem_hypothesis', 'trace_correct: wfN ' + ('holds' if wf else 'fails (mode ' + res['mode'] + (', Dict present' if _has_dict(c['edited']) else '') + ')'))
        if wf and not m.get('fail') and not m.get('res_ok', True):
            ctx.brk('proof', 'Pfst.C13.trace_correct', f'driver: wfN holds, no failure, but applyOps trace != erase edited on {key}')
        if not muts:
            ctx.tally('theorem_hypothesis', 'no_change: stillN ' + ('holds' if m.get('still') else 'fails'))
            if not m.get('still') and res['mode'] == 'nochange':
                ctx.brk('correspondence', 'stillN on an unedited tree', f'the serialised unedited tree does not meet stillN on {key}')
        if not wf and res['mode'] == 'prim_conflate':
            ctx.brk('correspondence', 'wfN on a primitive change', f'wfN fails on a pure primitive change (no primitive hypothesis is left) on {key}')
        if m.get('still') and m['ops']:
            ctx.brk('proof', 'Pfst.C13.no_change', f'driver: stillN holds but the trace is not empty on {key}')
        for kp, tc in zip(m.get('kept', []), m.get('touched', [])):
            ctx.tally('theorem_hypothesis', 'untouched_kept: keptN ' + ('holds' if kp else 'fails') + ' on an untouched statement')
            if kp and wf and tc:
                ctx.brk('proof', 'Pfst.C13.untouched_kept', f'driver: keptN and wfN hold but an operation touches the path on {key}')
        if not m.get('res_ok', True) and not m.get('fail'):
            ctx.tally('model_result_ne_edited', res['mode'])
            st = 'differ'
            detail = 'model: applyOps trace (erase mark) != erase edited (wfN false on this input?)'
        if st == 'differ':
            bad += 1
            if len(ctx.corr_disagreements) < 20:
                ctx.corr_disagreements.append({'corr': name, 'src': res['src'], 'seed': res['seed'], 'mode': res['mode'],
                                               'round': R['round'], 'muts': muts, 'detail': detail,
                                               'model_ops': mops[:12], 'real_ops': [e for e in real][:12]})
            ctx.hints.append((res['src'], res['seed'], res['mode']))
    ctx.tally('correspondence_cases', name)
    ctx.dist['correspondence_cases'][name] = ctx.dist['correspondence_cases'].get(name, 1) - 1 + len(cases)
    if owners:
        res, R = owners[0]
        ctx.sample({'src': res['src'][:200], 'muts': R.get('muts'), 'real_ops': [e['op'] for e in R.get('real', [])][:6]})
    if bad:
        ctx.brk('correspondence', name, f'{bad}/{len(cases)} cases differ; first: ' + str(ctx.corr_disagreements[0])[:1500])


# ---- the option set FST.reconcile pins, extracted extensionally ------------------------------------------------------

def _probe_options(_=None):
    """Runs in a forked child.  (a) global option names; (b) `refused`: options FST.reconcile() rejects as keyword ("managed
    during the process"), probed by calling it; (c) `pinned`: kwargs of the first `FST.options(...)` block entered during one
    reconcile() call; (d) `read`: global options read from the THREAD DEFAULT (not from an explicit `options` mapping) while
    Reconcile.recurse_node runs, over a fixed mini sweep (the module global fst_options._OPTIONS is replaced by a recording
    proxy for the duration)."""
    from fst import FST
    import fst.fst_options as FO
    from fst import reconcile as RC
    glob = list(FST.get_options())
    defaults = FST.get_options()
    refused = []
    for o in glob:
        f = FST('x = 1', 'exec')
        f.mark()
        try:
            f.reconcile(**{o: defaults[o]})
        except ValueError as e:
            if 'not allowed in reconcile' in str(e):
                refused.append(o)
        except Exception:
            pass
    # pinned
    calls = []
    orig_options = FST.__dict__['options']
    orig_fn = orig_options.__func__ if isinstance(orig_options, staticmethod) else orig_options

    def rec_options(**kw):
        calls.append(dict(kw))
        return orig_fn(**kw)

    FST.options = staticmethod(rec_options)
    try:
        f = FST('x = a\ny = b', 'exec')
        f.mark()
        f.a.body[0].value = ast.BinOp(ast.Name('p', ast.Load()), ast.Add(), ast.Name('q', ast.Load()))
        f.reconcile()
    finally:
        FST.options = orig_options
    pinned = {k: repr(v) for k, v in (calls[0] if calls else {}).items()}
    # read from the thread default during the replay
    log = set()

    class DictProxy:
        def __init__(self, d):
            self.d = d

        def get(self, k, default=None):
            log.add(k)
            return self.d.get(k, default)

        def __getitem__(self, k):
            log.add(k)
            return self.d[k]

        def __contains__(self, k):
            return k in self.d

        def update(self, *a, **k):
            return self.d.update(*a, **k)

        def copy(self):
            return self.d.copy()

    real = FO._OPTIONS

    class Proxy:
        def __getattribute__(self, name):
            if name == '__dict__':
                return DictProxy(real.__dict__)
            log.add(name)
            return getattr(real, name)

        def __setattr__(self, name, v):
            setattr(real, name, v)

    proxy = Proxy()
    depth = [0]
    orig_rn = RC.Reconcile.recurse_node

    def rn(self, *a, **k):
        if depth[0] == 0:
            FO._OPTIONS = proxy
        depth[0] += 1
        try:
            return orig_rn(self, *a, **k)
        finally:
            depth[0] -= 1
            if depth[0] == 0:
                FO._OPTIONS = real

    RC.Reconcile.recurse_node = rn
    try:
        rng = random.Random('C13-options')
        progs = corpus.programs(rng, 90, stdlib=0)
        n = 0
        for i, p in enumerate(progs):
            for j in range(2):
                r = _run_case_inner((p, 7919 * i + j, 'normal', None))
                n += len(r.get('rounds', []))
    finally:
        RC.Reconcile.recurse_node = orig_rn
        FO._OPTIONS = real
    return {'global': glob, 'refused': refused, 'pinned': pinned, 'read': sorted(x for x in log if x in glob),
            'read_other': sorted(x for x in log if x not in glob), 'rounds': n}


# ---- the refusal alphabet of the put layer and the exception tuple of the retry-at-parent handler ---------------------------

def _battery():
    """direct puts that the put layer refuses although the edited AST is valid: (name, thunk)"""
    from fst import FST
    N = lambda i: ast.Name(i, ast.Load())
    return [
        ('ImportFrom.module deleted at level 0', lambda: FST('from a import b').put(None, field='module')),
        ('non-Starred arg after a keyword', lambda: FST('f(x=1, *a)').put(N('b'), 0, field='args')),
        ('keyword.arg deleted before a Starred', lambda: FST('f(a=b, *c)').keywords[0].put(None, field='arg')),
        ('required child deleted', lambda: FST('x = 1').put(None, field='value')),
        ('statement source for an expression', lambda: FST('x = 1').put('pass', field='value')),
        ('source that does not parse', lambda: FST('x = 1').put('1 +', field='value')),
        ('node of the wrong category', lambda: FST('x = 1').put(ast.Pass(), field='value')),
        ('negative Constant.value', lambda: FST('x = 1').value.put(-1, field='value')),
        ('star alias among several aliases', lambda: FST('from a import b, c').put('*', 0, field='names')),
        ('Constant.value inside an f-string', lambda: FST("f'a{b}'").values[0].put('z', field='value')),
    ]


def _probe_catch(_=None):
    """Runs in a forked child.  (a) `caught`: the exception tuple of the handler around `self.recurse_children(...)` in
    Reconcile.recurse_node, read from the source of the imported module; (b) `battery`: the class (with its MRO) each refused
    direct put of _battery() raises; (c) `retried`: for each of those classes, Reconcile.recurse_children is made to raise an
    instance once below an in-tree node: does reconcile() still return the edited tree (retry at the parent)?"""
    import inspect
    from fst import FST
    from fst import reconcile as RC
    tree = ast.parse(inspect.getsource(RC))
    caught = []
    for cls in [n for n in tree.body if isinstance(n, ast.ClassDef) and n.name == 'Reconcile']:
        for fn in [n for n in cls.body if isinstance(n, ast.FunctionDef) and n.name == 'recurse_node']:
            for t in [n for n in ast.walk(fn) if isinstance(n, ast.Try)]:
                if any(isinstance(c, ast.Call) and isinstance(c.func, ast.Attribute) and c.func.attr == 'recurse_children'
                       for b in t.body for c in ast.walk(b)):
                    for h in t.handlers:
                        ts = h.type.elts if isinstance(h.type, ast.Tuple) else [h.type] if h.type is not None else []
                        caught += [ast.unparse(x) for x in ts]
    battery = []
    classes = {}
    for name, thunk in _battery():
        try:
            thunk()
            battery.append([name, '', []])
        except Exception as e:
            c = type(e)
            classes[c.__name__] = c
            battery.append([name, c.__name__, [k.__name__ for k in c.__mro__ if k not in (object, BaseException, Exception)]])
    retried = []
    orig = RC.Reconcile.recurse_children
    for cname, c in sorted(classes.items()):
        fired = []

        def rc(self, node, outa, c=c):
            if isinstance(node, ast.BinOp) and not fired:
                fired.append(1)
                raise c('refusal injected by the C13 harness')
            return orig(self, node, outa)

        RC.Reconcile.recurse_children = rc
        ok = False
        try:
            f = FST('x = a + b  # c\ny = 2', 'exec')
            f.mark()
            f.a.body[0].value.right = ast.Name('z', ast.Load())
            want = L.norm_dump(f.a)
            o = f.reconcile()
            ok = bool(fired) and util.tree_equals_parse(o) is None and L.norm_dump(o.a) == want
        except Exception:
            ok = False
        finally:
            RC.Reconcile.recurse_children = orig
        retried.append([cname, ok])
    return {'caught': caught, 'battery': battery, 'retried': retried}


def _probe_params(_=None):
    """Runs in a forked child.  Reconcile.__init__ called with every combination of its three trivia parameters omitted (0) /
    None (1) / a distinct value (2): which value does each parameter end up with - 'default' (the module's _DEFAULT_TRIVIA_*
    constant), 'given' (the value passed for THAT parameter), or something else?"""
    import itertools
    from fst import FST
    from fst import reconcile as RC
    defaults = _param_defaults()
    given = {'trivia_ast_put': ('block', 'none'), 'trivia_fst_put': ('none', 'none'), 'trivia_fst_get': ('all', 'none')}
    rows = []
    for codes in itertools.product((0, 1, 2), repeat=3):
        f = FST('x = 1', 'exec')
        f.mark()
        kw = {}
        for pn, c in zip(PARAMS, codes):
            if c == 1:
                kw[pn] = None
            elif c == 2:
                kw[pn] = given[pn]
        try:
            r = RC.Reconcile(f, f._cache['mark'], {}, **kw)
            eff = []
            for pn in PARAMS:
                v = getattr(r, pn)
                eff.append('given' if v is given[pn] or (v == given[pn] and v != defaults[pn]) else 'default' if v == defaults[pn]
                           else 'other:' + repr(v))
        except Exception as e:
            eff = ['raised:' + type(e).__name__] * 3
        rows.append([list(codes), eff])
    return {'params': list(PARAMS), 'defaults': {k: repr(v) for k, v in defaults.items()}, 'rows': rows}


def _probe_prims(_=None):
    """Runs in a forked child.  The two places where reconcile decides whether a primitive changed, evaluated on every ordered
    pair of a value battery: (a) astutil.compare_asts (what `copy().verify()` / `get_slice().verify()` use on nodes of ANOTHER
    tree), with type_comments off and on; (b) Reconcile.recurse_children on an in-tree Constant (does the returned tree hold
    the new value?).  Judge: Python `==` AND identity of type."""
    from fst import FST
    from fst import astutil
    vals = [0, 1, 2, 30, True, False, 0.0, 1.0, 30.0, 1j, 'a', b'a', None]
    rows = []
    for a in vals:
        for b in vals:
            same_eq = bool(a == b)
            same_ty = type(a) is type(b)
            v0 = bool(astutil.compare_asts(ast.Constant(a), ast.Constant(b), raise_=False))
            v1 = bool(astutil.compare_asts(ast.Constant(a), ast.Constant(b), type_comments=True, raise_=False))
            try:
                f = FST(f'x = {a!r}', 'exec')
                f.mark()
                f.a.body[0].value.value = b
                o = f.reconcile()
                sees = ast.dump(o.a.body[0].value) != ast.dump(ast.Constant(a))
            except Exception:
                sees = True
            rows.append([repr(a), repr(b), same_eq, same_ty, v0, v1, sees])
    return {'rows': rows}


_PRIMS_T = None


def _prims_table():
    global _PRIMS_T
    if _PRIMS_T is None:
        r = L.fork_map(_probe_prims, [None], nchunks=1)[0]
        if 'crash' in r:
            raise RuntimeError('prims probe failed: ' + r['crash'])
        _PRIMS_T = r
    return _PRIMS_T


_PARAMS_T = None


def _params_table():
    global _PARAMS_T
    if _PARAMS_T is None:
        r = L.fork_map(_probe_params, [None], nchunks=1)[0]
        if 'crash' in r:
            raise RuntimeError('params probe failed: ' + r['crash'])
        _PARAMS_T = r
    return _PARAMS_T


_CATCH = None


def _catch_tables():
    global _CATCH
    if _CATCH is None:
        r = L.fork_map(_probe_catch, [None], nchunks=1)[0]
        if 'crash' in r:
            raise RuntimeError('catch probe failed: ' + r['crash'])
        _CATCH = r
    return _CATCH


_OPT = None


def _option_tables():
    global _OPT
    if _OPT is None:
        r = L.fork_map(_probe_options, [None], nchunks=1)[0]       # in a child: the probes patch classes at run time
        if 'crash' in r:
            raise RuntimeError('option probe failed: ' + r['crash'])
        _OPT = r
    return _OPT


def _lean_strs(xs):
    return '[' + ', '.join('"' + x + '"' for x in xs) + ']'


def extract(ctx):
    """lean/Pfst/Gen/ReconcileOptions.lean: the option tables of FST.reconcile, evaluated on the imported modules"""
    import framework
    t = _option_tables()
    txt = ('-- GENERATED by harness/props/C13.py (extract) from the imported /repo modules; do not edit\n'
           'namespace Pfst.Gen.ReconcileOptions\n\n'
           '/-- `FST.get_options()`: every global (thread default) option -/\n'
           f'def globalOptions : List String := {_lean_strs(t["global"])}\n\n'
           '/-- options `FST.reconcile()` refuses as keyword ("managed during the process"), probed by calling it -/\n'
           f'def refused : List String := {_lean_strs(t["refused"])}\n\n'
           '/-- keyword names of the `with FST.options(...)` block entered by `FST.reconcile()` (recorded at run time) -/\n'
           f'def pinned : List String := {_lean_strs(list(t["pinned"]))}\n\n'
           '/-- the pinned values, as Python reprs -/\n'
           'def pinnedValues : List (String × String) := ['
           + ', '.join('("' + k + '", "' + v.replace('\\', '\\\\').replace('"', '\\"') + '")' for k, v in t['pinned'].items()) + ']\n\n'
           '/-- global options read from the thread default while `Reconcile.recurse_node` runs (fixed mini sweep of '
           f'{t["rounds"]} mark/reconcile rounds) -/\n'
           f'def readDefault : List String := {_lean_strs(t["read"])}\n\n'
           'end Pfst.Gen.ReconcileOptions\n')
    framework.write_if_changed(framework.LEAN / 'Pfst' / 'Gen' / 'ReconcileOptions.lean', txt)
    ctx.notes['reconcile_option_tables'] = t
    c = _catch_tables()
    q = lambda x: '"' + x.replace('\\', '\\\\').replace('"', '\\"') + '"'
    txt = ('-- GENERATED by harness/props/C13.py (extract) from the imported /repo modules; do not edit\n'
           'namespace Pfst.Gen.ReconcileCatch\n\n'
           '/-- the exception tuple of the handler around `self.recurse_children(node, outa)` in `Reconcile.recurse_node` -/\n'
           f'def caught : List String := {_lean_strs(c["caught"])}\n\n'
           '/-- refused direct puts (valid edited AST, put not available "in this state / at this location"): scenario, class raised,\n'
           'its MRO below `Exception` -/\n'
           'def battery : List (String × String × List String) := [\n  '
           + ',\n  '.join(f'({q(n)}, {q(k)}, {_lean_strs(m)})' for n, k, m in c['battery']) + ']\n\n'
           '/-- each class of the battery injected once below an in-tree node: did `reconcile()` return the edited tree? -/\n'
           'def retried : List (String × Bool) := ['
           + ', '.join(f'({q(k)}, {"true" if r else "false"})' for k, r in c['retried']) + ']\n\n'
           'end Pfst.Gen.ReconcileCatch\n')
    framework.write_if_changed(framework.LEAN / 'Pfst' / 'Gen' / 'ReconcileCatch.lean', txt)
    ctx.notes['reconcile_catch_tables'] = c
    pt = _params_table()
    txt = ('-- GENERATED by harness/props/C13.py (extract) from the imported /repo modules; do not edit\n'
           'namespace Pfst.Gen.ReconcileParams\n\n'
           f'/-- the trivia parameters of `FST.reconcile()` / `Reconcile.__init__` -/\ndef params : List String := {_lean_strs(pt["params"])}\n\n'
           '/-- the module constants `_DEFAULT_TRIVIA_*` (Python reprs) -/\ndef defaults : List (String × String) := ['
           + ', '.join(f'({q(k)}, {q(v)})' for k, v in pt['defaults'].items()) + ']\n\n'
           '/-- `Reconcile.__init__` evaluated on the whole presence lattice: per parameter 0 = omitted, 1 = `None`, 2 = a value given;\n'
           'effective value per parameter: "default" (the module constant), "given" (the value passed for that parameter), or other -/\n'
           'def rows : List (List Nat × List String) := [\n  '
           + ',\n  '.join('([' + ', '.join(map(str, c)) + '], ' + _lean_strs(e) + ')' for c, e in pt['rows']) + ']\n\n'
           'end Pfst.Gen.ReconcileParams\n')
    framework.write_if_changed(framework.LEAN / 'Pfst' / 'Gen' / 'ReconcileParams.lean', txt)
    ctx.notes['reconcile_params_table'] = pt
    pr = _prims_table()
    B = lambda x: 'true' if x else 'false'
    txt = ('-- GENERATED by harness/props/C13.py (extract) from the imported /repo modules; do not edit\n'
           'namespace Pfst.Gen.ReconcilePrims\n\n'
           '/-- every ordered pair (old, new) of a primitive battery: reprs, `old == new`, `type(old) is type(new)`,\n'
           '`compare_asts` says equal (type_comments off / on: what `verify()` of a copy from another tree uses),\n'
           '`reconcile()` of an in-tree Constant edited old -> new returns the new value -/\n'
           'def rows : List (String × String × Bool × Bool × Bool × Bool × Bool) := [\n  '
           + ',\n  '.join(f'({q(r[0])}, {q(r[1])}, {B(r[2])}, {B(r[3])}, {B(r[4])}, {B(r[5])}, {B(r[6])})' for r in pr['rows']) + ']\n\n'
           'end Pfst.Gen.ReconcilePrims\n')
    framework.write_if_changed(framework.LEAN / 'Pfst' / 'Gen' / 'ReconcilePrims.lean', txt)


def _env_cases(ctx, progs, per_env, ncombos):
    rng = random.Random(ctx.rng.random())
    envs, missing = _envs(rng, ncombos)
    base_args = [(p, ctx.rng.randrange(1 << 30), 'normal', None) for p in progs[:per_env]]
    env_args = [a + (e,) for e in envs for a in base_args]
    return base_args, env_args, envs, missing


def _kw_name(codes):
    return ','.join(f'{k}={ {"o": "omitted", "n": "None", "d": "default"}[c]}' for k, c in codes.items())


def _judge_kw(ctx, base, kw_results):
    """reconcile(<parameters omitted / None / given their documented default>) must return exactly what the bare call returns"""
    by = {(r.get('src'), r.get('seed'), r.get('mode')): r for r in base if 'crash' not in r}
    for r in kw_results:
        if 'crash' in r:
            continue
        b = by.get((r['src'], r['seed'], r['mode']))
        if b is None or 'skip' in b or 'skip' in r:
            continue
        kn = _kw_name(r['kw'])
        for Rb, Re in zip(b['rounds'], r['rounds']):
            if Rb.get('muts') != Re.get('muts') or Rb.get('want_h') != Re.get('want_h'):
                ctx.tally('kw_runs', 'edits differ')
                break
            ctx.count([r['src'], r['seed'], kn, Rb['round']], True)
            if 'result_src' not in Rb or Rb.get('fails'):
                ctx.tally('kw_runs', 'bare call has no clean result')
                break
            if 'result_src' not in Re or Re.get('fails'):
                ctx.tally('kw_runs', 'fails with parameters only (reported by the oracle)')
                break
            if Rb['result_src'] == Re['result_src']:
                ctx.tally('kw_runs', 'same source as the bare call')
                continue
            ctx.fail(_sig(Re, 'source-depends-on-parameter-presence@' + kn),
                     f'reconcile({kn}) returns another source than reconcile() after {Re.get("muts")}: '
                     + util.first_diff(Re['result_src'], Rb['result_src']).replace('live=', 'with=').replace('parsed=', 'bare='),
                     {'src': r['src'], 'seed': r['seed'], 'mode': r['mode'], 'round': Re['round'], 'muts': Re.get('muts'),
                      'kw': r['kw'], 'default_src': Rb['result_src'], 'result_src': Re['result_src']})
            break


def _judge_env(ctx, base, env_results, refused):
    """the result of reconcile() under non-default caller options vs the result under the defaults (same program, same
    edits): for options that reconcile() refuses as keywords ("managed during the process") the source must be identical"""
    by = {(r.get('src'), r.get('seed'), r.get('mode')): r for r in base if 'crash' not in r}
    for r in env_results:
        if 'crash' in r:
            continue
        b = by.get((r['src'], r['seed'], r['mode']))
        env = r.get('env') or {}
        en = env_name(env)
        if b is None or 'skip' in b or 'skip' in r:
            if b is not None and ('skip' in r) != ('skip' in b):
                ctx.tally('env_runs', 'skipped on one side only: ' + str(r.get('skip') or b.get('skip'))[:50])
            continue
        managed = all(k in refused for k in env)
        for Rb, Re in zip(b['rounds'], r['rounds']):
            if Rb.get('muts') != Re.get('muts') or Rb.get('want_h') != Re.get('want_h'):
                ctx.tally('env_runs', 'edits differ (generator depends on options)')
                break
            ctx.count([r['src'], r['seed'], en, Rb['round']], True)
            if 'result_src' not in Rb or Rb.get('fails'):
                ctx.tally('env_runs', 'default run has no clean result')
                break
            if 'result_src' not in Re or Re.get('fails'):
                ctx.tally('env_runs', 'fails under env only (reported by the oracle)')
                break
            if Rb['result_src'] == Re['result_src']:
                ctx.tally('env_runs', 'same source as under defaults' + (' (managed option)' if managed else ' (caller option)'))
                continue
            if not managed:
                ctx.tally('env_runs', 'source differs under a caller-controllable option: ' + '+'.join(sorted(env)))
                break
            ctx.fail(_sig(Re, 'source-depends-on-caller-options@' + en),
                     f'reconcile() under caller options {en} returns another source than under the defaults after {Re.get("muts")}: '
                     + util.first_diff(Re['result_src'], Rb['result_src']).replace('live=', 'env=').replace('parsed=', 'default='),
                     {'src': r['src'], 'seed': r['seed'], 'mode': r['mode'], 'round': Re['round'], 'muts': Re.get('muts'),
                      'env': env, 'default_src': Rb['result_src'], 'result_src': Re['result_src']})
            break


def correspondence(ctx):
    """runs in sweep() (same executions serve the trace comparison and the oracle)"""
    ctx.notes['sig_table'] = {str(k[0].__name__) + '.' + k[1]: v for k, v in _sigs().table.items()}


def sweep(ctx):
    q = ctx.quick
    progs = _programs(ctx, 420 if q else 3000, 20 if q else 200)
    args = _cases(ctx, progs, 120 if q else 600, per_prog=2 if q else 4)
    base_args, env_args, envs, missing = _env_cases(ctx, progs, 80 if q else 150, 4 if q else 8)
    kw_base = base_args[:12 if q else 40]
    kw_args = [a + (None, c) for c in _kw_lattice() for a in kw_base]
    allargs = args + base_args + env_args + kw_args
    results = L.fork_map(_run_case, allargs, nchunks=48)      # few chunks: a fresh process (fork) per chunk is costly
    n0, n1 = len(args), len(args) + len(base_args)
    _judge(ctx, results[:n1])
    n2 = n1 + len(env_args)
    _judge(ctx, results[n1:n2], name='oracle under non-default caller options', model=False)
    _judge_env(ctx, results[n0:n1], results[n1:n2], _option_tables()['refused'])
    _judge(ctx, results[n2:], name='oracle under every presence combination of reconcile() parameters', model=False)
    _judge_kw(ctx, results[n0:n1], results[n2:])
    ctx.notes['cases'] = len(args)
    ctx.notes['caller_option_environments'] = [env_name(e) for e in envs]
    if missing:
        ctx.brk('extraction', 'ENV_VALUES', f'global options without a non-default value in the harness: {missing}')


def search(ctx):
    progs = _programs(ctx, 2500, 100)
    hint_args = [(s, sd, m, None) for (s, sd, m) in ctx.hints[:50] if isinstance(s, str)]
    args = hint_args + _cases(ctx, progs, 300, per_prog=3)
    results = L.fork_map(_run_case, args, nchunks=48)
    n = 0
    for res in results:
        for R in res.get('rounds', []):
            n += 1
            muts = R.get('muts') or []
            if 'raised' in R:
                ctx.fail(_sig(R, 'raised:' + R['raised'].split(':')[0]), f'reconcile() raised {R["raised"]} after {muts}',
                         {'src': res['src'], 'seed': res['seed'], 'mode': res['mode'], 'round': R['round'], 'muts': muts})
            for cls, detail in R.get('fails', []):
                ctx.fail(_sig(R, cls), f'{cls} after {muts}: {detail[:300]}',
                         {'src': res['src'], 'seed': res['seed'], 'mode': res['mode'], 'round': R['round'], 'muts': muts,
                          'marked_src': R.get('marked_src'), 'result_src': R.get('result_src')})
    ctx.notes['search_rounds'] = n


def replay(ctx, data):
    w = data.get('witness')
    if not w:
        print('replay file names a broken obligation, not an input:', [b for b in data.get('broken', [])][:3])
        return
    env = w.get('env')
    if env:
        env = {k: (tuple(v) if isinstance(v, list) else v) for k, v in env.items()}
    res = _run_case((w['src'], w.get('seed', 0), w.get('mode', 'normal'), None, env, w.get('kw')))
    if env and w.get('default_src') is not None:
        base = _run_case((w['src'], w.get('seed', 0), w.get('mode', 'normal'), None))
        for Rb, Re in zip(base.get('rounds', []), res.get('rounds', [])):
            if 'result_src' in Rb and 'result_src' in Re and Rb['result_src'] != Re['result_src']:
                ctx.fail('replay', 'result source depends on the caller options ' + env_name(env), w)
    for R in res.get('rounds', []):
        if 'raised' in R:
            ctx.fail('replay', 'raised ' + R['raised'], w)
        for cls, detail in R.get('fails', []):
            ctx.fail('replay', f'{cls}: {detail}', w)
