"""C14: exhaustive small sources for the six node kinds whose child order interleaves several fields
(Call, ClassDef, Dict, arguments, MatchMapping, Compare).  One tiny program per shape so that a failing shape is its own
minimal witness.  Everything here is plain source text; CPython decides validity (`ast.parse`)."""

from __future__ import annotations

import ast
import itertools

MAXK = 3   # keywords
MAXM = 3   # positional/starred arguments in each gap (before the first keyword, after each keyword)


def _arglists():
    """argument lists with k keywords and m_i arguments in gap i (k, m_i in 0..3): in gap 0 plain, starred or plain-then-
    starred arguments, in later gaps starred only (the grammar allows a positional after a keyword only if starred); the
    last keyword also as `**d` when nothing follows it."""
    out = []
    for k in range(MAXK + 1):
        for ms in itertools.product(range(MAXM + 1), repeat=k + 1):
            gap0s = [[]] if ms[0] == 0 else [
                [f'p{j}' for j in range(ms[0])],
                [f'*s{j}' for j in range(ms[0])],
                [(f'p{j}' if j < ms[0] // 2 else f'*s{j}') for j in range(ms[0])] if ms[0] > 1 else None,
                [(f'*s{j}' if j % 2 == 0 else f'p{j}') for j in range(ms[0])] if ms[0] > 1 else None,
            ]
            for g0 in gap0s:
                if g0 is None:
                    continue
                for last_dstar in ((False, True) if k and ms[-1] == 0 else (False,)):
                    items = list(g0)
                    for i in range(k):
                        items.append('**d' if last_dstar and i == k - 1 else f'k{i}=v{i}')
                        items.extend(f'*a{i}{j}' for j in range(ms[i + 1]))
                    out.append(', '.join(items))
    return out


def call_sources():
    return [f'f({a})' for a in _arglists()]


def classdef_sources():
    out = []
    for a in _arglists():
        out.append(f'class C({a}): pass' if a else 'class C: pass')
    out.append('@d1\n@d2\nclass C[T, *Ts](k0=v0, *a00, *a01, *a02):\n    x = 1\n    y = 2\n')
    out.append('@d1\nclass C[T](*s0, k0=v0, *a00, k1=v1, *a10, *a11, *a12):\n    x = 1\n')
    return out


def dict_sources():
    out = []
    for n in range(5):
        for pat in itertools.product([True, False], repeat=n):
            out.append('x = {' + ', '.join(f'**u{i}' if p else f'k{i}: v{i}' for i, p in enumerate(pat)) + '}')
    return out


def arguments_sources():
    """every combination of the argument groups (posonly, plain, defaults, *vararg or bare *, kwonly with/without
    defaults, **kwarg), as `def` (with some annotations) and as `lambda`"""
    out = []
    for npo in range(3):
        for na in range(3):
            for nd in range(npo + na + 1):
                for star in ('', '*va', '*'):
                    for nko in range(3):
                        if star == '*' and nko == 0:
                            continue
                        if star == '' and nko:
                            continue
                        for kwd in itertools.product([True, False], repeat=nko):
                            for kw in ('', '**kw'):
                                names = [f'p{i}' for i in range(npo)] + [f'a{i}' for i in range(na)]
                                first_d = len(names) - nd
                                parts = [nm + (f'=d{i}' if i >= first_d else '') for i, nm in enumerate(names)]
                                if npo:
                                    parts.insert(npo, '/')
                                if star:
                                    parts.append(star)
                                parts += [f'k{i}' + (f'=e{i}' if d else '') for i, d in enumerate(kwd)]
                                if kw:
                                    parts.append(kw)
                                out.append(', '.join(parts))
    srcs = []
    for i, a in enumerate(out):
        srcs.append(f'def f({a}): pass')
        if i % 3 == 0:
            srcs.append(f'g = lambda {a}: 0' if a else 'g = lambda: 0')
    srcs.append('def f(p0: int = d0, /, a0: str = d1, *va: T, k0: U = e0, k1: V, **kw: W) -> R: pass')
    # every parameter annotated, the def nested in another def and decorated: what a scope walk of the outer scope sees of
    # the inner def (decorators, annotations, defaults, returns) must come in text order in both directions
    import re
    for i, a in enumerate(out):
        ann = re.sub(r'(?<![=\w])([a-z]+\d*)(?=[=,]|$)', lambda m: f'{m.group(1)}: A_{m.group(1)}', a)
        kind = ('def', 'async def')[i % 2]
        srcs.append(f'def outer(x):\n    @deco\n    {kind} inner({ann}) -> ret:\n        hidden\n    return inner\n')
    return srcs


def matchmapping_sources():
    out = []
    for n in range(4):
        for rest in (False, True):
            items = [f'{i}: p{i}' for i in range(n)] + (['**r'] if rest else [])
            out.append('match x:\n    case {' + ', '.join(items) + '}: pass\n')
    out.append('match x:\n    case {"a": [p, *q], "b": {1: r, **s}, **t}: pass\n')
    return out


def compare_sources():
    ops = ['<', '<=', '==', '!=', '>', '>=', 'is', 'is not', 'in', 'not in']
    out = []
    for n in range(1, 5):
        for start in range(0, len(ops), 3):
            out.append('x = a0 ' + ' '.join(f'{ops[(start + i) % len(ops)]} a{i + 1}' for i in range(n)))
    return out


_CACHE = None


def sources():
    """{kind: [source, ...]} — only what CPython parses"""
    global _CACHE
    if _CACHE is None:
        fams = {'Call': call_sources(), 'ClassDef': classdef_sources(), 'Dict': dict_sources(), 'arguments': arguments_sources(),
                'MatchMapping': matchmapping_sources(), 'Compare': compare_sources()}
        _CACHE = {}
        for k, lst in fams.items():
            ok = []
            for s in dict.fromkeys(lst):
                try:
                    ast.parse(s)
                    ok.append(s)
                except SyntaxError:
                    pass
            _CACHE[k] = ok
    return _CACHE


if __name__ == '__main__':
    for k, v in sources().items():
        print(k, len(v), v[len(v) // 2])


# ---------------------------------------------------------------------------------------------------------------------
# every node class x every combination of 0/1/2/3 elements in its list fields and present/absent optional fields,
# built with CPython's ast constructors, unparsed by CPython, kept if the re-parse contains a node of that class with
# exactly these field sizes (so every (class, field) -> (class, field') transition of NEXT/PREV is realised by a program)

def _doc_fields(cls):
    """[(name, base type, kind)] from CPython's class docstring; kind in one|opt|list"""
    d = cls.__doc__ or ''
    if '(' not in d:
        return []
    out = []
    for part in d[d.index('(') + 1:d.rindex(')')].split(','):
        if len(part.split()) != 2:
            return []
        typ, name = part.split()
        out.append((name, typ.rstrip('?*'), 'list' if typ.endswith('*') else 'opt' if typ.endswith('?') else 'one'))
    return out


class _Fill:
    def __init__(self):
        self.n = 0

    def name(self, pre='v'):
        self.n += 1
        return f'{pre}{self.n}'

    def make(self, typ, cls=None, field=None, j=0):
        N = lambda: ast.Name(self.name(), ast.Load())
        if typ == 'expr':
            if cls is ast.JoinedStr:
                return ast.FormattedValue(N(), -1, None) if j % 2 == 0 else ast.Constant('s')
            if cls in (ast.Global, ast.Nonlocal):
                return N()
            return N()
        if typ == 'stmt':
            return ast.Expr(N())
        if typ == 'expr_context':
            return ast.Load()
        if typ == 'identifier':
            return self.name('n')
        if typ == 'int':
            return 0 if field != 'conversion' else -1
        if typ == 'string':
            return None
        if typ == 'constant':
            return 1
        if typ == 'arguments':
            return ast.arguments([], [ast.arg(self.name('a'), None)], None, [], [], None, [])
        if typ == 'arg':
            return ast.arg(self.name('a'), None)
        if typ == 'keyword':
            return ast.keyword(self.name('k'), N())
        if typ == 'alias':
            return ast.alias(self.name('m'), None)
        if typ == 'withitem':
            return ast.withitem(N(), None)
        if typ == 'match_case':
            return ast.match_case(ast.MatchAs(None, self.name('p')), None, [ast.Expr(N())])
        if typ == 'excepthandler':
            return ast.ExceptHandler(N(), None, [ast.Expr(N())])
        if typ == 'comprehension':
            return ast.comprehension(ast.Name(self.name(), ast.Store()), N(), [], 0)
        if typ == 'pattern':
            return ast.MatchAs(None, self.name('p'))
        if typ == 'type_param':
            return ast.TypeVar(self.name('T'), None)
        if typ == 'operator':
            return ast.Add()
        if typ == 'boolop':
            return ast.And()
        if typ == 'unaryop':
            return ast.Not()
        if typ == 'cmpop':
            return ast.Lt()
        raise KeyError(typ)


_NON_AST = ('identifier', 'int', 'string', 'constant', 'type_ignore')


def _wrap(node, fill):
    """a Module containing `node` in a syntactically suitable place"""
    N = lambda: ast.Name(fill.name(), ast.Load())
    P = [ast.Expr(N())]
    if isinstance(node, ast.Module):
        return node
    if isinstance(node, ast.stmt):
        return ast.Module([node], [])
    if isinstance(node, ast.Slice):
        node = ast.Subscript(N(), node, ast.Load())
    if isinstance(node, ast.FormattedValue):
        node = ast.JoinedStr([node])
    if isinstance(node, ast.expr):
        return ast.Module([ast.Expr(node)], [])
    if isinstance(node, ast.MatchStar):
        node = ast.MatchSequence([node])
    if isinstance(node, ast.pattern):
        node = ast.match_case(node, None, P)
    if isinstance(node, ast.match_case):
        return ast.Module([ast.Match(N(), [node])], [])
    if isinstance(node, ast.comprehension):
        return ast.Module([ast.Expr(ast.ListComp(N(), [node]))], [])
    if isinstance(node, ast.ExceptHandler):
        return ast.Module([ast.Try(P, [node], [], [])], [])
    if isinstance(node, ast.arg):
        node = ast.arguments([], [node], None, [], [], None, [])
    if isinstance(node, ast.arguments):
        return ast.Module([ast.FunctionDef('f', node, P, [], None, None, [])], [])
    if isinstance(node, ast.keyword):
        return ast.Module([ast.Expr(ast.Call(N(), [], [node]))], [])
    if isinstance(node, ast.alias):
        return ast.Module([ast.Import([node])], [])
    if isinstance(node, ast.withitem):
        return ast.Module([ast.With([node], P)], [])
    if isinstance(node, ast.type_param):
        return ast.Module([ast.TypeAlias(ast.Name('X', ast.Store()), [node], N())], [])
    return None


def _sizes(node, fields):
    out = []
    for name, typ, kind in fields:
        if typ in _NON_AST and not (kind == 'list' and typ == 'identifier'):
            continue
        v = getattr(node, name, None)
        out.append(len(v) if kind == 'list' else (0 if v is None else 1))
    return out


def generic_sources():
    """{class name: [source]}"""
    import warnings
    out = {}
    skip = (ast.Interactive, ast.Expression, ast.FunctionType, ast.TypeIgnore, ast.Call, ast.arguments)   # Call/arguments: dedicated generators above
    classes = [c for n, c in sorted(vars(ast).items()) if isinstance(c, type) and issubclass(c, ast.AST) and c.__module__ == 'ast'
               and _doc_fields(c) and c not in skip and not c.__subclasses__()]
    for cls in classes:
        fields = _doc_fields(cls)
        if getattr(cls, '_fields', ()) and set(f for f, _, _ in fields) != set(cls._fields):
            continue            # deprecated aliases (Num, Str, ...)
        lists = [f for f in fields if f[2] == 'list' and (f[1] not in _NON_AST or f[1] == 'identifier')]
        sizes = (0, 1, 2, 3) if len(lists) <= 4 else (0, 1, 3)
        axes = []
        for name, typ, kind in fields:
            if kind == 'list' and (typ not in _NON_AST or typ == 'identifier'):
                axes.append(sizes)
            elif kind == 'opt' and typ not in _NON_AST:
                axes.append((0, 1))
            elif kind == 'opt' and typ == 'identifier':
                axes.append((0, 1))
            else:
                axes.append((1,))
        srcs = []
        for combo in itertools.product(*axes):
            fill = _Fill()
            kw = {}
            try:
                for (name, typ, kind), c in zip(fields, combo):
                    if kind == 'list':
                        kw[name] = [fill.make(typ, cls, name, j) for j in range(c)] if typ != 'type_ignore' else []
                    elif kind == 'opt':
                        kw[name] = fill.make(typ, cls, name) if c and typ not in ('string', 'int') else None
                    else:
                        kw[name] = fill.make(typ, cls, name)
                node = cls(**kw)
                mod = _wrap(node, fill)
                if mod is None:
                    break
                with warnings.catch_warnings():
                    warnings.simplefilter('ignore')
                    src = ast.unparse(ast.fix_missing_locations(mod))
                    tree = ast.parse(src)
            except Exception:
                continue
            want = _sizes(node, fields)
            if any(isinstance(n, cls) and _sizes(n, fields) == want for n in ast.walk(tree)):
                srcs.append(src)
        if srcs:
            out[cls.__name__] = list(dict.fromkeys(srcs))
    return out


def extra_sources():
    """hand-written families the product above does not reach: elif chains, nested handlers, decorated generic defs"""
    out = []
    for depth in range(4):
        for els in (False, True):
            s = 'if c0:\n    a0\n' + ''.join(f'elif c{i}:\n    a{i}\n    b{i}\n' for i in range(1, depth + 1)) + ('else:\n    z\n' if els else '')
            out.append(s)
    for star in ('', '*'):
        for nh in range(4):
            for els in (False, True):
                for fin in (False, True):
                    if not nh and (els or not fin):
                        continue
                    s = 'try:\n    a\n    b\n' + ''.join(f'except{star} E{i} as e{i}:\n    h{i}\n    g{i}\n' for i in range(nh)) \
                        + ('else:\n    o1\n    o2\n' if els else '') + ('finally:\n    f1\n    f2\n' if fin else '')
                    out.append(s)
    for nd in range(3):
        for ntp in range(3):
            decos = ''.join(f'@d{i}\n' for i in range(nd))
            tps = '[' + ', '.join(['T: int', '*Ts', '**P'][:ntp]) + ']' if ntp else ''
            out.append(f'{decos}def f{tps}(a, b=1) -> r:\n    x\n    y\n')
            out.append(f'{decos}async def f{tps}():\n    x\n')
            out.append(f'{decos}class C{tps}(B, *S, k=v, **kw):\n    x\n    y\n')
    for ng in range(1, 4):
        for ni in range(4):
            gens = ' '.join(f'for t{g} in i{g} ' + ' '.join(f'if c{g}{j}' for j in range(ni)) for g in range(ng))
            out += [f'x = [e {gens}]', f'x = {{k: v {gens}}}', f'x = (e {gens})', f'x = {{e {gens}}}']
    for n in range(1, 4):
        out.append('with ' + ', '.join(f'c{i} as t{i}' if i % 2 else f'c{i}' for i in range(n)) + ':\n    x\n')
        out.append('async def f():\n    async with ' + ', '.join(f'c{i} as t{i}' for i in range(n)) + ':\n        x\n')
    for n in range(4):
        out.append('x = f"' + ''.join(f'{{v{i}!r:>{{w{i}}}}} t{i} ' for i in range(n)) + '"')
    ok = []
    for s in out:
        try:
            ast.parse(s)
            ok.append(s)
        except SyntaxError:
            pass
    return ok


_CACHE2 = None


def transition_sources():
    """{family: [source]} — generic product + hand-written families"""
    global _CACHE2
    if _CACHE2 is None:
        _CACHE2 = generic_sources()
        _CACHE2['families'] = extra_sources()
    return _CACHE2
