"""C14: exhaustive small sources for the six node kinds whose child order interleaves several fields
(Call, ClassDef, Dict, arguments, MatchMapping, Compare).  One tiny program per shape so that a failing shape is its own
minimal witness.  Everything here is plain source text; CPython decides validity (`ast.parse`)."""

from __future__ import annotations

import ast
import itertools

MAXK = 3   # keywords
MAXM = 3   # positional/starred arguments in each gap (before the first keyword, after each keyword)


def _arglists():
    """argument lists with k keywords and m_i arguments in gap i (k, m_i in 0..3): in gap 0 plain, starred or plain-then-
    starred arguments, in later gaps starred only (the grammar allows a positional after a keyword only if starred); the
    last keyword also as `**d` when nothing follows it."""
    out = []
    for k in range(MAXK + 1):
        for ms in itertools.product(range(MAXM + 1), repeat=k + 1):
            gap0s = [[]] if ms[0] == 0 else [
                [f'p{j}' for j in range(ms[0])],
                [f'*s{j}' for j in range(ms[0])],
                [(f'p{j}' if j < ms[0] // 2 else f'*s{j}') for j in range(ms[0])] if ms[0] > 1 else None,
                [(f'*s{j}' if j % 2 == 0 else f'p{j}') for j in range(ms[0])] if ms[0] > 1 else None,
            ]
            for g0 in gap0s:
                if g0 is None:
                    continue
                for last_dstar in ((False, True) if k and ms[-1] == 0 else (False,)):
                    items = list(g0)
                    for i in range(k):
                        items.append('**d' if last_dstar and i == k - 1 else f'k{i}=v{i}')
                        items.extend(f'*a{i}{j}' for j in range(ms[i + 1]))
                    out.append(', '.join(items))
    return out


def call_sources():
    return [f'f({a})' for a in _arglists()]


def classdef_sources():
    out = []
    for a in _arglists():
        out.append(f'class C({a}): pass' if a else 'class C: pass')
    out.append('@d1\n@d2\nclass C[T, *Ts](k0=v0, *a00, *a01, *a02):\n    x = 1\n    y = 2\n')
    out.append('@d1\nclass C[T](*s0, k0=v0, *a00, k1=v1, *a10, *a11, *a12):\n    x = 1\n')
    return out


def dict_sources():
    out = []
    for n in range(5):
        for pat in itertools.product([True, False], repeat=n):
            out.append('x = {' + ', '.join(f'**u{i}' if p else f'k{i}: v{i}' for i, p in enumerate(pat)) + '}')
    return out


def arguments_sources():
    """every combination of the argument groups (posonly, plain, defaults, *vararg or bare *, kwonly with/without
    defaults, **kwarg), as `def` (with some annotations) and as `lambda`"""
    out = []
    for npo in range(3):
        for na in range(3):
            for nd in range(npo + na + 1):
                for star in ('', '*va', '*'):
                    for nko in range(3):
                        if star == '*' and nko == 0:
                            continue
                        if star == '' and nko:
                            continue
                        for kwd in itertools.product([True, False], repeat=nko):
                            for kw in ('', '**kw'):
                                names = [f'p{i}' for i in range(npo)] + [f'a{i}' for i in range(na)]
                                first_d = len(names) - nd
                                parts = [nm + (f'=d{i}' if i >= first_d else '') for i, nm in enumerate(names)]
                                if npo:
                                    parts.insert(npo, '/')
                                if star:
                                    parts.append(star)
                                parts += [f'k{i}' + (f'=e{i}' if d else '') for i, d in enumerate(kwd)]
                                if kw:
                                    parts.append(kw)
                                out.append(', '.join(parts))
    srcs = []
    for i, a in enumerate(out):
        srcs.append(f'def f({a}): pass')
        if i % 3 == 0:
            srcs.append(f'g = lambda {a}: 0' if a else 'g = lambda: 0')
    srcs.append('def f(p0: int = d0, /, a0: str = d1, *va: T, k0: U = e0, k1: V, **kw: W) -> R: pass')
    return srcs


def matchmapping_sources():
    out = []
    for n in range(4):
        for rest in (False, True):
            items = [f'{i}: p{i}' for i in range(n)] + (['**r'] if rest else [])
            out.append('match x:\n    case {' + ', '.join(items) + '}: pass\n')
    out.append('match x:\n    case {"a": [p, *q], "b": {1: r, **s}, **t}: pass\n')
    return out


def compare_sources():
    ops = ['<', '<=', '==', '!=', '>', '>=', 'is', 'is not', 'in', 'not in']
    out = []
    for n in range(1, 5):
        for start in range(0, len(ops), 3):
            out.append('x = a0 ' + ' '.join(f'{ops[(start + i) % len(ops)]} a{i + 1}' for i in range(n)))
    return out


_CACHE = None


def sources():
    """{kind: [source, ...]} — only what CPython parses"""
    global _CACHE
    if _CACHE is None:
        fams = {'Call': call_sources(), 'ClassDef': classdef_sources(), 'Dict': dict_sources(), 'arguments': arguments_sources(),
                'MatchMapping': matchmapping_sources(), 'Compare': compare_sources()}
        _CACHE = {}
        for k, lst in fams.items():
            ok = []
            for s in dict.fromkeys(lst):
                try:
                    ast.parse(s)
                    ok.append(s)
                except SyntaxError:
                    pass
            _CACHE[k] = ok
    return _CACHE


if __name__ == '__main__':
    for k, v in sources().items():
        print(k, len(v), v[len(v) // 2])
