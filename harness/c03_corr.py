"""C03 correspondence: Lean model (Pfst.Index / Pfst.View / Pfst.Virt) against the real pfst functions."""

from __future__ import annotations

import ast
import contextlib
import random

VALS = list(range(-9, 10)) + ['end']


# ---- (1) fixup_one_index / fixup_slice_indices: exhaustive ----------------------------------------------------------

def index_cases():
    from fst.fst_misc import fixup_one_index, fixup_slice_indices
    cases, impl = [], []
    for n in range(7):
        for sa in (0, 1):
            for i in VALS:
                cases.append({'f': 'C03.fixup_one', 'len': n, 'idx': i, 'start_at': sa})
                try:
                    impl.append(fixup_one_index(n, i, sa))
                except IndexError:
                    impl.append('IndexError')
                except Exception as e:
                    impl.append(type(e).__name__)
            for a in VALS:
                for b in VALS:
                    cases.append({'f': 'C03.fixup_slice', 'len': n, 'start': a, 'stop': b, 'start_at': sa})
                    try:
                        impl.append(list(fixup_slice_indices(n, a, b, sa)))
                    except IndexError:
                        impl.append('IndexError')
                    except Exception as e:
                        impl.append(type(e).__name__)
    return cases, impl


# ---- (2) entry point normalisation: spy on the private calls ---------------------------------------------------------

class _Rec(Exception):
    def __init__(self, rec):
        self.rec = rec


@contextlib.contextmanager
def spied(handlers):
    """temporarily replace FST._put_slice/_put_one/_get_slice/_get_one (class attributes of the imported module)"""
    from fst import FST
    saved = {k: FST.__dict__[k] for k in handlers}
    try:
        for k, v in handlers.items():
            setattr(FST, k, v)
        yield
    finally:
        for k, v in saved.items():
            setattr(FST, k, v)


def _rec_put_slice(self, code, start, stop, field, one=False, options={}):
    raise _Rec({'k': 'slice', 's': start, 'e': stop, 'f': field, 'one': one})


def _rec_get_slice(self, start, stop, field, cut, options):
    raise _Rec({'k': 'slice', 's': start, 'e': stop, 'f': field, 'one': None})


def _rec_put_one(self, code, idx, field, options={}, ret_child=True, force_modifying=False):
    raise _Rec({'k': 'one', 'i': idx, 'f': field})


def _rec_get_one(self, idx, field, cut, options):
    raise _Rec({'k': 'one', 'i': idx, 'f': field})


ARGV = [None, 'end', 'elts', 0, 1, 2, 3, 5, -1, -2, -4, -7]
ONES = [True, False, None]


def _entry_shapes(rng, n_random):
    """(entry, args tuple as passed, one) - exhaustive for the three positional slots over a small value set"""
    out = []
    idxv = [v for v in ARGV if v is not None]
    for a in ARGV:
        for b in ARGV:
            for f in (None, 'elts'):
                for one in ONES:
                    out.append(('put', (a, b, f), one))
                out.append(('get', (a, b, f), None))
    for a in idxv:
        for b in idxv:
            for f in (None, 'elts'):
                for one in ONES:
                    out.append(('put_slice', (a, b, f), one))
                out.append(('get_slice', (a, b, f), None))
    for a in idxv:
        for f in (None, 'elts'):
            for one in ONES:
                out.append(('insert', (a, f), one))
    for f in (None, 'elts'):
        out.append(('append', (f,), True))
        out.append(('prepend', (f,), True))
        for one in (False, None):
            out.append(('extend', (f,), one))
            out.append(('prextend', (f,), one))
    for _ in range(n_random):
        e = rng.choice(['put', 'put_slice', 'insert', 'get', 'get_slice'])
        r = lambda: rng.choice(['end', 'elts', rng.randint(-9, 9), rng.randint(-9, 9)] + ([None] if e in ('put', 'get') else []))
        if e == 'insert':
            out.append((e, (r(), rng.choice([None, 'elts'])), rng.choice(ONES)))
        else:
            out.append((e, (r(), r(), rng.choice([None, 'elts'])), rng.choice(ONES) if e.startswith('put') else None))
    return out


def entry_cases(rng, n_random, lens=(0, 1, 3, 4)):
    from fst import FST
    from fst.fst_misc import fixup_one_index, fixup_slice_indices
    cases, impl = [], []
    shapes = _entry_shapes(rng, n_random)
    handlers = {'_put_slice': _rec_put_slice, '_put_one': _rec_put_one, '_get_slice': _rec_get_slice, '_get_one': _rec_get_one}
    with spied(handlers):
        for n in lens:
            node = FST('[' + ', '.join('abcdef'[:n]) + ']')
            assert node.a.__class__ is ast.List and len(node.a.elts) == n
            for entry, args, one in shapes:
                cases.append({'f': 'C03.canon', 'entry': entry, 'args': list(args), 'one': one, 'len': n, 'start_at': 0})
                try:
                    m = getattr(node, entry)
                    if entry in ('put', 'put_slice'):
                        m('x', *args, one=one)
                    elif entry in ('get', 'get_slice'):
                        m(*args)
                    elif entry == 'insert':
                        m('x', *args, one=one)
                    elif entry in ('append', 'prepend'):
                        m('x', *args)
                    else:
                        m('x', *args, one=one)
                    rec = {'k': 'returned'}
                except _Rec as r:
                    rec = r.rec
                except ValueError:
                    rec = {'k': 'ValueError'}
                except Exception as e:
                    rec = {'k': type(e).__name__}
                # resolved indices with the real fixup functions
                res = 'IndexError'
                try:
                    if rec['k'] == 'slice':
                        res = list(fixup_slice_indices(n, rec['s'], rec['e']))
                    elif rec['k'] == 'one':
                        j = fixup_one_index(n, rec['i'])
                        res = list(fixup_slice_indices(n, j, j + 1))
                except IndexError:
                    res = 'IndexError'
                # the model leaves an omitted field omitted; the implementation has resolved it to the default field
                impl.append({'canon': rec, 'resolved': res})
    return cases, impl


def canon_norm(model_out):
    """model output with an omitted field resolved to List's default field 'elts' (what fixup_field_body does)"""
    if isinstance(model_out, dict) and 'canon' in model_out:
        c = dict(model_out['canon'])
        if c.get('k') in ('slice', 'one') and c.get('f') is None:
            c['f'] = 'elts'
        return {'canon': c, 'resolved': model_out['resolved']}
    return model_out


# ---- (3) view arithmetic ----------------------------------------------------------------------------------------------

def _sim_put_slice(self, code, start, stop, field, one=False, options={}):
    """simulated edit: plain list slice assignment of `code` (an int: number of new elements) - no pfst machinery"""
    from fst.fst_misc import fixup_slice_indices
    _SIM_LOG.append(['slice', start, stop])
    body = getattr(self.a, field)
    s, e = fixup_slice_indices(len(body), start, stop)
    k = 0 if code is None else code
    body[s:e] = [ast.Name('n', ast.Load()) for _ in range(k)]
    return self


def _sim_put_one(self, code, idx, field, options={}, ret_child=True, force_modifying=False):
    _SIM_LOG.append(['one', idx])
    body = getattr(self.a, field)
    if code is None:
        del body[idx]
    else:
        body[idx] = ast.Name('n', ast.Load())
    return self


_SIM_LOG = []


def view_cases(rng, n):
    from fst import FST
    from fst.view import FSTView
    cases, impl = [], []
    ops = ['base', 'get', 'set', 'del', 'replace', 'insert', 'append', 'extend', 'prepend', 'prextend']
    with spied({'_put_slice': _sim_put_slice, '_put_one': _sim_put_one}):
        for _ in range(n):
            ln = rng.randint(0, 6)
            node = FST('[' + ', '.join('abcdef'[:ln]) + ']')
            st = rng.randint(0, 8)
            sp = rng.choice([None, None, rng.randint(0, 8), rng.randint(0, 8)])
            v = FSTView(node, 'elts', st, sp)
            op = rng.choice(ops)
            k = rng.choice([0, 1, 2, 3])
            key = None
            idx = None
            if op in ('get', 'set', 'del'):
                if rng.random() < 0.4:
                    key = rng.randint(-8, 8)
                else:
                    key = [rng.choice([None, rng.randint(-8, 8)]), rng.choice([None, rng.randint(-8, 8)])]
            if op == 'insert':
                idx = rng.choice(['end', rng.randint(-9, 9)])
            del _SIM_LOG[:]
            pk = slice(*key) if isinstance(key, list) else key
            try:
                if op == 'base':
                    a, b, _ = v._base_indices()
                    out = [a, b, [v._start, v._stop]]
                elif op == 'get':
                    r = v[pk]
                    if isinstance(r, FSTView):
                        out = {'view': [r._start, r._stop]}
                    else:
                        out = {'item': node.a.elts.index(r.a)}
                else:
                    if op == 'set':
                        if isinstance(key, int):
                            k = 1
                        if rng.random() < 0.35:
                            k = None            # `view[i] = None` / `view[a:b] = None` : the documented delete forms
                        v[pk] = k
                    elif op == 'del':
                        del v[pk]
                    elif op == 'replace':
                        v.replace(k)
                    elif op == 'insert':
                        v.insert(k, idx)
                    elif op == 'append':
                        k = 1
                        v.append(k)
                    elif op == 'extend':
                        v.extend(k)
                    elif op == 'prepend':
                        k = 1
                        v.prepend(k)
                    elif op == 'prextend':
                        v.prextend(k)
                    rec = _SIM_LOG[0]
                    if rec[0] == 'slice':
                        out = {'s': rec[1], 'e': rec[2], 'single': False, 'view': [v._start, v._stop]}
                    else:
                        out = {'s': rec[1], 'e': rec[1] + 1, 'single': True, 'view': [v._start, v._stop]}
            except IndexError:
                out = 'IndexError'
            c = {'f': 'C03.view', 'start': st, 'stop': sp, 'len': ln, 'op': op, 'len_after': len(node.a.elts)}
            if key is not None:
                c['key'] = key
            if idx is not None:
                c['idx'] = idx
            cases.append(c)
            impl.append(out)
    return cases, impl


def _apply_view_op(v, op, node):
    """run one mutating view operation `op` = (name, params...) on the real view `v`"""
    name = op[0]
    if name == 'set':
        v[slice(*op[1]) if isinstance(op[1], list) else op[1]] = op[2]
    elif name == 'del':
        del v[slice(*op[1]) if isinstance(op[1], list) else op[1]]
    elif name == 'replace':
        v.replace(op[1])
    elif name == 'remove':
        v.remove()
    elif name == 'insert':
        v.insert(op[2], op[1])
    elif name in ('append', 'prepend'):
        getattr(v, name)(1)
    else:
        getattr(v, name)(op[1])


def _view_ops_small():
    """the mutating operations with a small deterministic parameter set"""
    ops = []
    for i in (0, -1, 1):
        ops.append(('set', i, 1))
        ops.append(('set', i, None))
        ops.append(('del', i))
    for sl in ([None, None], [1, None], [None, -1], [0, 1], [1, 1]):
        for k in (None, 0, 2):
            ops.append(('set', sl, k))
        ops.append(('del', sl))
    for k in (0, 1, 2):
        ops.append(('replace', k))
        ops.append(('extend', k))
        ops.append(('prextend', k))
    ops.append(('remove',))
    ops.append(('append',))
    ops.append(('prepend',))
    for i in (0, 1, -1, 'end', 7):
        ops.append(('insert', i, 1))
    return ops


def _model_case(op, st, sp, ln, la):
    name = op[0]
    c = {'f': 'C03.view', 'start': st, 'stop': sp, 'len': ln, 'len_after': la}
    if name in ('set', 'del'):
        c['op'] = name
        c['key'] = op[1]
    elif name == 'remove':
        c['op'] = 'replace'
    elif name == 'insert':
        c['op'] = 'insert'
        c['idx'] = op[1]
    else:
        c['op'] = name
    return c


def view_history_cases(rng, n_random, full_product):
    """Multi-step histories on the SAME view object, bounded views created by slicing included.  Deterministic first:
    product of field lengths x windows x pairs of operations; then random longer histories.  After every step the
    indices handed to the base node, the view's (_start, _stop), len(view) and the elements it shows are compared with the
    model (pre-state of each step = the real view's state, so the first diverging step is the one reported)."""
    from fst import FST
    cases, impl = [], []
    ops = _view_ops_small()

    def run(ln, w0, w1, hist):
        node = FST('[' + ', '.join('abcdef'[:ln]) + ']')
        v = node.elts if w0 is None else node.elts[w0:w1]
        for op in hist:
            st, sp = v._start, v._stop
            before = len(node.a.elts)
            del _SIM_LOG[:]
            try:
                _apply_view_op(v, op, node)
                rec = _SIM_LOG[0] if _SIM_LOG else None
                if rec is None:
                    out = 'no-call'
                elif rec[0] == 'slice':
                    out = {'s': rec[1], 'e': rec[2], 'single': False, 'view': [v._start, v._stop]}
                else:
                    out = {'s': rec[1], 'e': rec[1] + 1, 'single': True, 'view': [v._start, v._stop]}
            except IndexError:
                out = 'IndexError'
            cases.append(_model_case(op, st, sp, before, len(node.a.elts)))
            impl.append(out)
            # the window the view shows now, against the model's `base` of the view state it now has
            a, b, _ = v._base_indices()
            cases.append({'f': 'C03.view', 'start': v._start if False else a, 'stop': b, 'len': len(node.a.elts), 'op': 'base'})
            impl.append([a, b, [a, b]])
            if len(v) != b - a or a > b or b > len(node.a.elts):
                cases.append({'f': 'C03.view', 'start': a, 'stop': b, 'len': len(node.a.elts), 'op': 'base'})
                impl.append('ill-formed window')

    with spied({'_put_slice': _sim_put_slice, '_put_one': _sim_put_one}):
        lens = (4,) if not full_product else (2, 3, 4, 5)
        for ln in lens:
            wins = [(None, None)] + [(a, b) for a in range(ln + 1) for b in range(a, ln + 1)]
            if not full_product:
                wins = [(None, None), (1, 3), (0, 2), (1, 4), (2, 2), (1, 2), (0, 0), (0, 1)]
            for w0, w1 in wins:
                for o1 in ops:
                    for o2 in ops:
                        run(ln, w0, w1, [o1, o2])
        for _ in range(n_random):
            ln = rng.randint(0, 6)
            a = rng.randint(0, ln)
            b = rng.randint(a, ln)
            run(ln, a, b, [rng.choice(ops) for _ in range(rng.randint(3, 5))])
    return cases, impl


# ---- (3b) str NAME indexing of views -------------------------------------------------------------------------------------

def name_cases(rng, n_random):
    """`view._fixup_item_indices('name')` on body / _body views (whole and every sub-window, with and without docstring) of
    Module / FunctionDef / ClassDef / If whose statements are defs, classes and plain statements; deterministic product
    first.  Compared with Pfst.View.nameItem (index relative to the window, docstring offset for `_body`)."""
    from fst import FST
    cases, impl = [], []

    def run(hdr, doc, kinds, field, w0, w1, name):
        body = (['"""doc"""'] if doc else [])
        names = [None] if doc else []
        for i, k in enumerate(kinds):
            if k == 'd':
                body.append(f'def n{i}(): pass')
                names.append(f'n{i}')
            elif k == 'c':
                body.append(f'class n{i}: pass')
                names.append(f'n{i}')
            elif k == 'a':
                body.append(f'async def n{i}(): pass')
                names.append(f'n{i}')
            else:
                body.append(f's{i} = {i}')
                names.append(None)
        if hdr is None:
            root = FST('\n'.join(body), 'exec')
            node = root
        else:
            node = FST(hdr + '\n' + '\n'.join('    ' + b for b in body), 'exec').body[0]
        v = getattr(node, field)
        if w0 is not None:
            v = v[w0:w1]
        off = 1 if (doc and field == '_body') else 0
        c = {'f': 'C03.view_name', 'start': v._start, 'stop': v._stop, 'names': names, 'off': off, 'name': name}
        try:
            r = v._fixup_item_indices(name)
            out = {'item': r[3]} if isinstance(r[3], int) else 'non-direct'
        except IndexError:
            out = 'IndexError'
        cases.append(c)
        impl.append(out)

    shapes = ['d', 'sd', 'ds', 'sds', 'dcs', 'sdca', 'dsds']
    for hdr in (None, 'def f():', 'class C:'):
        for doc in (False, True):
            for kinds in shapes:
                for field in ('body', '_body'):
                    n = len(kinds) + (1 if doc and field == 'body' else 0)
                    wins = [(None, None)] + [(a, b) for a in range(n + 1) for b in range(a, n + 1)]
                    for w0, w1 in wins:
                        for i in range(len(kinds)):
                            run(hdr, doc, kinds, field, w0, w1, f'n{i}')
    for _ in range(n_random):
        kinds = ''.join(rng.choice('dcas') for _ in range(rng.randint(1, 6)))
        doc = rng.random() < 0.5
        field = rng.choice(['body', '_body'])
        n = len(kinds) + (1 if doc and field == 'body' else 0)
        a = rng.randint(0, n)
        b = rng.randint(a, n)
        hdr = rng.choice([None, 'def f():', 'class C:', 'if x:', 'for i in j:'])
        if hdr in ('if x:', 'for i in j:'):
            doc = False             # not docstring holders: `_body` is the plain `body` there
            b = min(b, len(kinds))
            a = min(a, b)
        run(hdr, doc, kinds, field, a, b, f'n{rng.randrange(len(kinds))}')
    return cases, impl


# ---- (4) virtual field maps on generated nodes ------------------------------------------------------------------------

def _args_src(np_, na, nd, nv, nk, kwd, nw):
    parts = []
    npa = np_ + na
    names = [f'p{i}' for i in range(np_)] + [f'a{i}' for i in range(na)]
    for i, nm in enumerate(names):
        d = i - (npa - nd)
        parts.append(nm + (f'={d}' if d >= 0 else ''))
        if i == np_ - 1:
            parts.append('/')
    if nv:
        parts.append('*v')
    elif nk:
        parts.append('*')
    for i in range(nk):
        parts.append(f'k{i}' + (f'={100 + i}' if kwd[i] else ''))
    if nw:
        parts.append('**w')
    return 'def f(' + ', '.join(parts) + '): pass'


def virt_cases(rng, n):
    from fst import FST
    cases, impl = [], []
    for _ in range(n):
        kind = rng.choice(['arguments', 'merge', 'mapping', 'compare', 'attrs', 'body', 'arguments', 'merge'])
        if kind == 'arguments':
            np_, na = rng.randint(0, 2), rng.randint(0, 3)
            nd = rng.randint(0, np_ + na)
            nv, nw = rng.random() < 0.4, rng.random() < 0.4
            nk = rng.randint(0, 2)
            kwd = [rng.random() < 0.5 for _ in range(nk)]
            src = _args_src(np_, na, nd, nv, nk, kwd, nw)
            fa = FST(src, 'exec').body[0].args
            allv = []
            nall = len(fa._all)
            for i in range(nall):
                a = fa.get_slice(i, i + 1, '_all').a
                if a.posonlyargs:
                    k, nm, d = 'posonly', a.posonlyargs[0].arg, (a.defaults[0].value if a.defaults else None)
                    tag = int(nm[1:])
                elif a.args:
                    k, nm, d = 'arg', a.args[0].arg, (a.defaults[0].value if a.defaults else None)
                    tag = 100 + int(nm[1:])
                elif a.vararg:
                    k, tag, d = 'vararg', 200, None
                elif a.kwonlyargs:
                    k, nm = 'kwonly', a.kwonlyargs[0].arg
                    tag = 300 + int(nm[1:])
                    d = a.kw_defaults[0].value if a.kw_defaults[0] is not None else None
                else:
                    k, tag, d = 'kwarg', 400, None
                allv.append([k, tag, d])
            cases.append({'f': 'C03.virt', 'kind': 'arguments', 'np': np_, 'na': na, 'nd': nd, 'nv': nv, 'nk': nk,
                          'kwd': kwd, 'nw': nw})
            impl.append({'len': nall, 'all': allv, 'roundtrip': True})
        elif kind == 'merge':
            # a call with positional / starred / keyword / ** arguments in any order Python accepts, over several lines
            items = []
            ne = rng.randint(0, 4)
            nkw = rng.randint(0, 4)
            seq = ['e'] * ne + ['k'] * nkw
            rng.shuffle(seq)
            # valid Python: after a `**kw` or `k=v` only `*x` starred positionals may follow, never plain ones
            seen_kw = False
            parts = []
            ei = ki = 0
            for t in seq:
                if t == 'e':
                    parts.append((f'*e{ei}' if seen_kw or rng.random() < 0.3 else f'e{ei}'))
                    ei += 1
                else:
                    seen_kw = True
                    parts.append(f'k{ki}=v{ki}' if rng.random() < 0.7 else f'**k{ki}')
                    ki += 1
            # `*x` after `**k` is a syntax error: fall back to sorted order if CPython refuses
            sep = lambda: rng.choice([', ', ',\n  ', ',  '])
            src = 'f(' + ''.join(p + sep() for p in parts) + ')'
            try:
                ast.parse(src)
            except SyntaxError:
                continue
            which = rng.random() < 0.5
            if which:
                node = FST(src, 'exec').body[0].value
                vf, rf = '_args', 'args'
            else:
                src = 'class C(' + src[2:] + ': pass'
                try:
                    ast.parse(src)
                except SyntaxError:
                    continue
                node = FST(src, 'exec').body[0]
                vf, rf = '_bases', 'bases'
            a = node.a
            ex, kw = getattr(a, rf), a.keywords
            view = getattr(node, vf)
            got = []
            for i in range(len(view)):
                x = view[i].a
                got.append(['e', [id(y) for y in ex].index(id(x))] if any(x is y for y in ex) else ['k', [id(y) for y in kw].index(id(x))])
            cases.append({'f': 'C03.virt', 'kind': 'merge', 'exprs': [[x.lineno, x.col_offset] for x in ex],
                          'kws': [[x.lineno, x.col_offset] for x in kw]})
            impl.append(got)
        elif kind == 'mapping':
            if rng.random() < 0.5:
                nk = rng.randint(0, 4)
                star = [rng.random() < 0.3 for _ in range(nk)]
                src = '{' + ', '.join((f'**v{i}' if star[i] else f'k{i}: v{i}') for i in range(nk)) + '}'
                d = FST(src, 'exec').body[0].value
                allv = []
                for i in range(len(d._all)):
                    s = d.get_slice(i, i + 1, '_all').a
                    ki = None if s.keys[0] is None else int(s.keys[0].id[1:])
                    vi = int(s.values[0].id[1:])
                    # element i must be (keys[i], values[i]); a `**v` entry has no key of its own: tag it with i
                    allv.append(['kv', i if ki is None and star[i] else ki, vi])
                cases.append({'f': 'C03.virt', 'kind': 'mapping', 'nkeys': nk, 'rest': False})
                impl.append({'len': len(d._all), 'all': allv})
            else:
                nk = rng.randint(0, 3)
                rest = rng.random() < 0.5
                parts = [f'{i + 10}: p{i}' for i in range(nk)] + (['**r'] if rest else [])
                src = 'match x:\n case {' + ', '.join(parts) + '}: pass'
                m = FST(src, 'exec').body[0].cases[0].pattern
                allv = []
                for i in range(len(m._all)):
                    s = m.get_slice(i, i + 1, '_all').a
                    if s.keys:
                        allv.append(['kv', s.keys[0].value - 10, int(s.patterns[0].name[1:])])
                    else:
                        allv.append(['rest'])
                cases.append({'f': 'C03.virt', 'kind': 'mapping', 'nkeys': nk, 'rest': rest})
                impl.append({'len': len(m._all), 'all': allv})
        elif kind == 'compare':
            n_ = rng.randint(1, 4)
            src = 'c0 ' + ' '.join(rng.choice(['<', '==', 'is not', 'in']) + f' c{i + 1}' for i in range(n_))
            c = FST(src, 'exec').body[0].value
            allv = []
            for i in range(len(c._all)):
                x = c._all[i].a
                allv.append('left' if x is c.a.left else [id(y) for y in c.a.comparators].index(id(x)))
            cases.append({'f': 'C03.virt', 'kind': 'compare', 'n': n_})
            impl.append({'len': len(c._all), 'all': allv})
        elif kind == 'attrs':
            np_, nk = rng.randint(0, 3), rng.randint(0, 3)
            parts = [f'p{i}' for i in range(np_)] + [f'k{i}=q{i}' for i in range(nk)]
            src = 'match x:\n case C(' + ', '.join(parts) + '): pass'
            m = FST(src, 'exec').body[0].cases[0].pattern
            allv = []
            for i in range(len(m._attrs)):
                s = m.get_slice(i, i + 1, '_attrs').a
                if s.patterns:
                    allv.append([False, int(s.patterns[0].name[1:])])
                else:
                    assert s.kwd_attrs[0][1:] == s.kwd_patterns[0].name[1:]
                    allv.append([True, int(s.kwd_attrs[0][1:])])
            cases.append({'f': 'C03.virt', 'kind': 'attrs', 'np': np_, 'nk': nk})
            impl.append({'len': len(m._attrs), 'all': allv})
        else:
            ln = rng.randint(1, 4)
            doc = rng.random() < 0.5
            body = (['"""doc"""'] if doc else []) + [f's{i}' for i in range(ln - (1 if doc else 0))]
            if not body:
                body = ['s0']
            hdr = rng.choice(['def f():', 'class C:', 'async def g():'])
            src = hdr + '\n' + '\n'.join('    ' + b for b in body)
            f = FST(src, 'exec').body[0]
            allv = []
            for i in range(len(f._body)):
                x = f._body[i].a
                allv.append([id(y) for y in f.a.body].index(id(x)))
            cases.append({'f': 'C03.virt', 'kind': 'body', 'len': len(f.a.body), 'doc': doc})
            impl.append({'len': len(f._body), 'all': allv})
    return cases, impl
