"""C14 extraction: tabulate `syntax_ordered_children`, `NEXT_FUNCS`, `PREV_FUNCS` of the working tree on synthetic parents.

For every node class a family of synthetic `ast` instances ("shapes") is built: every list field with 0..3 elements,
every optional field present/absent, `None` entries in `Dict.keys` / `arguments.kw_defaults`, and for Call / ClassDef
every Python-valid interleaving of positional (plain / starred) and keyword arguments with matching positions.  The
children are sentinel nodes labelled 1..k (field by field in the class's field order, list elements in index order);
`child.f` is a label object, so the generated NEXT/PREV functions (which return `child.f`) can be tabulated.

The field kinds of the classes of module `ast` are read from CPython's class docstrings (independent of pfst); only the
pfst-own classes (`_ExceptHandlers`, ... and the dummies for node types newer than the running Python) use pfst's FIELDS.
"""

from __future__ import annotations

import ast
import itertools
import re

NON_AST_TYPES = ('identifier', 'int', 'string', 'constant', 'type_ignore')
NONE_ENTRIES = {('Dict', 'keys'), ('arguments', 'kw_defaults')}       # list fields that may hold None entries
SPECIAL = ('Call', 'ClassDef', 'arguments')                           # built by dedicated generators
MAXLEN = 3


class Label:
    __slots__ = ('n', 'a')

    def __init__(self, n, a):
        self.n = n
        self.a = a

    def __repr__(self):
        return f'<{self.n}>'


def field_kinds(cls):
    """[(field, kind)] kind in 'one' | 'opt' | 'list' for the fields that hold AST nodes, in the class's field order as
    pfst numbers them (AST_FIELDS order: relatively syntactic); types from CPython's docstring where the class is CPython's."""
    from fst.astutil import FIELDS, AST_FIELDS
    pf = dict(FIELDS[cls])
    kinds = {}
    if cls.__module__ == 'ast' and cls.__doc__ and '(' in cls.__doc__:
        body = cls.__doc__[cls.__doc__.index('(') + 1:cls.__doc__.rindex(')')]
        for part in body.split(','):
            typ, name = part.split()
            base = typ.rstrip('?*')
            if base in NON_AST_TYPES:
                continue
            kinds[name] = 'list' if typ.endswith('*') else 'opt' if typ.endswith('?') else 'one'
    elif cls.__module__ == 'ast':
        kinds = {}
    else:
        for name, typ in FIELDS[cls]:
            base = typ.rstrip('?*')
            if base in NON_AST_TYPES:
                continue
            kinds[name] = 'list' if typ.rstrip('?').endswith('*') or typ.endswith('*') else 'opt' if typ.endswith('?') else 'one'
    order = [f for f in AST_FIELDS[cls] if f in kinds]
    missing = [f for f in kinds if f not in order]
    return [(f, kinds[f]) for f in order + missing]


def _sentinel(n, starred=False, pos=None):
    a = ast.Starred(value=None, ctx=None) if starred else ast.Name(id='s', ctx=None)
    a.lineno = a.end_lineno = 1
    a.col_offset = pos if pos is not None else 10 * n
    a.end_col_offset = a.col_offset + 1
    a.f = Label(n, a)
    return a


def _fill_non_ast(cls, inst):
    from fst.astutil import FIELDS
    for name, typ in FIELDS[cls]:
        base = typ.rstrip('?*')
        if base in NON_AST_TYPES and not hasattr(inst, name):
            try:
                setattr(inst, name, [] if typ.endswith('*') else ('x' if base == 'identifier' else None))
            except Exception:
                pass


def build(cls, spec, stars=None, positions=None):
    """spec: {field: None | True (present) | list of bool (entry present?)} -> (instance, children by label, counts)"""
    try:
        inst = cls()
    except TypeError:                      # pfst's own slice classes have required constructor arguments
        inst = cls.__new__(cls)
    _fill_non_ast(cls, inst)
    kids = []
    counts = []
    n = 0
    for f, kind in field_kinds(cls):
        v = spec.get(f)
        if kind == 'list':
            lst = []
            c = 0
            for j, present in enumerate(v or []):
                if present:
                    n += 1
                    c += 1
                    s = _sentinel(n, bool(stars and stars.get((f, j))), positions.get((f, j)) if positions else None)
                    s._pf = (f, j)
                    lst.append(s)
                    kids.append(s)
                else:
                    lst.append(None)
            setattr(inst, f, lst)
            counts.append(c)
        else:
            if v:
                n += 1
                s = _sentinel(n)
                s._pf = (f, None)
                setattr(inst, f, s)
                kids.append(s)
                counts.append(1)
            else:
                setattr(inst, f, None)
                counts.append(0)
    return inst, kids, counts


def generic_specs(cls):
    fk = field_kinds(cls)
    axes = []
    nlist = sum(1 for _, k in fk if k == 'list')
    mx = MAXLEN if nlist <= 3 else 2
    for f, kind in fk:
        if kind == 'one':
            axes.append([True])
        elif kind == 'opt':
            axes.append([None, True])
        elif (cls.__name__, f) in NONE_ENTRIES:
            axes.append([list(p) for ln in range(mx + 1) for p in itertools.product([True, False], repeat=ln)])
        else:
            axes.append([[True] * ln for ln in range(mx + 1)])
    for combo in itertools.product(*axes):
        yield dict(zip([f for f, _ in fk], combo)), None, None


def _interleavings(na, nk):
    """all merges of na 'a' and nk 'k' as strings"""
    for pos in itertools.combinations(range(na + nk), na):
        s = ['k'] * (na + nk)
        for p in pos:
            s[p] = 'a'
        yield ''.join(s)


def arglike_specs(cls):
    """Call / ClassDef: every Python-valid arrangement of <=3 positional (plain or starred) and <=3 keyword arguments:
    a plain positional argument never follows a keyword."""
    argf = 'args' if cls is ast.Call else 'bases'
    others = [{}] if cls is ast.Call else [
        {'decorator_list': [True] * d, 'type_params': [True] * t, 'body': [True] * b}
        for d, t, b in ((0, 0, 1), (1, 0, 0), (2, 2, 2))]
    for na in range(MAXLEN + 1):
        for nk in range(MAXLEN + 1):
            for il in _interleavings(na, nk):
                for starpat in itertools.product([False, True], repeat=na):
                    ai = 0
                    ok = True
                    seen_k = False
                    for ch in il:
                        if ch == 'k':
                            seen_k = True
                        else:
                            if seen_k and not starpat[ai]:
                                ok = False
                            ai += 1
                    if not ok:
                        continue
                    positions = {}
                    ai = ki = 0
                    for p, ch in enumerate(il):
                        if ch == 'a':
                            positions[(argf, ai)] = 100 + 10 * p
                            ai += 1
                        else:
                            positions[('keywords', ki)] = 100 + 10 * p
                            ki += 1
                    stars = {(argf, j): s for j, s in enumerate(starpat)}
                    for o in others:
                        spec = {'func': True, argf: [True] * na, 'keywords': [True] * nk, **o}
                        yield spec, stars, positions


def arguments_specs():
    for npo in range(3):
        for na in range(MAXLEN + 1 if npo < 2 else MAXLEN):
            for nd in range(npo + na + 1):
                for va in (None, True):
                    for nko in range(MAXLEN):
                        for kwd in itertools.product([True, False], repeat=nko):
                            for kw in (None, True):
                                yield ({'posonlyargs': [True] * npo, 'args': [True] * na, 'defaults': [True] * nd, 'vararg': va,
                                        'kwonlyargs': [True] * nko, 'kw_defaults': list(kwd), 'kwarg': kw}, None, None)


def compare_specs():
    for n in range(MAXLEN + 1):        # only the normal shape len(ops) == len(comparators): NEXT/PREV assume it
        yield {'left': True, 'ops': [True] * n, 'comparators': [True] * n}, None, None


def zip_specs(cls, kf, vf, extra=()):
    for n in range(MAXLEN + 1):
        pats = itertools.product([True, False], repeat=n) if (cls.__name__, kf) in NONE_ENTRIES else [[True] * n]
        for pat in pats:
            yield {kf: list(pat), vf: [True] * n}, None, None


def specs_for(cls):
    if cls is ast.Call or cls is ast.ClassDef:
        return arglike_specs(cls)
    if cls is ast.arguments:
        return arguments_specs()
    if cls is ast.Compare:
        return compare_specs()
    if cls is ast.Dict:
        return zip_specs(cls, 'keys', 'values')
    if cls is ast.MatchMapping:
        return zip_specs(cls, 'keys', 'patterns')
    return generic_specs(cls)


def tabulate():
    """-> (classes, field_order, shapes, tables, problems)"""
    from fst.astutil import syntax_ordered_children, FIELDS
    from fst.traverse_next import NEXT_FUNCS
    from fst.traverse_prev import PREV_FUNCS
    classes = list(FIELDS)
    names = [c.__name__ for c in classes]
    shapes, tables, problems = [], [], []
    static = {}
    for ci, cls in enumerate(classes):
        try:
            fk = field_kinds(cls)
        except Exception as e:
            problems.append(f'{cls.__name__}: field kinds: {e!r}')
            continue
        conforming = True
        order_fields = None
        for spec, stars, positions in specs_for(cls):
            try:
                inst, kids, counts = build(cls, spec, stars, positions)
            except Exception as e:
                if 'standin class' in str(e):      # node type newer than the running Python: not instantiable, not tabulated
                    break
                problems.append(f'{cls.__name__}: cannot build {spec}: {e!r}')
                break
            k = len(kids)
            try:
                order = [c.f.n for c in syntax_ordered_children(inst) if c is not None]
            except Exception as e:
                problems.append(f'{cls.__name__}: syntax_ordered_children raised on {spec}: {e!r}')
                order = []
            nxt, prv = [], []
            for table, out, nm in ((NEXT_FUNCS, nxt, 'NEXT'), (PREV_FUNCS, prv, 'PREV')):
                for who in [None] + kids:
                    field, idx = (None, None) if who is None else who._pf
                    try:
                        r = table[cls, field](inst, idx)
                        out.append(r.n if r else 0)
                    except Exception as e:
                        problems.append(f'{cls.__name__}: {nm}[{field}] raised on {spec} idx {idx}: {e!r}')
                        out.append(99)
            shapes.append([ci, len(counts)] + counts + order)
            tables.append([ci, k] + nxt + prv)
            # static field order?
            offs = [0]
            for c in counts:
                offs.append(offs[-1] + c)
            fld_of = {}
            for fi, c in enumerate(counts):
                for lab in range(offs[fi] + 1, offs[fi + 1] + 1):
                    fld_of[lab] = fi
            fseq = [fld_of.get(l, -1) for l in order]
            dedup = [f for i, f in enumerate(fseq) if i == 0 or fseq[i - 1] != f]
            if all(counts) and all(c == 1 for c in counts):
                order_fields = dedup
            if len(set(dedup)) != len(dedup):
                conforming = False
            static.setdefault(ci, []).append((counts, order, dedup))
        if conforming and order_fields is not None:
            # every shape must be the concatenation of its field blocks in this order
            for counts, order, _ in static[ci]:
                offs = [0]
                for c in counts:
                    offs.append(offs[-1] + c)
                exp = [l for fi in order_fields for l in range(offs[fi] + 1, offs[fi + 1] + 1)]
                if exp != order:
                    conforming = False
                    break
        static[ci] = order_fields if conforming and order_fields is not None else None
    field_order = [(ci, fo) for ci, fo in sorted(static.items()) if fo is not None]
    return names, field_order, shapes, tables, problems


BASE = 128


def enc_row(r):
    """a row of small naturals as ONE natural: little-endian base-128 digits value+1 (digit 0 terminates); big list
    literals are slow to elaborate and compile in Lean, big numerals are not"""
    assert all(0 <= v < BASE - 1 for v in r), r
    return sum((v + 1) * BASE ** i for i, v in enumerate(r))


def lean_enc_rows(name, rows, cut, chunk=200):
    """`def <name>A`, `def <name>B` (rows before / from `cut`) and `def <name> := <name>A ++ <name>B`, each half the
    concatenation of chunks (a literal of thousands of elements exceeds Lean's elaborator recursion depth; two halves so
    that two modules can check them in parallel)"""
    parts = []
    halves = {'A': [], 'B': []}
    for half, rs in (('A', rows[:cut]), ('B', rows[cut:])):
        for ci in range(0, max(len(rs), 1), chunk):
            nm = f'{name}{half}{ci // chunk}'
            halves[half].append(nm)
            parts.append(f'def {nm} : List Nat := [\n  ' + ',\n  '.join(str(enc_row(r)) for r in rs[ci:ci + chunk]) + ']\n')
    txt = '\n'.join(parts)
    for half in 'AB':
        txt += f'\ndef {name}{half} : List Nat := List.flatten [' + ', '.join(halves[half]) + ']\n'
    return txt + f'\ndef {name} : List Nat := {name}A ++ {name}B\n'


def render():
    names, field_order, shapes, tables, problems = tabulate()
    pairs = []
    seen = set()
    for s_, t_ in zip(shapes, tables):          # identical rows (e.g. star patterns that make no difference) once
        key = (tuple(s_), tuple(t_))
        if key not in seen:
            seen.add(key)
            pairs.append((s_, t_))
    shapes = [p[0] for p in pairs]
    tables = [p[1] for p in pairs]
    total = sum(len(r) ** 2 for r in shapes)            # checking cost grows about quadratically with the row length
    acc, cut = 0, len(shapes)
    for i, r in enumerate(shapes):
        acc += len(r) ** 2
        if acc * 2 >= total:
            cut = i + 1
            break
    so = ('-- GENERATED on every run by harness/c14_extract.py from /repo/src/fst/astutil.py (syntax_ordered_children); do not edit\n'
          'import Pfst.TableCheck\n'
          'namespace Pfst.Gen.SyntaxOrder\n\n'
          '/-- node class names; shapes refer to a class by its index here -/\n'
          'def classes : List String := [' + ', '.join(f'"{n}"' for n in names) + ']\n\n'
          '/-- classes whose child order is a fixed order of fields: (class, AST-field indices in syntax order) -/\n'
          'def fieldOrder : List (Nat × List Nat) := [\n  '
          + ',\n  '.join(f'({ci}, [{",".join(map(str, fo))}])' for ci, fo in field_order) + ']\n\n'
          '/-- one row per synthetic parent: [class, nfields, count_1..count_nfields, order...]; the AST children are labelled\n'
          '1..k field by field (list elements in index order, None entries skipped); `order` = labels in the order returned by\n'
          '`syntax_ordered_children`.  Each row is packed into one numeral (`Pfst.TableCheck.decodeRow`). -/\n'
          + lean_enc_rows('shapesEnc', shapes, cut) + '\n'
          'def shapes : List (List Nat) := shapesEnc.map Pfst.TableCheck.decodeRow\n\nend Pfst.Gen.SyntaxOrder\n')
    np_ = ('-- GENERATED on every run by harness/c14_extract.py from /repo/src/fst/traverse_next.py, traverse_prev.py; do not edit\n'
           'import Pfst.TableCheck\n'
           'namespace Pfst.Gen.NextPrev\n\n'
           '/-- aligned with `Pfst.Gen.SyntaxOrder.shapes`: [class, k, next_0..next_k, prev_0..prev_k] where index 0 is START\n'
           '(field None), index i the child labelled i, value 0 = None.  Each row packed into one numeral. -/\n'
           + lean_enc_rows('tablesEnc', tables, cut) + '\n'
           'def tables : List (List Nat) := tablesEnc.map Pfst.TableCheck.decodeRow\n\nend Pfst.Gen.NextPrev\n')
    return so, np_, problems, {'classes': len(names), 'static_classes': len(field_order), 'shapes': len(shapes)}
