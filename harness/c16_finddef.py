"""C16: `FST.find_def()` (the scope entry point built on walk(scope=True)) against the reference scope analysis.

Oracle (plain ast, from the docstring of find_def): in scope S the candidates for a name are the def / class statements
that BELONG to S (directly in its body or inside block statements of it, not inside nested scopes), in source order;
`'def x'` / `'class x'` restrict the kind; a dotted path resolves each part to the FIRST candidate and continues in its
scope; `recurse=False` restricts the candidates of the LAST part to direct children of the scope; `asts=` restricts the
candidates of the FIRST part to those inside the given statements; iterating with `prev_found` enumerates all candidates
of the last part in order.
"""

from __future__ import annotations

import ast

import c16_lib as L


def owned_defs(ref, sc):
    """def/class statements belonging to reference scope `sc`, source order"""
    ds = [m for m in sc.nodes if isinstance(m, L.SCOPE_DEF)]
    ds.sort(key=lambda m: (m.lineno, m.col_offset))
    return ds


def _kind_ok(node, kind):
    if kind == 'def':
        return isinstance(node, L.FUNC_DEF)
    if kind == 'class':
        return isinstance(node, ast.ClassDef)
    return True


def candidates(ref, sc, part, direct_only=False, within=None):
    kind, _, name = part.rpartition(' ')
    out = []
    for d in owned_defs(ref, sc):
        if d.name != name or not _kind_ok(d, kind):
            continue
        if direct_only and not any(d is s for s in getattr(sc.node, 'body', [])):
            continue
        if within is not None and not any(any(d is x for x in ast.walk(w)) for w in within):
            continue
        out.append(d)
    return out


def resolve_all(ref, sc, parts, recurse=True, within=None):
    """every node find_def enumerates for the path (iterating prev_found), per the oracle"""
    for i, p in enumerate(parts[:-1]):
        c = candidates(ref, sc, p, within=within if i == 0 else None)
        if not c:
            return []
        sc = ref.scopes[id(c[0])]
    return candidates(ref, sc, parts[-1], direct_only=not recurse, within=within if len(parts) == 1 else None)


def enumerate_impl(f, path, limit, **kw):
    """iterate find_def with prev_found -> list of FST nodes"""
    out = []
    prev = None
    while True:
        prev = f.find_def(path, prev, **kw)
        if prev is None or len(out) > limit:
            break
        out.append(prev)
    return out


def cases_for(ref, rng, max_cases=24):
    """[(scope, path parts, recurse, asts statements or None, variant)] for one program"""
    out = []
    stmt_scopes = [s for s in ref.order if isinstance(s.node, (ast.Module,) + L.SCOPE_DEF)]
    for sc in stmt_scopes:
        defs = owned_defs(ref, sc)
        names = sorted({d.name for d in defs})
        for nm in names:
            out.append((sc, [nm], True, None, 'plain'))
            out.append((sc, [nm], False, None, 'recurse=False'))
            out.append((sc, ['def ' + nm], True, None, 'kind-prefix'))
            out.append((sc, ['class ' + nm], True, None, 'kind-prefix'))
            body = getattr(sc.node, 'body', [])
            if len(body) > 1:
                i = rng.randrange(len(body))
                j = rng.randrange(i, len(body)) + 1
                out.append((sc, [nm], rng.random() < 0.7, body[i:j], 'asts'))
        # dotted paths two and three levels down
        for d in defs:
            s2 = ref.scopes[id(d)]
            for d2 in owned_defs(ref, s2):
                k = rng.choice(['', '', 'def ', 'class '])
                out.append((sc, [d.name, k + d2.name], rng.random() < 0.8, None, 'dotted'))
                s3 = ref.scopes[id(d2)]
                for d3 in owned_defs(ref, s3)[:2]:
                    out.append((sc, [d.name, d2.name, d3.name], True, None, 'dotted'))
        out.append((sc, ['no_such_name_'], True, None, 'plain'))
    if len(out) > max_cases:
        out = rng.sample(out, max_cases)
    return out
