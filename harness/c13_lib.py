"""C13 helpers: serialisation of (marked, edited) AST pairs for the Lean model Pfst/Reconcile.lean, the run-time recorder of
the real put operations, the pure-AST mutation generator and the per-case runner (model input + real trace + oracles).

Nothing here edits /repo: the recorder wraps FST.put / put_slice / replace / put_src in this process only.
"""

from __future__ import annotations

import ast
import inspect
import os
import random
import re

import corpus
import util

SKIP_FIELDS = ('ctx', 'str')                 # recurse_children: `if field in ('ctx', 'str'): continue`
SLICE_FIELDS = ('body', 'orelse', 'finalbody', 'handlers', 'cases', 'elts')   # recurse_children, inline condition
KINDS = {n: i for i, n in enumerate(sorted(k for k, v in vars(ast).items() if isinstance(v, type) and issubclass(v, ast.AST)))}
PAIR = len(KINDS)
KIND_NAMES = {i: n for n, i in KINDS.items()}
KIND_NAMES[PAIR] = 'pair'


def _fst():
    import fst
    return fst


def fork_map(func, items, nchunks=48, procs=16):
    """Parallel map without multiprocessing.Pool: contiguous chunks, ONE freshly forked process per chunk (no pfst state leaks
    between chunks, deterministic chunk contents), results sent back over a pipe.  Pool(maxtasksperchild=1) was observed to end
    a run with a BrokenPipeError raised while the pool was being torn down (worker re-population racing with terminate).
    A chunk whose process dies or raises yields {'crash': ...} entries instead of killing the run."""
    import multiprocessing as mp
    import pickle
    import traceback
    from multiprocessing.connection import wait
    items = list(items)
    if not items:
        return []
    n = len(items)
    size = max(1, -(-n // max(1, nchunks)))
    chunks = [(i, items[i:i + size]) for i in range(0, n, size)]
    ctx = mp.get_context('fork')
    out = [None] * n
    pending = list(reversed(chunks))
    running = {}          # reader connection -> (process, start, length, buffer)

    def child(conn, chunk):
        try:
            res = []
            for x in chunk:
                try:
                    res.append(func(x))
                except Exception:
                    res.append({'crash': traceback.format_exc()[-1500:], 'rounds': [], 'skip': 'harness crash'})
            conn.send_bytes(pickle.dumps(res, protocol=pickle.HIGHEST_PROTOCOL))
        except BaseException:
            try:
                conn.send_bytes(pickle.dumps({'chunk_crash': traceback.format_exc()[-1500:]}))
            except Exception:
                pass
        finally:
            conn.close()
            os._exit(0)

    while pending or running:
        while pending and len(running) < procs:
            start, chunk = pending.pop()
            r, w = ctx.Pipe(duplex=False)
            p = ctx.Process(target=child, args=(w, chunk))
            p.start()
            w.close()
            running[r] = (p, start, len(chunk))
        for r in wait(list(running), timeout=5):
            p, start, ln = running.pop(r)
            try:
                data = pickle.loads(r.recv_bytes())
            except (EOFError, OSError) as e:
                data = {'chunk_crash': f'worker process ended without a result ({type(e).__name__}), exit code {p.exitcode}'}
            r.close()
            p.join()
            if isinstance(data, dict):
                data = [{'crash': data['chunk_crash'], 'rounds': [], 'skip': 'harness crash'} for _ in range(ln)]
            out[start:start + ln] = data
    return out


def fields_of(cls):
    if cls is ast.Dict:
        return ['<pairs>']
    return [f for f in cls._fields if f not in SKIP_FIELDS]


_FIDX = {}


def fidx(cls, name):
    key = (cls, name)
    r = _FIDX.get(key)
    if r is None:
        r = _FIDX[key] = fields_of(cls).index(name)
    return r


class SigTable:
    """`_SLICE_COMAPTIBILITY` evaluated extensionally (read from the imported module on every run)."""

    def __init__(self):
        from fst import reconcile as R
        self.table = R._SLICE_COMAPTIBILITY
        self.ids = {}

    def sig(self, cls, field):
        v = self.table.get((cls, field))
        if v is None:
            return None
        return self.ids.setdefault(v, len(self.ids))


def list_mode(cls, field):
    if field in SLICE_FIELDS or (field == 'names' and cls in (ast.Global, ast.Nonlocal)):
        return 1
    return 0


def rel_steps(parent_cls, name, idx):
    """pfield of a child of `parent_cls` as model path steps."""
    if parent_cls is ast.Dict:
        return [0, idx, 0 if name == 'keys' else 1]
    return [fidx(parent_cls, name)] + ([] if idx is None else [idx])


def fst_path(f):
    """model path of FST node `f` from its root, through the FST parent links (original shape of that tree)."""
    steps = []
    while f.parent is not None:
        pf = f.pfield
        steps = rel_steps(type(f.parent.a), pf.name, pf.idx) + steps
        f = f.parent
    return steps


def links_ok(a):
    """Independent re-implementation of the link check of `verify(reparse=False)`."""
    f = getattr(a, 'f', None)
    if f is None:
        return False
    from fst.common import astfield
    if f.parent is not None:
        try:
            if f.pfield.get(f.parent.a) is not a:      # detached from its own tree: copy() / get_slice() refuse
                return False
        except Exception:
            return False
    stack = [(a, f.parent, f.pfield)]
    while stack:
        a, parent, pfield = stack.pop()
        f = getattr(a, 'f', None)
        if f is None or f.parent is not parent or f.pfield != pfield or f.a is not a:
            return False
        for field, child in ast.iter_fields(a):
            if isinstance(child, ast.AST):
                stack.append((child, f, astfield(field)))
            elif isinstance(child, list):
                stack.extend((c, f, astfield(field, i)) for i, c in enumerate(child) if isinstance(c, ast.AST))
    return True


def same_as_source(a):
    """The subtree `a` of another FST tree still is what the source of that tree says (types, lists, primitives): CPython
    parse of the other tree's source, same path, same `ast.dump`.  Stands for the reparse of the copy that the repaired
    `reconcile` does (`copy().verify()`), which notices primitives changed in the other tree (C13-F2)."""
    f = getattr(a, 'f', None)
    if f is None:
        return False
    root = f.root
    if not isinstance(root.a, ast.Module):
        return True
    try:
        n = ast.parse(root.src)
        for af in root.child_path(f):
            v = getattr(n, af.name)
            n = v if af.idx is None else v[af.idx]
        return ast.dump(n) == ast.dump(a)
    except Exception:
        return False


def foreign_ok(a):
    return links_ok(a) and same_as_source(a)


_F16 = []


def f16_fixed():
    """does this library survive `{a: 1, **b, **c}` minus its first entry (finding C13-F16)?  probed once per process"""
    if not _F16:
        from fst import FST
        try:
            f = FST('x = {a: 1, **b, **c}', 'exec')
            f.mark()
            d = f.a.body[0].value
            del d.keys[0]
            del d.values[0]
            f.reconcile()
            _F16.append(True)
        except IndexError:
            _F16.append(False)
        except Exception:
            _F16.append(True)
    return _F16[0]


class Ser:
    """One serialisation state per round (shared value / tree-id interning between the marked and the edited tree)."""

    def __init__(self, work, sigs):
        self.work = work          # root FST of the tree being edited
        self.sigs = sigs
        self.eq = {}              # Python `==` classes (dict keys conflate 1, True, 1.0)
        self.rep = {}
        self.tids = {}
        self.foreign_seen = False

    def prim(self, v):
        e = self.eq.setdefault(v, len(self.eq))
        r = self.rep.setdefault((type(v).__name__, repr(v)), len(self.rep))
        return ['p', e, r]

    def loc(self, f):
        p = f.parent
        if p is None:
            return None
        pf = f.pfield
        if type(p.a) is ast.Dict:
            return [fst_path(p) + [0, pf.idx], 0 if pf.name == 'keys' else 1, None]
        return [fst_path(p), fidx(type(p.a), pf.name), pf.idx]

    def origin(self, x):
        f = getattr(x, 'f', None)
        if f is None:
            return None
        root = f.root
        if root is self.work:
            return ['t', self.loc(f)]
        self.foreign_seen = True
        tid = self.tids.setdefault(id(root), len(self.tids) + 1)
        p = f.parent
        sig = None
        if p is not None:
            sig = self.sigs.sig(type(p.a), '' if type(p.a) is ast.Dict else f.pfield.name)
        return ['f', foreign_ok(x), tid, self.loc(f), sig]

    def pair_origin(self, k, v):
        """the conditions of `recurse_slice_dict` under which (key, value) is an element of a Dict of some FST tree"""
        vf = getattr(v, 'f', None)
        if vf is None or vf.parent is None or vf.pfield.name != 'values' or type(vf.parent.a) is not ast.Dict:
            return None
        p = vf.parent
        idx = vf.pfield.idx
        if k is None:
            if idx >= len(p.a.keys):
                if f16_fixed():
                    return None                    # repaired code: an index past the (edited) keys list is "not a run"
                raise IndexError('C13-F16')        # unrepaired code: its own uncaught IndexError (the case is skipped)
            if p.a.keys[idx] is not None:
                return None
        else:
            kf = getattr(k, 'f', None)
            if kf is None or kf.parent is not p or kf.pfield != ('keys', idx):
                return None
        loc = [fst_path(p), 0, idx]
        if vf.root is self.work:
            return ['t', loc]
        self.foreign_seen = True
        tid = self.tids.setdefault(id(vf.root), len(self.tids) + 1)
        ok = (k is None or foreign_ok(k)) and foreign_ok(v)
        return ['f', ok, tid, loc, self.sigs.sig(ast.Dict, '')]

    def ser(self, x):
        if x is None:
            return None
        if not isinstance(x, ast.AST):
            return self.prim(x)
        cls = type(x)
        o = self.origin(x)
        if cls is ast.Dict:
            pairs = [['n', self.pair_origin(k, v), PAIR, [self.ser(k), self.ser(v)]] for k, v in zip(x.keys, x.values)]
            if len(x.keys) != len(x.values):
                raise ValueError('Dict keys/values length')
            return ['n', o, KINDS['Dict'], [['m', self.sigs.sig(ast.Dict, ''), 2, pairs]]]
        kids = []
        for name in fields_of(cls):
            v = getattr(x, name, None)
            if isinstance(v, list):
                kids.append(['m', self.sigs.sig(cls, name), list_mode(cls, name), [self.ser(e) for e in v]])
            else:
                kids.append(self.ser(v))
        return ['n', o, KINDS[cls.__name__], kids]


# ---- recorder --------------------------------------------------------------------------------------------------------

class Recorder:
    """Wraps FST.put / put_slice / replace / put_src at run time; records the top-level calls on the output tree of the
    running Reconcile (captured from Reconcile.__init__)."""

    def __init__(self):
        self.log = []
        self.depth = 0
        self.out = None
        self.installed = False

    def install(self):
        if self.installed:
            return
        self.installed = True
        fst = _fst()
        FST = fst.FST
        from fst import reconcile as R
        rec = self

        def wrap(name):
            orig = getattr(FST, name)

            def w(self, *a, **k):
                top = rec.depth == 0 and rec.out is not None and self.root is rec.out
                entry = None
                if top:
                    entry = rec.describe(name, self, a, k)
                    rec.log.append(entry)
                rec.depth += 1
                try:
                    return orig(self, *a, **k)
                except BaseException as e:
                    if entry is not None:
                        entry['raised'] = type(e).__name__ + ': ' + str(e)[:100]
                    raise
                finally:
                    rec.depth -= 1

            w.__wrapped__ = orig
            setattr(FST, name, w)

        for n in ('put', 'put_slice', 'replace', 'put_src'):
            wrap(n)
        oinit = R.Reconcile.__init__

        def ninit(self, *a, **k):
            oinit(self, *a, **k)
            rec.out = self.out
            rec.work = self.work
            rec.markf = self.mark

        R.Reconcile.__init__ = ninit

    def begin(self):
        self.log = []
        self.out = None
        self.depth = 0

    def end(self):
        self.out = None

    def payload_head(self, code):
        FST = _fst().FST
        if isinstance(code, FST):
            a = code.a
        else:
            a = code
        if a is None:
            return None, 0
        if not isinstance(a, ast.AST):
            return ['p', (type(a).__name__, repr(a))], 0
        n = sum((1 + (len(x.keys) if isinstance(x, ast.Dict) else 0)) for x in ast.walk(a) if not isinstance(x, ast.expr_context))
        return ['n', KINDS.get(type(a).__name__, -1)], n

    def src_of(self, code):
        FST = _fst().FST
        if isinstance(code, FST):
            return 'fst'
        return 'ast'

    def describe(self, name, self_f, a, k):
        FST = _fst().FST
        path = fst_path(self_f)
        cls = type(self_f.a)
        code = a[0] if a else k.get('code')
        if name == 'replace':
            # replace on the out root (put_node without parent)
            head, n = self.payload_head(code)
            return {'op': ['put', path, self.src_of(code), head, n]}
        if name == 'put_src':
            return {'op': ['put_src', path]}
        if name == 'put':
            idx = a[1] if len(a) > 1 else k.get('idx')
            field = a[3] if len(a) > 3 else k.get('field')
            steps = rel_steps(cls, field, idx) if field is not None else []
            head, n = self.payload_head(code)
            if head is None or head[0] == 'p':
                return {'op': ['prim', path + steps, head]}
            return {'op': ['put', path + steps, self.src_of(code), head, n]}
        # put_slice
        start = a[1] if len(a) > 1 else k.get('start', 0)
        stop = a[2] if len(a) > 2 else k.get('stop', 'end')
        field = a[3] if len(a) > 3 else k.get('field')
        one = k.get('one', a[4] if len(a) > 4 else False)
        lpath = path + ([0] if cls is ast.Dict else [fidx(cls, field)])
        if code is None:
            return {'op': ['del', lpath, start, stop]}
        if one:
            cnt = 1
            _, n = self.payload_head(code)
        else:
            ca = code.a if isinstance(code, FST) else code
            if isinstance(ca, ast.Dict):
                cnt = len(ca.keys)
            else:
                lst = None
                for fname in ('body', 'elts', 'handlers', 'cases', 'names'):
                    lst = getattr(ca, fname, None)
                    if isinstance(lst, list):
                        break
                cnt = len(lst) if isinstance(lst, list) else -1
            n = None
        return {'op': ['slice', lpath, start, stop, self.src_of(code), bool(one), cnt]}


RECORDER = Recorder()


# ---- canonical traces -----------------------------------------------------------------------------------------------------

def canon_model_op(op, rep_names):
    path, act = op[0], op[1]
    if act == 'put':
        src, head, n = op[2], op[3], op[4]
        if head is None or head[0] == 'p':
            return ['prim', path, None if head is None else ['p', rep_names[head[1]]]]
        return ['put', path, 'ast' if src == 'ast' else 'fst', head, n]
    if act == 'prim':
        head = op[2]
        return ['prim', path, None if head is None else ['p', rep_names[head[1]]] if head[0] == 'p' else head]
    if act == 'slice':
        return ['slice', path, op[2], op[3], 'ast' if op[4] == 'ast' else 'fst', op[5], op[6]]
    if act == 'del':
        return ['del', path, op[2], 'end']
    return op


def canon_real_op(op):
    if op[0] == 'prim':
        h = op[2]
        return ['prim', op[1], None if h is None else ['p', list(h[1])]]
    if op[0] == 'put':
        return ['put', op[1], op[2], op[3], op[4]]
    return list(op)


def is_prefix(p, q):
    return len(p) <= len(q) and q[:len(p)] == p


def compare_traces(model_ops, real_log, model_srcs=None):
    """Returns (status, detail).  status: 'equal' | 'fallback' (real trace = model trace up to retry-at-parent fallbacks:
    a real op raised, the next real op is a pure-AST put at an ancestor; the model ops under that ancestor are covered) |
    'differ'."""
    mi = 0
    ri = 0
    fallbacks = 0
    refused = 0
    docstr = 0
    n_m, n_r = len(model_ops), len(real_log)
    while ri < n_r:
        e = real_log[ri]
        rop = canon_real_op(e['op'])
        if mi < n_m and model_ops[mi] == rop and 'raised' not in e:
            mi += 1
            ri += 1
            continue
        if (mi < n_m and model_srcs is not None and 'raised' not in e and rop[0] == 'put' and rop[2] == 'ast'
                and model_ops[mi][0] == 'put' and model_ops[mi][2] == 'fst' and model_ops[mi][1] == rop[1]
                and model_ops[mi][3:] == rop[3:] and isinstance(model_srcs[mi], list) and model_srcs[mi][0] == 'foreign'):
            # the node of another tree passed the link check but copy() refused it (it reads the node's surroundings):
            # the code falls through to the pure-AST path and recurses; the model stops at the put
            mi += 1
            ri += 1
            while ri < n_r and len(real_log[ri]['op'][1]) > len(rop[1]) and is_prefix(rop[1], real_log[ri]['op'][1]):
                ri += 1
            refused += 1
            continue
        if ('raised' not in e and rop[0] == 'prim' and rop[2] is not None and rop[2][1][0] == 'str' and '\\n' in rop[2][1][1]
                and not (mi < n_m and model_ops[mi] == rop)):
            # reconcile runs with docstr=True: a multi-line string statement copied to another indentation is re-indented by
            # the put, and recurse_children then writes the edited value back (not modelled: the copy is assumed exact)
            ri += 1
            docstr += 1
            continue
        if (mi < n_m and model_srcs is not None and model_ops[mi][0] == 'slice' and model_ops[mi][4] == 'fst'
                and isinstance(model_srcs[mi], list) and model_srcs[mi][0] == 'foreign' and model_ops[mi] != rop):
            # a run of another tree whose nodes all pass verify_other, but get_slice() / the reparse of the slice refuses (the
            # other tree's list was edited around them): the code processes the elements one by one, the model stops at the slice
            lp, s0, e0 = model_ops[mi][1], model_ops[mi][2], model_ops[mi][3]
            mi += 1
            while ri < n_r:
                r2 = real_log[ri]['op']
                under = len(r2[1]) > len(lp) and r2[1][:len(lp)] == lp and s0 <= r2[1][len(lp)] < e0
                ins = r2[0] == 'slice' and r2[1] == lp and r2[2] == r2[3] and s0 <= r2[2] < e0 and r2[4] == 'ast'
                if not (under or ins) or 'raised' in real_log[ri]:
                    break
                ri += 1
            refused += 1
            continue
        if 'raised' in e:
            # the op that raised may or may not be one the model predicted; the next real op must be the coarser AST put
            if ri + 1 >= n_r:
                return 'differ', f'real op {ri} raised and nothing follows: {e}'
            nxt = canon_real_op(real_log[ri + 1]['op'])
            if 'raised' in real_log[ri + 1]:
                # the retry itself failed: propagates to the next in-tree ancestor
                anc = nxt[1]
                if not (nxt[0] == 'put' and nxt[2] == 'ast' and is_prefix(anc, rop[1])):
                    return 'differ', f'real op {ri} raised, next is not an AST put at an ancestor: {nxt}'
                ri += 1
                continue
            if not (nxt[0] == 'put' and nxt[2] == 'ast' and is_prefix(nxt[1], rop[1])):
                return 'differ', f'real op {ri} raised, next is not an AST put at an ancestor: {nxt}'
            anc = nxt[1]
            # model: skip the remaining ops under `anc` (they were never attempted)
            while mi < n_m and is_prefix(anc, model_ops[mi][1]):
                mi += 1
            fallbacks += 1
            ri += 2
            continue
        return 'differ', f'at model op {mi} / real op {ri}: model={model_ops[mi] if mi < n_m else None} real={rop}'
    if mi != n_m:
        return 'differ', f'model has {n_m - mi} more ops; first: {model_ops[mi]}'
    return ('fallback' if fallbacks else 'copy-refused' if refused else 'docstr-repair' if docstr else 'equal'), fallbacks


# ---- pure-AST mutations -----------------------------------------------------------------------------------------------------

IDENTS = ['alpha', 'beta', 'gamma', 'delta', 'k9', 'zeta_1', 'ñandú', 'Omega']
BINOPS = [ast.Add, ast.Sub, ast.Mult, ast.Div, ast.FloorDiv, ast.Mod, ast.Pow, ast.LShift, ast.RShift, ast.BitOr,
          ast.BitXor, ast.BitAnd, ast.MatMult]
CMPOPS = [ast.Eq, ast.NotEq, ast.Lt, ast.LtE, ast.Gt, ast.GtE, ast.Is, ast.IsNot, ast.In, ast.NotIn]


def L():
    return ast.Load()


def new_expr(r, d=0):
    k = r.randrange(14) if d < 2 else r.randrange(2)
    e = lambda: new_expr(r, d + 1)
    if k == 0:
        return ast.Name(r.choice(IDENTS), L())
    if k == 1:
        return ast.Constant(r.choice([7, 42, 'txt', 'é"q', 3.25, b'by', None, ..., 10 ** 20]))
    if k == 2:
        return ast.BinOp(e(), r.choice(BINOPS)(), e())
    if k == 3:
        return ast.UnaryOp(r.choice([ast.USub, ast.Not, ast.Invert])(), e())
    if k == 4:
        return ast.Call(ast.Name(r.choice(IDENTS), L()), [e() for _ in range(r.randint(0, 2))],
                        [ast.keyword(r.choice(IDENTS), e())] if r.random() < 0.3 else [])
    if k == 5:
        return ast.Attribute(ast.Name(r.choice(IDENTS), L()), r.choice(IDENTS), L())
    if k == 6:
        return ast.Subscript(ast.Name(r.choice(IDENTS), L()), e(), L())
    if k == 7:
        return ast.List([e() for _ in range(r.randint(0, 3))], L())
    if k == 8:
        return ast.Tuple([e() for _ in range(r.randint(0, 3))], L())
    if k == 9:
        n = r.randint(0, 2)
        return ast.Dict([e() if r.random() < 0.8 else None for _ in range(n)], [e() for _ in range(n)])
    if k == 10:
        return ast.Compare(e(), [r.choice(CMPOPS)()], [e()])
    if k == 11:
        return ast.BoolOp(r.choice([ast.And, ast.Or])(), [e(), e()])
    if k == 12:
        return ast.IfExp(e(), e(), e())
    return ast.Set([e() for _ in range(r.randint(1, 2))])


def new_stmt(r, d=0):
    k = r.randrange(10) if d < 1 else r.randrange(5)
    if k == 0:
        return ast.Assign([ast.Name(r.choice(IDENTS), ast.Store())], new_expr(r, 1), lineno=1)
    if k == 1:
        return ast.Expr(ast.Call(ast.Name(r.choice(IDENTS), L()), [new_expr(r, 1)], []))
    if k == 2:
        return ast.Pass()
    if k == 3:
        return ast.AugAssign(ast.Name(r.choice(IDENTS), ast.Store()), r.choice(BINOPS)(), new_expr(r, 1))
    if k == 4:
        return ast.Assert(new_expr(r, 1), None)
    if k == 5:
        return ast.If(new_expr(r, 1), [new_stmt(r, d + 1)], [new_stmt(r, d + 1)] if r.random() < 0.4 else [])
    if k == 6:
        return ast.For(ast.Name(r.choice(IDENTS), ast.Store()), new_expr(r, 1), [new_stmt(r, d + 1)], [], lineno=1)
    if k == 7:
        return ast.FunctionDef(r.choice(IDENTS), ast.arguments([], [ast.arg(r.choice(IDENTS), None)], None, [], [], None, []),
                               [new_stmt(r, d + 1)], [], None, lineno=1, type_params=[])
    if k == 8:
        return ast.While(new_expr(r, 1), [new_stmt(r, d + 1)], [])
    return ast.Try([new_stmt(r, d + 1)], [ast.ExceptHandler(ast.Name('Exception', L()), None, [new_stmt(r, d + 1)])], [], [])


class Site:
    __slots__ = ('node', 'parent', 'field', 'idx', 'zone')

    def __init__(self, node, parent, field, idx, zone):
        self.node, self.parent, self.field, self.idx, self.zone = node, parent, field, idx, zone

    def name(self):
        return f'{type(self.parent).__name__}.{self.field}'

    def get(self):
        v = getattr(self.parent, self.field)
        return v if self.idx is None else v[self.idx]

    def set(self, x):
        if self.idx is None:
            setattr(self.parent, self.field, x)
        else:
            getattr(self.parent, self.field)[self.idx] = x


def is_foreign(n, work):
    f = getattr(n, 'f', None)
    return f is not None and work is not None and f.root is not work


def sites(root, work=None):
    """every (node, parent, field, idx) occurrence (DAG: a shared node occurs several times), with zone flags:
    f = inside an f-string, p = inside a pattern, s = subscript slice, d = decorator / type_params,
    X = the parent belongs to another FST tree (only whole-node replacement is detectable there, see C13-F2)"""
    out = []
    stack = [(root, '')]
    seen_budget = [20000]
    while stack:
        n, zone = stack.pop()
        seen_budget[0] -= 1
        if seen_budget[0] < 0:
            break
        z = zone
        if isinstance(n, (ast.JoinedStr, ast.FormattedValue)):
            z += 'f'
        if isinstance(n, ast.pattern) or isinstance(n, ast.match_case):
            z += 'p' if isinstance(n, ast.pattern) else ''
        if 'X' not in z and is_foreign(n, work):
            z += 'X'
        for field, v in ast.iter_fields(n):
            zz = z
            if isinstance(n, ast.Subscript) and field == 'slice':
                zz += 's'
            if field in ('decorator_list', 'type_params'):
                zz += 'd'
            if isinstance(v, ast.AST):
                out.append(Site(v, n, field, None, zz))
                stack.append((v, zz))
            elif isinstance(v, list):
                for i, c in enumerate(v):
                    if isinstance(c, ast.AST):
                        out.append(Site(c, n, field, i, zz))
                        stack.append((c, zz))
    return out


def is_load_expr(n):
    return (isinstance(n, ast.expr) and not isinstance(n, (ast.Starred, ast.Slice, ast.JoinedStr, ast.FormattedValue))
            and isinstance(getattr(n, 'ctx', None) or ast.Load(), ast.Load)
            and not (isinstance(n, ast.Tuple) and any(isinstance(e, (ast.Slice, ast.Starred)) for e in n.elts)))


def expr_target_ok(s):
    if s.zone.replace('s', '').replace('d', '').replace('X', '') != '':
        return False
    if not is_load_expr(s.node):
        return False
    if isinstance(s.parent, (ast.keyword, ast.MatchValue, ast.MatchClass, ast.TypeVar, ast.TypeAlias)):
        return isinstance(s.parent, ast.keyword)
    if isinstance(s.parent, ast.Subscript) and s.field == 'slice':
        return False
    if isinstance(s.parent, (ast.Dict,)):
        return True
    return True


def contains(a, b):
    """is object `b` reachable from `a` (inclusive)"""
    for x in ast.walk(a):
        if x is b:
            return True
    return False


def deep_new(a):
    """a pure-AST deep copy (no `.f`, no positions)"""
    if isinstance(a, ast.AST):
        return type(a)(**{f: deep_new(getattr(a, f, None)) for f in a._fields})
    if isinstance(a, list):
        return [deep_new(x) for x in a]
    return a


STMT_LISTS = ('body', 'orelse', 'finalbody')


def stmt_lists(root, work=None):
    out = []
    for n in ast.walk(root):
        if is_foreign(n, work):
            continue
        for f in STMT_LISTS:
            v = getattr(n, f, None)
            if isinstance(v, list) and (v or f != 'body') and all(isinstance(x, ast.stmt) for x in v):
                if isinstance(n, (ast.Try, ast.TryStar)) and f in ('orelse', 'finalbody'):
                    continue          # emptiness constraints between handlers / orelse / finalbody
                if not v:
                    if isinstance(n, (ast.If, ast.For, ast.While, ast.AsyncFor)) and f == 'orelse':
                        out.append((n, f))
                    continue
                out.append((n, f))
    return out


def expr_lists(root, zones, work=None):
    """(parent, kind) for expression containers: elts of Load List/Tuple/Set, Call.args, Dict, BoolOp.values"""
    out = []
    for s in zones:
        n = s.node
        if s.zone.replace('d', '') != '' or is_foreign(n, work):
            continue
        if isinstance(n, (ast.List, ast.Tuple, ast.Set)) and isinstance(getattr(n, 'ctx', None) or ast.Load(), ast.Load):
            if any(isinstance(e, (ast.Starred, ast.Slice)) for e in n.elts):
                continue
            if isinstance(s.parent, ast.Subscript) and s.field == 'slice':
                continue
            if isinstance(n, ast.Tuple) and work is not None and getattr(n, 'end_col_offset', None) is not None:
                try:
                    seg = ast.get_source_segment(work.src, n) or ''
                except Exception:
                    seg = '\\\n'
                if '\\\n' in seg:
                    continue          # backslash continuation inside an unparenthesised tuple: C13-F7
            out.append((n, 'elts'))
        elif isinstance(n, ast.Call) and not any(isinstance(e, ast.Starred) for e in n.args) and not n.keywords:
            out.append((n, 'args'))
        elif isinstance(n, ast.Dict):
            out.append((n, 'dict'))
        elif isinstance(n, ast.BoolOp):
            out.append((n, 'values'))
    return out


class Mutator:
    """Applies ONE pure-AST mutation to the tree `a` (root AST of the work FST).  Returns (kind, site name) or None."""

    def __init__(self, r, foreign_srcs, work=None):
        self.r = r
        self.work = work
        self.foreign_srcs = foreign_srcs or corpus.SNIPPETS
        self.keep = []           # keep foreign FST trees alive

    KINDS = ['replace_new', 'replace_move', 'replace_dup', 'replace_foreign', 'replace_foreign_mod', 'wrap',
             'stmt_insert_new', 'stmt_insert_foreign', 'stmt_delete', 'stmt_swap', 'stmt_reverse', 'stmt_move', 'stmt_dup',
             'stmt_replace_new', 'stmt_tail_delete',
             'list_insert', 'list_delete', 'list_swap', 'list_move_across', 'list_tail_delete',
             'prim_name', 'prim_const', 'prim_attr', 'prim_defname', 'prim_op', 'prim_cmpop', 'prim_boolop', 'prim_unop',
             'opt_set', 'opt_unset', 'global_names',
             # scalar-field edits whose direct put is (often) refused: they force the retry-at-parent fallback
             'imp_relative', 'imp_level', 'imp_module', 'kw_arg_none', 'kw_arg_name', 'starred_toggle', 'alias_asname',
             'handler_name']

    def foreign_tree(self):
        FST = _fst().FST
        for _ in range(5):
            src = self.r.choice(self.foreign_srcs)
            try:
                t = FST(src, 'exec')
            except Exception:
                continue
            self.keep.append(t)
            return t
        return None

    def apply(self, a, kind=None):
        r = self.r
        kind = kind or r.choice(self.KINDS)
        fn = getattr(self, 'm_' + kind)
        ss = sites(a, self.work)
        return fn(a, ss)

    # -- expression replacement ------------------------------------------------------------------------------------
    def _expr_target(self, ss):
        c = [s for s in ss if expr_target_ok(s)]
        return self.r.choice(c) if c else None

    def m_replace_new(self, a, ss):
        t = self._expr_target(ss)
        if not t:
            return None
        t.set(new_expr(self.r))
        return 'replace_new', t.name()

    def _in_tree_source(self, a, ss, t):
        c = [s.node for s in ss if expr_target_ok(s) and 'X' not in s.zone and not is_foreign(s.node, self.work)
             and s.node is not t.node and not contains(s.node, t.parent)]
        return self.r.choice(c) if c else None

    def m_replace_move(self, a, ss):
        t = self._expr_target(ss)
        if not t or 'X' in t.zone:
            return None
        srcs = [s for s in ss if expr_target_ok(s) and 'X' not in s.zone and not is_foreign(s.node, self.work)
                and s.node is not t.node and not contains(s.node, t.parent) and not contains(t.node, s.parent)]
        if not srcs:
            return None
        s = self.r.choice(srcs)
        node = s.node
        s.set(new_expr(self.r, 1))      # the source position gets a new node: a move
        t.set(node)
        return 'replace_move', t.name()

    def m_replace_dup(self, a, ss):
        t = self._expr_target(ss)
        if not t or 'X' in t.zone:
            return None
        n = self._in_tree_source(a, ss, t)
        if n is None:
            return None
        t.set(n)
        return 'replace_dup', t.name()

    def _foreign_expr(self):
        ft = self.foreign_tree()
        if ft is None:
            return None
        c = [s.node for s in sites(ft.a) if expr_target_ok(s)]
        return self.r.choice(c) if c else None     # (zones computed inside the other tree itself: no X there)

    def m_replace_foreign(self, a, ss):
        t = self._expr_target(ss)
        n = self._foreign_expr() if t else None
        if n is None:
            return None
        t.set(n)
        return 'replace_foreign', t.name()

    def m_replace_foreign_mod(self, a, ss):
        """a node of another FST tree, one of whose descendants was replaced by a pure AST node (verify fails)"""
        t = self._expr_target(ss)
        n = self._foreign_expr() if t else None
        if n is None:
            return None
        inner = [s for s in sites(n) if expr_target_ok(s)]
        if not inner:
            return None
        self.r.choice(inner).set(new_expr(self.r, 1))
        t.set(n)
        return 'replace_foreign_mod', t.name()

    def m_wrap(self, a, ss):
        t = self._expr_target(ss)
        if not t or 'X' in t.zone:
            return None
        e = t.node
        r = self.r
        k = r.randrange(6)
        if k == 0:
            w = ast.UnaryOp(ast.USub(), e)
        elif k == 1:
            w = ast.Call(ast.Name('wrap', L()), [e], [])
        elif k == 2:
            w = ast.BinOp(e, r.choice(BINOPS)(), ast.Constant(1))
        elif k == 3:
            w = ast.List([ast.Constant(0), e], L())
        elif k == 4:
            w = ast.IfExp(ast.Name('cond', L()), e, ast.Constant(None))
        else:
            w = ast.Dict([ast.Constant('k')], [e])
        t.set(w)
        return 'wrap', t.name()

    # -- statement lists ------------------------------------------------------------------------------------------
    def _stmt_list(self, a, nonempty=True, minlen=1):
        c = [(n, f) for n, f in stmt_lists(a, self.work) if len(getattr(n, f)) >= minlen]
        return self.r.choice(c) if c else (None, None)

    def m_stmt_insert_new(self, a, ss):
        n, f = self._stmt_list(a, minlen=0)
        if n is None:
            return None
        lst = getattr(n, f)
        lst.insert(self.r.randint(0, len(lst)), new_stmt(self.r))
        return 'stmt_insert_new', f'{type(n).__name__}.{f}'

    def m_stmt_replace_new(self, a, ss):
        n, f = self._stmt_list(a)
        if n is None:
            return None
        lst = getattr(n, f)
        lst[self.r.randrange(len(lst))] = new_stmt(self.r)
        return 'stmt_replace_new', f'{type(n).__name__}.{f}'

    def m_stmt_insert_foreign(self, a, ss):
        n, f = self._stmt_list(a, minlen=0)
        ft = self.foreign_tree() if n is not None else None
        if ft is None or not ft.a.body:
            return None
        lst = getattr(n, f)
        body = ft.a.body
        i = self.r.randrange(len(body))
        k = self.r.randint(1, min(3, len(body) - i))
        at = self.r.randint(0, len(lst))
        lst[at:at] = body[i:i + k]
        return 'stmt_insert_foreign', f'{type(n).__name__}.{f}'

    def m_stmt_delete(self, a, ss):
        n, f = self._stmt_list(a, minlen=2)
        if n is None:
            return None
        lst = getattr(n, f)
        del lst[self.r.randrange(len(lst))]
        return 'stmt_delete', f'{type(n).__name__}.{f}'

    def m_stmt_tail_delete(self, a, ss):
        n, f = self._stmt_list(a, minlen=2)
        if n is None:
            return None
        lst = getattr(n, f)
        del lst[self.r.randint(1, len(lst) - 1):]
        return 'stmt_tail_delete', f'{type(n).__name__}.{f}'

    def m_stmt_swap(self, a, ss):
        n, f = self._stmt_list(a, minlen=2)
        if n is None:
            return None
        lst = getattr(n, f)
        i, j = self.r.sample(range(len(lst)), 2)
        lst[i], lst[j] = lst[j], lst[i]
        return 'stmt_swap', f'{type(n).__name__}.{f}'

    def m_stmt_reverse(self, a, ss):
        n, f = self._stmt_list(a, minlen=2)
        if n is None:
            return None
        getattr(n, f).reverse()
        return 'stmt_reverse', f'{type(n).__name__}.{f}'

    def m_stmt_move(self, a, ss):
        """move a run of statements from one list to another (or elsewhere in the same list)"""
        n, f = self._stmt_list(a, minlen=2)
        if n is None:
            return None
        m, g = self._stmt_list(a, minlen=0)
        lst = getattr(n, f)
        i = self.r.randrange(len(lst))
        k = self.r.randint(1, min(2, len(lst) - 1, len(lst) - i))
        run = lst[i:i + k]
        if any(contains(x, m) for x in run):
            return None
        del lst[i:i + k]
        dst = getattr(m, g)
        at = self.r.randint(0, len(dst))
        dst[at:at] = run
        return 'stmt_move', f'{type(m).__name__}.{g}'

    def m_stmt_dup(self, a, ss):
        n, f = self._stmt_list(a)
        if n is None:
            return None
        m, g = self._stmt_list(a, minlen=0)
        x = self.r.choice(getattr(n, f))
        if contains(x, m):
            return None
        dst = getattr(m, g)
        dst.insert(self.r.randint(0, len(dst)), x)
        return 'stmt_dup', f'{type(m).__name__}.{g}'

    # -- expression lists -------------------------------------------------------------------------------------------
    def _expr_list(self, ss, minlen=0, kinds=None):
        c = []
        for n, k in expr_lists(None, ss, self.work):
            if kinds and k not in kinds:
                continue
            ln = len(n.keys) if k == 'dict' else len(getattr(n, k))
            if ln >= minlen:
                c.append((n, k))
        return self.r.choice(c) if c else (None, None)

    @staticmethod
    def _minlen(n, k):
        return 2 if k == 'values' else 1 if isinstance(n, ast.Set) else 0

    def m_list_insert(self, a, ss):
        n, k = self._expr_list(ss)
        if n is None:
            return None
        r = self.r
        if k == 'dict':
            at = r.randint(0, len(n.keys))
            n.keys.insert(at, new_expr(r, 1) if r.random() < 0.8 else None)
            n.values.insert(at, new_expr(r, 1))
        else:
            lst = getattr(n, k)
            lst.insert(r.randint(0, len(lst)), new_expr(r, 1))
        return 'list_insert', f'{type(n).__name__}.{k}'

    def m_list_delete(self, a, ss):
        n, k = self._expr_list(ss, minlen=1)
        if n is None:
            return None
        ln = len(n.keys) if k == 'dict' else len(getattr(n, k))
        if ln - 1 < self._minlen(n, k):
            return None
        i = self.r.randrange(ln)
        if k == 'dict':
            del n.keys[i]
            del n.values[i]
        else:
            del getattr(n, k)[i]
        return 'list_delete', f'{type(n).__name__}.{k}'

    def m_list_tail_delete(self, a, ss):
        n, k = self._expr_list(ss, minlen=2)
        if n is None:
            return None
        ln = len(n.keys) if k == 'dict' else len(getattr(n, k))
        lo = max(1, self._minlen(n, k))
        if lo > ln - 1:
            return None
        i = self.r.randint(lo, ln - 1)
        if k == 'dict':
            del n.keys[i:]
            del n.values[i:]
        else:
            del getattr(n, k)[i:]
        return 'list_tail_delete', f'{type(n).__name__}.{k}'

    def m_list_swap(self, a, ss):
        n, k = self._expr_list(ss, minlen=2)
        if n is None:
            return None
        ln = len(n.keys) if k == 'dict' else len(getattr(n, k))
        i, j = self.r.sample(range(ln), 2)
        if self.r.random() < 0.3:
            i, j = 0, ln - 1
        for lst in ([n.keys, n.values] if k == 'dict' else [getattr(n, k)]):
            lst[i], lst[j] = lst[j], lst[i]
        return 'list_swap', f'{type(n).__name__}.{k}'

    def m_list_move_across(self, a, ss):
        """move / duplicate a run of elements from one container to another (slice compatibility between List/Tuple/Set)"""
        n, k = self._expr_list(ss, minlen=1, kinds=('elts', 'dict'))
        if n is None:
            return None
        m, g = self._expr_list(ss, kinds=(k,))
        if m is None or m is n:
            return None
        ln = len(n.keys) if k == 'dict' else len(n.elts)
        i = self.r.randrange(ln)
        cnt = self.r.randint(1, min(3, ln - i))
        lists_src = [n.keys, n.values] if k == 'dict' else [n.elts]
        lists_dst = [m.keys, m.values] if k == 'dict' else [m.elts]
        runs = [l[i:i + cnt] for l in lists_src]
        for run in runs:
            for x in run:
                if x is not None and contains(x, m):
                    return None
        at = self.r.randint(0, len(lists_dst[0]))
        for l, run in zip(lists_dst, runs):
            l[at:at] = run
        return 'list_move_across', f'{type(m).__name__}.{g}'

    # -- primitives ------------------------------------------------------------------------------------------------
    def _nodes(self, ss, cls, zone_ok=lambda z: z.replace('d', '').replace('s', '') == ''):
        return [s for s in ss if isinstance(s.node, cls) and zone_ok(s.zone) and not is_foreign(s.node, self.work)]

    def m_prim_name(self, a, ss):
        c = self._nodes(ss, ast.Name)
        if not c:
            return None
        s = self.r.choice(c)
        s.node.id = self.r.choice([i for i in IDENTS if i != s.node.id])
        return 'prim_name', s.name()

    def m_prim_const(self, a, ss):
        c = [s for s in self._nodes(ss, ast.Constant)
             if not isinstance(s.parent, (ast.MatchValue, ast.MatchSingleton, ast.Attribute))]     # Attribute: C13-F6
        if not c:
            return None
        s = self.r.choice(c)
        old = s.node.value
        new = self.r.choice([v for v in [5, 77, 'new', 'q\'"', 2.5, b'nb', None, 3j]
                             if not (v == old and type(v) is type(old)) and not v == old])
        s.node.value = new
        if hasattr(s.node, 'kind'):
            s.node.kind = None
        return 'prim_const', s.name()

    def m_prim_attr(self, a, ss):
        c = self._nodes(ss, ast.Attribute)
        if not c:
            return None
        s = self.r.choice(c)
        s.node.attr = self.r.choice([i for i in IDENTS if i != s.node.attr])
        return 'prim_attr', s.name()

    def m_prim_defname(self, a, ss):
        c = self._nodes(ss, (ast.FunctionDef, ast.ClassDef, ast.AsyncFunctionDef, ast.arg))
        if not c:
            return None
        s = self.r.choice(c)
        f = 'arg' if isinstance(s.node, ast.arg) else 'name'
        setattr(s.node, f, self.r.choice([i for i in IDENTS if i != getattr(s.node, f)]))
        return 'prim_defname', f'{type(s.node).__name__}.{f}'

    def m_prim_op(self, a, ss):
        c = self._nodes(ss, (ast.BinOp, ast.AugAssign))
        if not c:
            return None
        s = self.r.choice(c)
        s.node.op = self.r.choice([o for o in BINOPS if o is not type(s.node.op)])()
        return 'prim_op', f'{type(s.node).__name__}.op'

    def m_prim_cmpop(self, a, ss):
        c = self._nodes(ss, ast.Compare)
        if not c:
            return None
        s = self.r.choice(c)
        i = self.r.randrange(len(s.node.ops))
        s.node.ops[i] = self.r.choice([o for o in CMPOPS if o is not type(s.node.ops[i])])()
        return 'prim_cmpop', 'Compare.ops'

    def m_prim_boolop(self, a, ss):
        c = self._nodes(ss, ast.BoolOp)
        if not c:
            return None
        s = self.r.choice(c)
        s.node.op = (ast.Or if isinstance(s.node.op, ast.And) else ast.And)()
        return 'prim_boolop', 'BoolOp.op'

    def m_prim_unop(self, a, ss):
        c = self._nodes(ss, ast.UnaryOp)
        if not c:
            return None
        s = self.r.choice(c)
        s.node.op = self.r.choice([o for o in (ast.USub, ast.UAdd, ast.Invert, ast.Not) if o is not type(s.node.op)])()
        return 'prim_unop', 'UnaryOp.op'

    OPT = [(ast.FunctionDef, 'returns'), (ast.Return, 'value'), (ast.AnnAssign, 'value'), (ast.Raise, 'cause'),
           (ast.Assert, 'msg'), (ast.arg, 'annotation'), (ast.AsyncFunctionDef, 'returns')]

    def _opt_sites(self, ss, want_set):
        out = []
        for s in ss:
            if s.zone != '' or is_foreign(s.node, self.work):
                continue
            for cls, f in self.OPT:
                if isinstance(s.node, cls):
                    if cls is ast.Raise and s.node.exc is None:
                        continue
                    if cls is ast.arg and isinstance(s.parent, ast.arguments) and False:
                        continue
                    if (getattr(s.node, f) is None) == want_set:
                        out.append((s.node, f))
        return out

    def m_opt_set(self, a, ss):
        c = self._opt_sites(ss, True)
        if not c:
            return None
        # lambda arguments cannot take annotations
        n, f = self.r.choice(c)
        if isinstance(n, ast.arg):
            for s in ss:
                if isinstance(s.node, ast.Lambda) and contains(s.node.args, n):
                    return None
        setattr(n, f, new_expr(self.r, 1))
        return 'opt_set', f'{type(n).__name__}.{f}'

    def m_opt_unset(self, a, ss):
        c = self._opt_sites(ss, False)
        if not c:
            return None
        n, f = self.r.choice(c)
        setattr(n, f, None)
        return 'opt_unset', f'{type(n).__name__}.{f}'

    def m_global_names(self, a, ss):
        c = self._nodes(ss, (ast.Global, ast.Nonlocal))
        if not c:
            return None
        s = self.r.choice(c)
        k = self.r.randrange(3)
        if k == 0:
            s.node.names.insert(self.r.randint(0, len(s.node.names)), self.r.choice(IDENTS))
        elif k == 1 and len(s.node.names) > 1:
            idx = self.r.randrange(len(s.node.names))
            try:
                seg = ast.get_source_segment(self.work.src, s.node) or ''
            except Exception:
                seg = '\\\n'
            if '\\\n' in seg:
                return None       # deletion in a names list written with a backslash continuation: C13-F10
            del s.node.names[idx]
        else:
            s.node.names[self.r.randrange(len(s.node.names))] = self.r.choice(IDENTS)
        return 'global_names', f'{type(s.node).__name__}.names'

    # -- edits that valid ASTs allow but the field-by-field replay refuses (ValueError / NodeError -> retry at the parent) ---
    def m_imp_relative(self, a, ss):
        """`from a import b` -> `from . import b`: module removed, level raised"""
        c = [s for s in self._nodes(ss, ast.ImportFrom) if s.node.module and '.' not in s.node.module
             and not any(al.name == '*' for al in s.node.names)]
        if not c:
            return None
        s = self.r.choice(c)
        s.node.module = None
        s.node.level = (s.node.level or 0) + 1
        return 'imp_relative', 'ImportFrom.module'

    def m_imp_level(self, a, ss):
        c = [s for s in self._nodes(ss, ast.ImportFrom) if s.node.module]
        if not c:
            return None
        s = self.r.choice(c)
        lv = s.node.level or 0
        s.node.level = self.r.choice([x for x in (0, 1, 2) if x != lv])
        return 'imp_level', 'ImportFrom.level'

    def m_imp_module(self, a, ss):
        c = [s for s in self._nodes(ss, ast.ImportFrom) if s.node.module]
        if not c:
            return None
        s = self.r.choice(c)
        s.node.module = self.r.choice([i for i in ('alpha', 'beta.gamma', 'k9') if i != s.node.module])
        return 'imp_module', 'ImportFrom.module'

    def _keywords(self, ss, want_none):
        return [s for s in self._nodes(ss, ast.keyword) if (s.node.arg is None) == want_none
                and isinstance(s.parent, (ast.Call, ast.ClassDef))]

    def m_kw_arg_none(self, a, ss):
        """`f(a=b)` -> `f(**b)`"""
        c = self._keywords(ss, False)
        if not c:
            return None
        s = self.r.choice(c)
        s.node.arg = None
        return 'kw_arg_none', f'{type(s.parent).__name__}.keywords'

    def m_kw_arg_name(self, a, ss):
        """`f(**b)` -> `f(k=b)`"""
        c = self._keywords(ss, True)
        if not c:
            return None
        s = self.r.choice(c)
        used = {k.arg for k in s.parent.keywords}
        names = [i for i in IDENTS if i not in used]
        if not names:
            return None
        s.node.arg = self.r.choice(names)
        return 'kw_arg_name', f'{type(s.parent).__name__}.keywords'

    def m_starred_toggle(self, a, ss):
        """Call.args element: `*x` -> `x`, `x` -> `*x`"""
        c = [s for s in ss if isinstance(s.parent, ast.Call) and s.field == 'args' and s.zone.replace('d', '') == ''
             and not is_foreign(s.parent, self.work) and not is_foreign(s.node, self.work)
             and not isinstance(s.node, (ast.GeneratorExp,))]
        if not c:
            return None
        s = self.r.choice(c)
        if isinstance(s.node, ast.Starred):
            s.set(s.node.value)
        else:
            s.set(ast.Starred(s.node, L()))
        return 'starred_toggle', 'Call.args'

    def m_alias_asname(self, a, ss):
        c = [s for s in self._nodes(ss, ast.alias) if s.node.name != '*']
        if not c:
            return None
        s = self.r.choice(c)
        s.node.asname = None if s.node.asname else self.r.choice(IDENTS)
        return 'alias_asname', f'{type(s.parent).__name__}.names'

    def m_handler_name(self, a, ss):
        c = [s for s in self._nodes(ss, ast.ExceptHandler) if s.node.type is not None]
        if not c:
            return None
        s = self.r.choice(c)
        s.node.name = None if s.node.name else self.r.choice(IDENTS)
        return 'handler_name', 'ExceptHandler.name'

    # -- special single-shot kinds (each has its own narrow signature) -------------------------------------------------
    def m_prim_conflate(self, a, ss):
        """change a Constant to a value that is `==` to the old one but of another type (1 -> True, 0 -> False, 2 -> 2.0)"""
        c = [s for s in self._nodes(ss, ast.Constant) if type(s.node.value) in (int, bool, float)
             and not isinstance(s.parent, (ast.MatchValue, ast.MatchSingleton))]
        if not c:
            return None
        s = self.r.choice(c)
        v = s.node.value
        if type(v) is bool:
            s.node.value = int(v)
        elif type(v) is int:
            s.node.value = bool(v) if v in (0, 1) else float(v)
            if s.node.value != v:
                return None
        else:
            if v != int(v):
                return None
            s.node.value = int(v)
        return 'prim_conflate', 'Constant.value'

    def m_prim_ellipsis(self, a, ss):
        """Constant.value := Ellipsis"""
        c = [s for s in self._nodes(ss, ast.Constant) if s.node.value is not ... and isinstance(s.node.value, (int, str))
             and not isinstance(s.parent, (ast.MatchValue, ast.MatchSingleton, ast.Expr))]
        if not c:
            return None
        s = self.r.choice(c)
        s.node.value = ...
        s.node.kind = None
        return 'prim_ellipsis', 'Constant.value'

    def m_prim_attr_int(self, a, ss):
        """the Constant that is the object of an attribute access becomes an int (`None.x` -> `5.x` needs a space / parens)"""
        c = [s for s in self._nodes(ss, ast.Constant) if isinstance(s.parent, ast.Attribute) and s.field == 'value'
             and not isinstance(s.node.value, (int, float, complex))]
        if not c:
            return None
        s = self.r.choice(c)
        s.node.value = 5
        s.node.kind = None
        return 'prim_attr_int', 'Constant.value'

    def m_foreign_conflate(self, a, ss):
        """a node of another FST tree inside which a Constant was changed to an == value of another type (1 -> True, 2 -> 2.0)"""
        t = self._expr_target(ss)
        if not t:
            return None
        for _ in range(6):
            n = self._foreign_expr()
            if n is None:
                continue
            cs = [x for x in ast.walk(n) if isinstance(x, ast.Constant) and type(x.value) in (int, bool)]
            if not cs:
                continue
            x = self.r.choice(cs)
            v = x.value
            x.value = int(v) if type(v) is bool else bool(v) if v in (0, 1) and self.r.random() < 0.5 else float(v)
            if x.value != v:
                continue
            t.set(n)
            return 'foreign_conflate', 'Constant.value'
        return None

    def m_foreign_prim(self, a, ss):
        """a node of another FST tree with a primitive changed inside it (the link check cannot see that)"""
        t = self._expr_target(ss)
        n = self._foreign_expr() if t else None
        if n is None:
            return None
        names = [x for x in ast.walk(n) if isinstance(x, ast.Name)]
        if not names:
            return None
        x = self.r.choice(names)
        x.id = x.id + '_changed'
        t.set(n)
        return 'foreign_prim', 'Name.id'


# ---- oracles ------------------------------------------------------------------------------------------------------------

_CTX = re.compile(r',? ?ctx=(Load|Store|Del)\(\)')


def norm_dump(a):
    """ast.dump without ctx (derived from position in valid trees; the result's ctx is checked by the C01 oracle) and with
    docstring-position multi-line strings cleaned (reconcile runs with docstr=True: docstring indentation is formatting)."""
    a2 = deep_new(a)
    for n in ast.walk(a2):
        if isinstance(n, ast.Expr) and isinstance(n.value, ast.Constant) and isinstance(n.value.value, str) \
                and '\n' in n.value.value:
            n.value.value = inspect.cleandoc(n.value.value)
        if isinstance(n, ast.Constant):
            n.kind = None
    return _CTX.sub('', ast.dump(a2))


def stmt_text(lines_bytes, n):
    """own text of statement `n` (first decorator to end position) plus the same-line trailing comment"""
    start = n.lineno
    col = n.col_offset
    decos = getattr(n, 'decorator_list', None)
    if decos:
        start = decos[0].lineno
        col = None
    out = []
    for ln in range(start, n.end_lineno + 1):
        b = lines_bytes[ln - 1]
        if ln == n.end_lineno:
            rest = b[n.end_col_offset:]
            keep = rest if re.fullmatch(rb'\s*(#.*)?', rest) else b''
            b = b[:n.end_col_offset] + keep.rstrip()
        if ln == start and col is not None:
            b = b[col:]
        out.append(b)
    return b'\n'.join(out)


def snapshot_stmts(root):
    """for every statement: path (list of (field, idx)), chain of object ids from the root, ids of its subtree, dump"""
    out = []

    def go(n, path, chain, objs):
        for field, v in ast.iter_fields(n):
            if isinstance(v, list):
                for i, c in enumerate(v):
                    if isinstance(c, ast.AST):
                        visit(c, path + [(field, i)], chain, objs)
            elif isinstance(v, ast.AST):
                visit(v, path + [(field, None)], chain, objs)

    def visit(c, path, chain, objs):
        ch = chain + [id(c)]
        if isinstance(c, ast.stmt):
            # `nodes` / `objs` keep every object alive: an id() of a freed node can be reused by a node created later
            out.append({'path': path, 'chain': ch, 'ids': [id(x) for x in ast.walk(c)], 'dump': ast.dump(c), 'node': c,
                        'nodes': list(ast.walk(c)), 'objs': objs + [c]})
        go(c, path, ch, objs + [c])

    go(root, [], [id(root)], [root])
    return out


def follow(root, path):
    chain = [id(root)]
    n = root
    for field, i in path:
        v = getattr(n, field, None)
        if i is not None:
            if not isinstance(v, list) or i >= len(v):
                return None, chain
            v = v[i]
        if not isinstance(v, ast.AST):
            return None, chain
        n = v
        chain.append(id(n))
    return n, chain
