#!/bin/bash
# seedtool.sh <worktree> <A|B> <seed-id> <check ids...>
# 1. confirm in the scratch worktree: tests still pass with the change, demo fails with it and passes without it
# 2. store under /verif/seeded/<seed-id>/ ; 3. apply to /repo, run the given checks, undo.
set -u
WT=$1; V=$2; ID=$3; shift 3
D=$WT/_seed/$V
cd $WT || exit 2
git checkout -q -- . ; git apply $D/patch.diff || { echo "PATCH DOES NOT APPLY"; exit 2; }
echo "== tests with change"; PYTHONPATH=$WT/src /venv/bin/python -m pytest -q -p no:cacheprovider --timeout=900 2>&1 | grep -E "passed|failed" | tail -1
PYTHONPATH=$WT/src /venv/bin/python -c "import fst,sys; print('import from', fst.__file__)"
echo "== demo with change"; /venv/bin/python $D/demo.py $WT > /tmp/demo_with_$$.txt 2>&1; echo "exit $?"; tail -3 /tmp/demo_with_$$.txt
git checkout -q -- .
echo "== demo without change"; /venv/bin/python $D/demo.py $WT > /tmp/demo_without_$$.txt 2>&1; echo "exit $?"; tail -2 /tmp/demo_without_$$.txt
mkdir -p /verif/seeded/$ID; cp $D/patch.diff $D/demo.py $D/meta.json /verif/seeded/$ID/
cd /verif
if [ "${SEED_IN_REPO:-0}" = "1" ]; then
  git -C /repo apply $D/patch.diff || { echo "DOES NOT APPLY TO /repo"; exit 2; }
  for c in "$@"; do echo "== check $c on seeded /repo"; ./check $c 2>&1 | grep -E "VIOLATION|HELD|VIOLATED|BROKEN" | head -4; done
  git -C /repo checkout -- .
  git -C /repo status --short | wc -l
else
  # while other workers run checks against /repo, use a scratch copy of /repo's working tree instead of /repo itself
  S=/tmp/seedcheck-$$; rm -rf $S; mkdir -p $S; cp -r /repo/src $S/src
  patch -s -p1 -d $S < $D/patch.diff || { echo "DOES NOT APPLY TO COPY"; rm -rf $S; exit 2; }
  for c in "$@"; do echo "== check $c on seeded copy"; PFST_REPO=$S VERIF_EVIDENCE_DIR=$S/evidence ./check $c 2>&1 | grep -E "VIOLATION|HELD|VIOLATED|BROKEN" | head -4; done
  rm -rf $S
fi
