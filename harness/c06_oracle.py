"""C06 oracle: what every reported location SHOULD be, computed only from CPython `ast` + `tokenize` (no pfst code).

Coordinates here: 0-based line, character column (like `FST.loc`).  `Oracle(src)` parses and tokenizes once;
`expected_*` methods answer per CPython-ast node (the harness pairs pfst nodes with these nodes by parallel traversal).

Every method returns `None` when the question cannot be decided soundly from tokens alone (the caller then skips the
check and tallies the exclusion).
"""

from __future__ import annotations

import ast
import io
import tokenize

SKIP_TOK = {tokenize.NL, tokenize.NEWLINE, tokenize.COMMENT, tokenize.INDENT, tokenize.DEDENT, tokenize.ENDMARKER}
OPEN, CLOSE = '([{', ')]}'

BINOP_STR = {ast.Add: '+', ast.Sub: '-', ast.Mult: '*', ast.Div: '/', ast.FloorDiv: '//', ast.Mod: '%', ast.Pow: '**',
             ast.LShift: '<<', ast.RShift: '>>', ast.BitOr: '|', ast.BitXor: '^', ast.BitAnd: '&', ast.MatMult: '@'}
UNOP_STR = {ast.Not: 'not', ast.USub: '-', ast.UAdd: '+', ast.Invert: '~'}
CMP_STR = {ast.Eq: ['=='], ast.NotEq: ['!='], ast.Lt: ['<'], ast.LtE: ['<='], ast.Gt: ['>'], ast.GtE: ['>='],
           ast.Is: ['is'], ast.IsNot: ['is', 'not'], ast.In: ['in'], ast.NotIn: ['not', 'in']}


class Tok:
    __slots__ = ('type', 's', 'start', 'end', 'i')

    def __init__(self, t, i):
        self.type = t.type
        self.s = t.string
        self.start = (t.start[0] - 1, t.start[1])
        self.end = (t.end[0] - 1, t.end[1])
        self.i = i

    def __repr__(self):
        return f'Tok({self.s!r}@{self.start})'


class Oracle:
    def __init__(self, src: str):
        self.src = src
        self.lines = src.split('\n')
        self.blines = [l.encode() for l in self.lines]
        self.tree = ast.parse(src)
        raw = list(tokenize.generate_tokens(io.StringIO(src).readline))
        self.comments = {}          # line -> (col, end_col) of the comment token on that line
        toks = []
        for t in raw:
            if t.type == tokenize.COMMENT:
                self.comments[t.start[0] - 1] = (t.start[1], t.end[1])
            if t.type in SKIP_TOK:
                continue
            toks.append(Tok(t, len(toks)))
        self.toks = toks
        self.by_start = {t.start: t for t in toks}
        self.by_end = {t.end: t for t in toks}
        # bracket matching on the token stream (f-string replacement fields tokenize as ordinary OP tokens in 3.12)
        self.match = {}
        st = []
        for t in toks:
            if t.type == tokenize.OP:
                if t.s in OPEN:
                    st.append(t)
                elif t.s in CLOSE and st:
                    o = st.pop()
                    self.match[o.i] = t.i
                    self.match[t.i] = o.i
        self.parent = {}
        self.in_fstr = set()
        self.in_pattern = set()
        for p in ast.walk(self.tree):
            for c in ast.iter_child_nodes(p):
                self.parent[id(c)] = p
        for n in ast.walk(self.tree):
            if isinstance(n, ast.JoinedStr):
                for c in ast.walk(n):
                    if c is not n:
                        self.in_fstr.add(id(c))
            if isinstance(n, ast.pattern):
                for c in ast.walk(n):
                    if isinstance(c, ast.expr):
                        self.in_pattern.add(id(c))

    # ---- positions ---------------------------------------------------------------------------------------------
    def b2c(self, ln, bcol):
        return len(self.blines[ln][:bcol].decode('utf-8', errors='replace'))

    def span(self, n):
        """(start, end) in (line, char col) of a CPython node with positions"""
        return ((n.lineno - 1, self.b2c(n.lineno - 1, n.col_offset)),
                (n.end_lineno - 1, self.b2c(n.end_lineno - 1, n.end_col_offset)))

    def has_pos(self, n):
        return getattr(n, 'end_col_offset', None) is not None

    def tok_starting(self, pos):
        return self.by_start.get(pos)

    def tok_ending(self, pos):
        return self.by_end.get(pos)

    def toks_between(self, a, b):
        """tokens t with a <= t.start and t.end <= b"""
        return [t for t in self.toks if t.start >= a and t.end <= b]

    def first_last(self, n):
        """(first token, last token) of a positioned node, None if its ends are not on token boundaries"""
        s, e = self.span(n)
        a, b = self.by_start.get(s), self.by_end.get(e)
        if a is None or b is None:
            return None
        return a, b

    # ---- grouping parentheses -----------------------------------------------------------------------------------
    def enclosing_pairs(self, first: Tok, last: Tok):
        """pairs (open, close), innermost first, of '(' ')' that enclose exactly the token range first..last"""
        out = []
        a, b = first.i, last.i
        while a > 0 and b + 1 < len(self.toks):
            o, c = self.toks[a - 1], self.toks[b + 1]
            if o.type == tokenize.OP and o.s == '(' and c.type == tokenize.OP and c.s == ')' and self.match.get(o.i) == c.i:
                out.append((o, c))
                a, b = o.i, c.i
            else:
                break
        return out

    def delimiter_pair_of_parent(self, n):
        """The '(' token index of a parenthesis pair that belongs to the PARENT construct and may enclose exactly `n`
        (call arguments, class bases, MatchClass patterns, parenthesized with-items), or None.  'ambiguous' if it
        cannot be decided."""
        p = self.parent.get(id(n))
        if isinstance(p, ast.Call) and (n in p.args or any(n is k for k in p.keywords)):
            fl = self.first_last(p)
            if fl is None or fl[1].s != ')':
                return 'ambiguous'
            return self.match.get(fl[1].i)
        if isinstance(p, ast.MatchClass) and (n in p.patterns or n in p.kwd_patterns):
            fl = self.first_last(p)
            if fl is None or fl[1].s != ')':
                return 'ambiguous'
            return self.match.get(fl[1].i)
        if isinstance(p, ast.ClassDef) and (n in p.bases or any(n is k for k in p.keywords)):
            return self.classdef_open(p)
        if isinstance(p, ast.keyword):
            return None
        if isinstance(p, ast.withitem):
            w = self.parent.get(id(p))
            return self.with_open(w)
        return None

    def classdef_open(self, c):
        """index of the '(' opening the bases of a ClassDef (None if there is none)"""
        s, _ = self.span(c)
        t = self.by_start.get(s)
        if t is None or t.s != 'class':
            return 'ambiguous'
        i = t.i + 2        # class NAME
        if i < len(self.toks) and self.toks[i].s == '[':
            i = self.match[i] + 1
        if i < len(self.toks) and self.toks[i].s == '(':
            return i
        return None

    def with_open(self, w):
        """index of the '(' of the parenthesized with-items form; None if the statement does not use it; 'ambiguous'
        for `with (a): ...` (one item without `as`, where the grammar prefers the with-items reading but the AST
        cannot tell)."""
        s, _ = self.span(w)
        t = self.by_start.get(s)
        if t is None:
            return 'ambiguous'
        i = t.i
        if self.toks[i].s == 'async':
            i += 1
        if self.toks[i].s != 'with':
            return 'ambiguous'
        o = self.toks[i + 1]
        if o.s != '(':
            return None
        c = self.match.get(o.i)
        if c is None:
            return 'ambiguous'
        nxt = self.toks[c + 1] if c + 1 < len(self.toks) else None
        if nxt is None or nxt.s != ':':
            return None        # the parenthesis closes before the header ends: it groups an expression
        # '(' ... ')' ':'  -> with-items form iff more than one item or an `as` directly inside
        if len(w.items) > 1 or w.items[0].optional_vars is not None:
            # but `with (a, b) as c:` cannot reach here (next token would be `as`)
            return o.i
        # single item, no `as`: could have a trailing comma -> with-items form for sure
        if self.toks[c - 1].s == ',':
            return o.i
        return 'ambiguous'

    def grouping(self, n, first=None, last=None):
        """(n_pairs, (start, end) of the outermost grouping pair or of the node) for an expr / pattern node; None if
        undecidable."""
        if first is None:
            fl = self.first_last(n)
            if fl is None:
                return None
            first, last = fl
        pairs = self.enclosing_pairs(first, last)
        d = self.delimiter_pair_of_parent(n)
        if d == 'ambiguous':
            return None
        if d is not None:
            k = [i for i, pc in enumerate(pairs) if pc[0].i == d]
            if k:
                pairs = pairs[:k[0]]      # the parent's own pair (and anything outside it) is not ours
        if pairs:
            return len(pairs), (pairs[-1][0].start, pairs[-1][1].end)
        return 0, (first.start, last.end)

    def grouping_any(self, n):
        """(n_pairs, span) of ALL parenthesis pairs that enclose exactly the node, whoever owns them (`shared=None`)"""
        fl = self.first_last(n)
        if fl is None:
            return None
        pairs = self.enclosing_pairs(*fl)
        if pairs:
            return len(pairs), (pairs[-1][0].start, pairs[-1][1].end)
        return 0, (fl[0].start, fl[1].end)

    def group_span(self, n):
        g = self.grouping(n)
        return None if g is None else g[1]

    # ---- nodes without positions ------------------------------------------------------------------------------------
    def op_tokens_between(self, left, right):
        """tokens strictly between two positioned nodes, minus parentheses"""
        _, le = self.span(left)
        rs, _ = self.span(right)
        ts = [t for t in self.toks if t.start >= le and t.end <= rs]
        return [t for t in ts if not (t.type == tokenize.OP and t.s in '()')]

    def expected_op(self, p, op, i):
        """span of the operator `op` (field index `i`) of the CPython node `p`: [(start, end), ...] acceptable answers,
        or None.  (CPython shares one instance per operator class, so the parent must be given.)"""
        if isinstance(p, ast.BinOp):
            ts = self.op_tokens_between(p.left, p.right)
            if len(ts) == 1 and ts[0].s == BINOP_STR[type(op)]:
                return [(ts[0].start, ts[0].end)]
            return None
        if isinstance(p, ast.AugAssign):
            ts = self.op_tokens_between(p.target, p.value)
            if len(ts) == 1 and ts[0].s == BINOP_STR[type(op)] + '=':
                t = ts[0]
                return [(t.start, t.end), (t.start, (t.end[0], t.end[1] - 1))]   # with or without the '='
            return None
        if isinstance(p, ast.UnaryOp):
            s, _ = self.span(p)
            t = self.by_start.get(s)
            if t is not None and t.s == UNOP_STR[type(op)]:
                return [(t.start, t.end)]
            return None
        if isinstance(p, ast.Compare):
            left = p.left if i == 0 else p.comparators[i - 1]
            ts = self.op_tokens_between(left, p.comparators[i])
            if [t.s for t in ts] == CMP_STR[type(op)]:
                return [(ts[0].start, ts[-1].end)]
            return None
        return None

    def expected_comprehension(self, c):
        fl = self.first_last(c.target)
        if fl is None:
            return None
        # walk back over '(' of the target's grouping parentheses to the `for`
        i = fl[0].i - 1
        while i >= 0 and self.toks[i].s == '(':
            i -= 1
        if i < 0 or self.toks[i].s != 'for':
            return None
        start = self.toks[i].start
        if c.is_async:
            if i == 0 or self.toks[i - 1].s != 'async':
                return None
            start = self.toks[i - 1].start
        last = c.ifs[-1] if c.ifs else c.iter
        g = self.group_span(last)
        if g is None:
            return None
        return (start, g[1])

    def expected_withitem(self, w):
        wi = self.parent.get(id(w))
        if self.with_open(wi) == 'ambiguous':
            return None
        a = self.group_span(w.context_expr)
        if a is None:
            return None
        if w.optional_vars is None:
            return a
        b = self.group_span(w.optional_vars)
        if b is None:
            return None
        return (a[0], b[1])

    def stmt_first_pos(self, s):
        """position of the first token of a statement ('@' of the first decorator for decorated definitions)"""
        decos = getattr(s, 'decorator_list', None)
        if decos:
            at = self.deco_at(decos[0])
            if at is None:
                return None
            return at.start
        return self.span(s)[0]

    def deco_at(self, d):
        fl = self.first_last(d)
        if fl is None:
            return None
        i = fl[0].i - 1
        while i >= 0 and self.toks[i].s == '(':
            i -= 1
        if i < 0 or self.toks[i].s != '@':
            return None
        return self.toks[i]

    def expected_match_case(self, mc):
        fl = self.first_last(mc.pattern)
        if fl is None:
            return None
        i = fl[0].i - 1
        while i >= 0 and self.toks[i].s == '(':
            i -= 1
        if i < 0 or self.toks[i].s != 'case':
            return None
        start = self.toks[i].start
        if not mc.body:
            return None
        _, e = self.span(mc.body[-1])
        outs = [(start, e)]
        t = self.by_end.get(e)
        if t is not None and t.i + 1 < len(self.toks) and self.toks[t.i + 1].s == ';':
            outs.append((start, self.toks[t.i + 1].end))      # documented: a trailing ';' is part of the case
        return outs

    def expected_arguments(self, a):
        """acceptable spans [(start, end)] of an `arguments` node: the text between its delimiters"""
        p = self.parent.get(id(a))
        if isinstance(p, ast.Lambda):
            s, _ = self.span(p)
            t = self.by_start.get(s)
            if t is None or t.s != 'lambda':
                return None
            fl = self.first_last(p.body)
            if fl is None:
                return None
            i = fl[0].i - 1
            while i >= 0 and self.toks[i].s == '(':
                i -= 1
            if i < 0 or self.toks[i].s != ':':
                return None
            colon = self.toks[i]
            outs = [(t.end, colon.start)]
            line = self.lines[t.end[0]]
            if line[t.end[1]:t.end[1] + 1].isspace() and (t.end[0], t.end[1] + 1) <= colon.start:
                outs.append(((t.end[0], t.end[1] + 1), colon.start))     # one separating blank after `lambda`
            return outs
        if isinstance(p, (ast.FunctionDef, ast.AsyncFunctionDef)):
            s, _ = self.span(p)
            t = self.by_start.get(s)
            if t is None:
                return None
            i = t.i
            if self.toks[i].s == 'async':
                i += 1
            if self.toks[i].s != 'def':
                return None
            i += 2
            if self.toks[i].s == '[':
                i = self.match[i] + 1
            if self.toks[i].s != '(':
                return None
            o = self.toks[i]
            c = self.toks[self.match[i]]
            return [(o.end, c.start)]
        return None

    def expected_delims(self, n):
        """span of the node's own closing delimiter pair: Call / MatchClass '(' ... ')', Subscript '[' ... ']'"""
        fl = self.first_last(n)
        if fl is None:
            return None
        want = ']' if isinstance(n, ast.Subscript) else ')'
        if fl[1].s != want or fl[1].i not in self.match:
            return None
        return (self.toks[self.match[fl[1].i]].start, fl[1].end)

    def expected_bases_pars(self, c):
        """(n, span) of `_loc_ClassDef_bases_pars`: the parentheses after the class name / type parameters, or (0, the
        gap from there to the header ':')"""
        i = self.classdef_open(c)
        if i == 'ambiguous':
            return None
        if i is not None:
            return 1, (self.toks[i].start, self.toks[self.match[i]].end)
        s, _ = self.span(c)
        t = self.by_start.get(s)
        if t is None:
            return None
        j = t.i + 1                       # NAME
        if j + 1 < len(self.toks) and self.toks[j + 1].s == '[':
            j = self.match[j + 1]
        nxt = self.toks[j + 1]
        if nxt.s != ':':
            return None
        return 0, (self.toks[j].end, nxt.start)

    def expected_kwd_attr(self, mc, i):
        """span of the i-th keyword attribute NAME of a MatchClass"""
        fl = self.first_last(mc.kwd_patterns[i])
        if fl is None:
            return None
        j = fl[0].i - 1
        while j >= 0 and self.toks[j].s == '(':
            j -= 1
        if j < 1 or self.toks[j].s != '=' or self.toks[j - 1].s != mc.kwd_attrs[i]:
            return None
        t = self.toks[j - 1]
        return (t.start, t.end)

    def expected_type_params_brackets(self, n):
        """(span of '[' ... ']' or None, end of the name) for FunctionDef / AsyncFunctionDef / ClassDef / TypeAlias"""
        s, _ = self.span(n)
        t = self.by_start.get(s)
        if t is None:
            return None
        i = t.i
        if self.toks[i].s == 'async':
            i += 1
        if self.toks[i].s not in ('def', 'class', 'type'):
            return None
        name = self.toks[i + 1]
        nxt = self.toks[i + 2] if i + 2 < len(self.toks) else None
        if nxt is not None and nxt.s == '[' and nxt.i in self.match:
            return ((nxt.start, self.toks[self.match[nxt.i]].end), name.end)
        return (None, name.end)

    def expected_mapping_rest(self, mm):
        """(span of the rest NAME, start of its '**') of a MatchMapping with `rest`"""
        fl = self.first_last(mm)
        if fl is None or fl[1].s != '}':
            return None
        j = fl[1].i - 1
        if self.toks[j].s == ',':
            j -= 1
        if j < 1 or self.toks[j].s != mm.rest or self.toks[j - 1].s != '**':
            return None
        return ((self.toks[j].start, self.toks[j].end), self.toks[j - 1].start)

    def expected_bloc(self, s, loc_end):
        """bloc of a block statement: from the first decorator's '@' (or the statement start) to the end, extended to
        the end of the line when a comment follows on the last line"""
        start = self.stmt_first_pos(s)
        if start is None:
            return None
        end = self.span(s)[1]
        cm = self.comments.get(end[0])
        if cm is not None and cm[0] >= end[1]:
            end = (end[0], len(self.lines[end[0]]))
        return (start, end)

    def header_colon(self, s):
        """the ':' token that ends the header of a block statement (before body[0])"""
        body = getattr(s, 'body', None)
        if not body or not isinstance(body, list):
            return None
        pos = self.stmt_first_pos(body[0])
        if pos is None:
            return None
        t = self.by_start.get(pos)
        if t is None or t.i == 0:
            return None
        c = self.toks[t.i - 1]
        return c if c.s == ':' else None
