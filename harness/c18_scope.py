"""C18: sub()/subn() with scope=True against a reference that implements Python's scoping on the CPython tree.

What belongs to the scope of a function F (and is therefore substituted by F.subn(..., scope=True)): the statements of
its body, recursively, EXCEPT the inside of nested scopes; of a nested def / class / lambda / comprehension only the
parts that are evaluated in the enclosing scope: decorators, parameter defaults and kw_defaults, ALL annotations (of
every kind of parameter, with or without default) and `returns`, class bases and keyword values, the first iterator of a
comprehension, and the targets of walrus expressions inside comprehensions.  Programs: nested definitions with every
parameter shape, the searched name used in each of these places and inside the nested scopes.
"""

from __future__ import annotations

import ast
import random

NAME = 'cfg'
NEW = 'config'
COMPS = (ast.ListComp, ast.SetComp, ast.DictComp, ast.GeneratorExp)


def scope_names(func):
    """ids of the Name nodes called NAME that are evaluated in the scope of `func`"""
    out = []

    def walrus_targets(n):
        for x in ast.walk(n):
            if isinstance(x, ast.NamedExpr) and isinstance(x.target, ast.Name):
                out.append(x.target)

    def args_outside(a, annotations=True):
        for d in a.defaults + [d for d in a.kw_defaults if d is not None]:
            visit(d)
        if annotations:
            for arg in a.posonlyargs + a.args + ([a.vararg] if a.vararg else []) + a.kwonlyargs + ([a.kwarg] if a.kwarg else []):
                if arg.annotation is not None:
                    visit(arg.annotation)

    def visit(n):
        if isinstance(n, (ast.FunctionDef, ast.AsyncFunctionDef)):
            for d in n.decorator_list:
                visit(d)
            args_outside(n.args)
            if n.returns is not None:
                visit(n.returns)
        elif isinstance(n, ast.ClassDef):
            for d in n.decorator_list + n.bases:
                visit(d)
            for k in n.keywords:
                visit(k.value)
        elif isinstance(n, ast.Lambda):
            args_outside(n.args, False)
        elif isinstance(n, COMPS):
            visit(n.generators[0].iter)
            for part in ([n.elt] if hasattr(n, 'elt') else [n.key, n.value]):
                walrus_targets(part)
            for i, g in enumerate(n.generators):
                for c in g.ifs:
                    walrus_targets(c)
                if i:
                    walrus_targets(g.iter)
        else:
            if isinstance(n, ast.Name):
                out.append(n)
            for c in ast.iter_child_nodes(n):
                visit(c)

    for s in func.body:
        visit(s)
    return {id(x) for x in out if x.id == NAME}


def reference(src, idx=0):
    tree = ast.parse(src)
    ids = scope_names(tree.body[idx])
    n = 0
    for x in ast.walk(tree):
        if isinstance(x, ast.Name) and id(x) in ids:
            x.id = NEW
            n += 1
    return ast.dump(tree), n


def _params(rng):
    """a parameter list with every kind of parameter, annotations / defaults present or absent independently"""
    use = lambda: rng.choice([f'{NAME}.T', f'{NAME}.d', f'{NAME}', 'int', 'other.v'])
    def p(name, default_ok=True, force_default=False):
        s = name
        if rng.random() < 0.5:
            s += ': ' + use()
        if force_default or (default_ok and rng.random() < 0.4):
            s += (' = ' if ':' in s else '=') + use()
        return s
    parts = []
    had_default = False
    if rng.random() < 0.4:
        for i in range(rng.randint(1, 2)):
            x = p(f'po{i}', force_default=had_default and True)
            had_default = had_default or '=' in x
            parts.append(x)
        parts.append('/')
    for i in range(rng.randint(0, 2)):
        x = p(f'a{i}', force_default=had_default)
        had_default = had_default or '=' in x
        parts.append(x)
    star = rng.random()
    if star < 0.35:
        parts.append('*' + ('va: ' + use() if rng.random() < 0.5 else 'va'))
    elif star < 0.75:
        parts.append('*')
    if star < 0.75:
        n = rng.randint(0 if star < 0.35 else 1, 3)
        for i in range(n):
            parts.append(p(f'k{i}'))            # keyword-only: with / without default, with / without annotation
    if rng.random() < 0.4:
        parts.append('**' + ('kw: ' + use() if rng.random() < 0.5 else 'kw'))
    if parts and parts[-1] == '*':
        parts.pop()
    return ', '.join(parts)


def program(rng):
    import textwrap
    u = lambda: rng.choice([f'{NAME}.x', f'{NAME}', f'f({NAME})', 'other'])
    body = [f'v = {u()}']
    for _ in range(rng.randint(2, 5)):
        k = rng.randrange(7)
        if k == 0:
            deco = f'@{NAME}.deco\n' if rng.random() < 0.5 else ''
            ret = f' -> {u()}' if rng.random() < 0.5 else ''
            a = 'async ' if rng.random() < 0.15 else ''
            body.append(f'{deco}{a}def inner({_params(rng)}){ret}:\n    return {u()}')
        elif k == 1:
            deco = f'@{NAME}.cd\n' if rng.random() < 0.4 else ''
            bases = ', '.join([u() for _ in range(rng.randint(0, 2))] + ([f'metaclass={u()}'] if rng.random() < 0.4 else []))
            body.append(f'{deco}class K({bases}):\n    attr = {u()}\n    def m(self, q={u()}): return {u()}')
        elif k == 2:
            body.append(f'lam = lambda p, q={u()}, *, r={u()}: {u()}')
        elif k == 3:
            body.append(f'c = [{u()} for e in {u()} if {u()} for g in {u()}]')
        elif k == 4:
            body.append(f'd = {{{u()}: ({NAME} := e) for e in {u()}}}')
        elif k == 5:
            body.append(f'g = ({u()} for e in [{u()} for h in {u()}])')
        else:
            body.append(f'if {u()}:\n    w = {u()}\nelse:\n    del w')
    body.append(f'return {u()}')
    deco = f'@{NAME}.outer_deco\n' if rng.random() < 0.3 else ''
    return (f'{deco}def outer(p: {u()} = {u()}, *, q: {NAME}.Q):\n' + textwrap.indent('\n'.join(body), '    ')
            + f'\n{NAME}.after = 1\n')


FIXED = [
    f'def outer():\n    def inner(*, key: {NAME}.Key): pass\n    return {NAME}\n',
    f'def outer():\n    def inner(a: {NAME}.A, /, b: {NAME}.B = {NAME}.b, *va: {NAME}.V, k1: {NAME}.K1, k2: {NAME}.K2 = {NAME}.k2, k3, **kw: {NAME}.W) -> {NAME}.R: return {NAME}\n',
    f'def outer():\n    lam = lambda x, *, k={NAME}.d, j: {NAME}\n    class K({NAME}.B, metaclass={NAME}.M):\n        x = {NAME}\n',
    f'def outer():\n    return [{NAME} for a in {NAME}.it for b in {NAME}.more if ({NAME} := b)]\n',
]


def cases(rng, n):
    out = [{'src': s, 'back': b} for s in FIXED for b in (False, True)]
    tries = 0
    while len(out) < n + 2 * len(FIXED) and tries < n * 5:
        tries += 1
        src = program(rng)
        try:
            ast.parse(src)
        except SyntaxError:
            continue
        out.append({'src': src, 'back': rng.random() < 0.5})
    return out


def run_case(c):
    from fst import FST
    from fst.match import MName
    res = {'case': c}
    exp_dump, exp_n = reference(c['src'])
    try:
        root = FST(c['src'], 'exec')
        idx = 0
        r = root.body[idx].subn(MName(NAME), NEW, scope=True, back=c['back'])
        got_src = root.src
        got = ast.dump(ast.parse(got_src))
    except Exception as e:
        res['fail'] = ('raised', f'subn(scope=True, back={c["back"]}) raised {type(e).__name__}: {e}')
        return res
    res['nsub'] = r[1]
    res['out'] = got_src
    if got != exp_dump:
        res['fail'] = ('scope-differs', f'subn(MName({NAME!r}), {NEW!r}, scope=True, back={c["back"]}) does not rename exactly '
                       f'the names evaluated in the function scope: {r[1]} substitutions, Python scoping gives {exp_n}')
    elif (r[1], r[2]) != (exp_n, exp_n):
        res['fail'] = ('scope-counts', f'counts {(r[1], r[2])}, Python scoping gives {exp_n}')
    return res
