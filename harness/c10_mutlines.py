#!/usr/bin/env python3
"""c10_mutlines.py <operator> <file> <from-line> <to-line>: harness/mutants.py restricted to the sites in a line range
(the anchor functions of C10 inside large files).  Same environment variables and result files as mutants.py."""
import sys
from pathlib import Path

here = Path(__file__).resolve().parent
op, fname, lo, hi = sys.argv[1], sys.argv[2], int(sys.argv[3]), int(sys.argv[4])
src = (here / 'mutants.py').read_text()
marker = 'import random\n'
head, tail = src.split(marker, 1)
tail = tail.replace("    ss = sites(text)\n", "    ss = [t for t in sites(text) if %d <= text.count('\\n', 0, t[0]) + 1 <= %d]\n" % (lo, hi))
sys.argv = [str(here / 'mutants.py'), op, fname]
exec(compile(head + marker + tail, str(here / 'mutants.py'), 'exec'), {'__name__': '__main__', '__file__': str(here / 'mutants.py')})
