"""C09c — the executable precedence-climbing parser of the spec grammar (lean/Pfst/Parse.lean) against its printer and
against CPython's parser, on the operator fragment.

(a) trees of the fragment: the Lean printer (any covering policy) then the Lean parser must give the tree back, also in
    front of a continuation that cannot extend the phrase (re-checks `parse_pr` on the executable definitions), and
    CPython must read the printed text as the same tree;
(b) RAW TOKEN LISTS over the fragment's alphabet (enumerated, random, mutated prints): the Lean parser accepts the phrase
    in slot S  iff  CPython reads the text, placed in a context whose grammar nonterminal is S, as a single operand of
    that context, and then the trees agree.  This validates the transcription of levels and slots in both directions
    on phrases the printer would never produce.
"""

import ast
import random
import warnings

ATOM = 14
TEST, OR, AND, NOT, CMP, BOR, BXOR, BAND, SHIFT, ARITH, TERM, FACTOR, POWER, AWAIT = range(14)
BINLEVEL = [BOR, BXOR, BAND, SHIFT, SHIFT, ARITH, ARITH, TERM, TERM, TERM, TERM, TERM, POWER]
T_POW, T_IF, T_ELSE, T_LAMBDA, T_COLON, T_AWAIT, T_NOT = 20, 40, 41, 42, 43, 45, 59
T_COMMA, T_DOT, T_LB, T_RB = 49, 50, 51, 52


def _c09():
    from props import C09      # late: props.C09 imports this module
    return C09


def leaf_name(i):
    return ['leaf', ['name', i], ['lad', ATOM]]


def leaf_int(i):
    return ['leaf', ['int', i], ['int']]


# ---------------------------------------------------------------------------------------------------------------------
# trees of the fragment

FRAG_KINDS = ['bin', 'un', 'not', 'boolop', 'cmp', 'ifexp', 'lambda', 'await', 'attr', 'subscr', 'call']


def mk(kind, kids_fn, v):
    if kind == 'bin':
        return ['node', ['bin', v % 13], [kids_fn(0), kids_fn(1)]]
    if kind == 'un':
        return ['node', ['un', v % 3], [kids_fn(0)]]
    if kind == 'boolop':
        return ['node', ['boolop', bool(v % 2)], [kids_fn(i) for i in range(2 + v // 2 % 2)]]
    if kind == 'cmp':
        n = 1 + v % 2
        return ['node', ['cmp', [80 + (v // 2 // 10 ** i) % 10 for i in range(n)]], [kids_fn(i) for i in range(n + 1)]]
    if kind == 'ifexp':
        return ['node', ['ifexp'], [kids_fn(0), kids_fn(1), kids_fn(2)]]
    if kind == 'attr':
        return ['node', ['attr', v % 5], [kids_fn(0)]]
    if kind == 'subscr':
        return ['node', ['subscr'], [kids_fn(0), kids_fn(1)]]
    if kind == 'call':
        na = v % 4
        return ['node', ['call', na, []], [kids_fn(i) for i in range(1 + na)]]
    return ['node', [kind], [kids_fn(0)]]


class Gen:
    def __init__(self, rng):
        self.r = rng
        self.n = 0

    def leaf(self):
        if self.r.random() < 0.2:
            return leaf_int(self.r.randint(0, 9))
        self.n += 1
        return leaf_name(self.n % 7)

    def rand(self, depth):
        if depth <= 0 or self.r.random() < 0.12:
            return self.leaf()
        return mk(self.r.choice(FRAG_KINDS), lambda i: self.rand(depth - 1), self.r.randrange(1 << 20))


def arity_positions(kind):
    return {'bin': 2, 'boolop': 3, 'cmp': 3, 'ifexp': 3, 'subscr': 2, 'call': 4}.get(kind, 1)


def frag_trees(ctx, rng):
    g = Gen(rng)
    out = []
    # systematic: parent kind (all operator variants) x position x child kind (a few variants)
    for pk in FRAG_KINDS:
        pvars = {'bin': range(13), 'un': range(3), 'boolop': range(4), 'cmp': [0, 3, 11, 19], 'call': range(4)}.get(pk, [0])
        for pv in pvars:
            for ck in FRAG_KINDS:
                cvars = {'bin': [0, 2, 4, 5, 8, 12], 'boolop': [0, 1], 'cmp': [0, 17], 'call': [0, 2]}.get(ck, [0])
                for cv in cvars:
                    for pos in range(arity_positions(pk)):
                        used = [False]

                        def kid(i, pos=pos, ck=ck, cv=cv, used=used):
                            if i == pos:
                                used[0] = True
                                return mk(ck, lambda j: g.leaf(), cv)
                            return g.leaf()
                        e = mk(pk, kid, pv)
                        if used[0]:
                            out.append(e)
    for _ in range(1500 if ctx.quick else 20000):
        out.append(g.rand(rng.choice([2, 3, 3, 4, 5])))
    return out


SLOTS = [{'minLad': l} for l in range(15)] + [{'minLad': 0, 'named': True, 'tuple': True, 'yieldc': True}]
# continuations: (tokens, predicate on the slot level saying whether it can NOT continue a phrase of that level)
CONTS = [([['rp']], None), ([['sym', T_ELSE], ['name', 9]], None), ([['sym', T_COLON]], None), ([['name', 9]], None),
         ([['sym', T_IF], ['name', 9], ['sym', T_ELSE], ['name', 8]], None), ([['sym', 5], ['name', 9]], None),
         ([['sym', 70], ['name', 9]], None), ([['sym', T_POW], ['name', 9]], None), ([['sym', 82], ['name', 9]], None),
         ([['lp'], ['rp']], None), ([['sym', T_DOT], ['name', 9]], None), ([['sym', T_COMMA], ['name', 9]], None),
         ([['sym', T_RB]], None)]


def trees_roundtrip(ctx, rng):
    C09 = _c09()
    trees = frag_trees(ctx, rng)
    cases, meta = [], []
    for e in trees:
        slot = rng.choice(SLOTS) if rng.random() < 0.6 else SLOTS[0]
        seed = rng.choice([0, 0, 1, 2, 3, 4, 5])
        rest = rng.choice(CONTS)[0]
        cases.append({'f': 'C09c.roundtrip', 'e': e, 'slot': slot, 'seed': seed, 'rest': rest})
        meta.append((e, slot, seed, rest))
    outs = ctx.lean(cases)
    bad = []
    n_follow = 0
    for (e, slot, seed, rest), o in zip(meta, outs):
        o = o.get('out', o)
        if 'toks' not in o:
            bad.append(('driver', e, o))
            continue
        if not o['frag']:
            bad.append(('generator produced a tree outside inFrag', e, None))
            continue
        if not o['wf']:
            ctx.tally('c09c_roundtrip', 'not wf (skipped)')
            continue
        ctx.corr_cases += 1
        ctx.count(('c09c-rt', e, slot['minLad'], seed), any(t[0] == 'lp' for t in o['toks']))
        ctx.tally('c09c_roundtrip', 'minimal' if seed == 0 else 'over-parenthesised')
        if o['e'] != e:
            bad.append(('parse (pr P s e) != e', {'e': e, 'slot': slot, 'seed': seed, 'toks': o['toks']}, o['e']))
            continue
        if o['follow']:
            n_follow += 1
            if o['prefix'] is None or o['prefix']['e'] != e or o['prefix']['rest'] != len(rest):
                bad.append(('parseE (pr P s e ++ rest) != (e, rest) although follow holds',
                            {'e': e, 'slot': slot, 'seed': seed, 'toks': o['toks'], 'rest': rest}, o['prefix']))
                continue
        # the same printed phrase, read by CPython in a context of that slot
        ctxs = [c for c in CONTEXTS if c[0] == slot['minLad']] if len(slot) == 1 else [CONTEXTS[0]]
        if ctxs:
            got = cpython_read(o['toks'], rng.choice(ctxs))
            if got[:2] != ('ok', e):
                bad.append(('CPython reads the printed phrase differently', {'e': e, 'slot': slot, 'toks': o['toks'],
                                                                            'text': text_of(o['toks'])}, got))
    ctx.notes['c09c_roundtrip_trees'] = len(trees)
    ctx.notes['c09c_roundtrip_with_continuation'] = n_follow
    if trees:
        ctx.sample({'c09c_roundtrip': {'e': meta[len(meta) // 2][0], 'toks': outs[len(meta) // 2].get('out', {}).get('toks')}})
    if bad:
        for b in bad[:5]:
            if len(ctx.corr_disagreements) < 20:
                ctx.corr_disagreements.append({'corr': 'C09c print/parse round trip', 'what': b[0], 'case': b[1], 'got': b[2]})
        ctx.brk('correspondence', 'C09c print -> parse round trip (Lean executable definitions)',
                f'{len(bad)} cases; first: {bad[0]}')


# ---------------------------------------------------------------------------------------------------------------------
# CPython as the reader of raw phrases

def text_of(toks):
    """tokens -> source text as props/C09.py does (tok_text joined by blanks), except that an integer literal is glued
    to a following `.`: `1 .x` is Python only thanks to the blank, the grammar's `noInt` is about `1.x`"""
    C09 = _c09()
    out = []
    for i, t in enumerate(toks):
        out.append(C09.tok_text(t))
        if i + 1 < len(toks) and not (t[0] == 'int' and toks[i + 1] == ['sym', T_DOT]):
            out.append(' ')
    return ''.join(out)


OPERAND_END = ('name', 'int', 'rp')


def relex(toks):
    """The token list CPython's tokenizer sees for the text of `toks`: `+`/`-` are binary after an operand and unary
    elsewhere; `is` `not` and `not` `in` are one operator.  (The model has distinct tokens for these; the text does not.)"""
    out = []
    i = 0
    while i < len(toks):
        t = toks[i]
        if t[0] == 'sym':
            n = t[1]
            w = {5: '+', 6: '-', 30: '+', 31: '-'}.get(n)
            if w:
                after_operand = bool(out) and (out[-1][0] in OPERAND_END or out[-1] == ['sym', T_RB])
                n = {'+': 5, '-': 6}[w] if after_operand else {'+': 30, '-': 31}[w]
                out.append(['sym', n])
                i += 1
                continue
            nxt = toks[i + 1] if i + 1 < len(toks) else None
            if n == 86 and nxt == ['sym', T_NOT]:          # is not
                out.append(['sym', 87])
                i += 2
                continue
            if n == T_NOT and nxt == ['sym', 88]:          # not in
                out.append(['sym', 89])
                i += 2
                continue
        out.append(t)
        i += 1
    return out


def ast_to_e(n):
    """CPython tree -> abstract syntax of the fragment; raises KeyError outside the fragment"""
    C09 = _c09()
    if isinstance(n, ast.Name):
        if not (n.id[0] == 'n' and n.id[1:].isdigit()):
            raise KeyError('name')
        return leaf_name(int(n.id[1:]))
    if isinstance(n, ast.Constant):
        if type(n.value) is not int:
            raise KeyError('const')
        return leaf_int(n.value)
    if isinstance(n, ast.BinOp):
        return ['node', ['bin', C09.BIN_AST.index(type(n.op))], [ast_to_e(n.left), ast_to_e(n.right)]]
    if isinstance(n, ast.UnaryOp):
        if isinstance(n.op, ast.Not):
            return ['node', ['not'], [ast_to_e(n.operand)]]
        return ['node', ['un', C09.UN_AST.index(type(n.op))], [ast_to_e(n.operand)]]
    if isinstance(n, ast.BoolOp):
        return ['node', ['boolop', isinstance(n.op, ast.Or)], [ast_to_e(v) for v in n.values]]
    if isinstance(n, ast.Compare):
        return ['node', ['cmp', [80 + C09.CMP_AST.index(type(o)) for o in n.ops]], [ast_to_e(n.left)] + [ast_to_e(c) for c in n.comparators]]
    if isinstance(n, ast.IfExp):
        return ['node', ['ifexp'], [ast_to_e(n.body), ast_to_e(n.test), ast_to_e(n.orelse)]]
    if isinstance(n, ast.Lambda):
        a = n.args
        if a.posonlyargs or a.args or a.vararg or a.kwonlyargs or a.kwarg:
            raise KeyError('lambda args')
        return ['node', ['lambda'], [ast_to_e(n.body)]]
    if isinstance(n, ast.Await):
        return ['node', ['await'], [ast_to_e(n.value)]]
    if isinstance(n, ast.Attribute):
        if not (n.attr[0] == 'n' and n.attr[1:].isdigit()):
            raise KeyError('attr')
        return ['node', ['attr', int(n.attr[1:])], [ast_to_e(n.value)]]
    if isinstance(n, ast.Subscript):
        return ['node', ['subscr'], [ast_to_e(n.value), ast_to_e(n.slice)]]
    if isinstance(n, ast.Call):
        if n.keywords:
            raise KeyError('keywords')
        return ['node', ['call', len(n.args), []], [ast_to_e(n.func)] + [ast_to_e(a) for a in n.args]]
    raise KeyError(type(n).__name__)


def _is0(n, col):
    return isinstance(n, ast.Constant) and n.value == 0 and n.col_offset == col


# Contexts: (slot level, prefix, suffix, extractor(tree, col of the `0` in the prefix, col of the `0` in the suffix)).
# The context's grammar nonterminal at the hole is the slot; the extractor returns the hole's node only if CPython read
# the WHOLE text as that one operand (the literals `0` / keywords of the context sit exactly where the context put them).
def _x_test(t, cl, cr):
    return t


def _x_or(t, cl, cr):       # expression: disjunction 'if' <disjunction> 'else' expression
    if isinstance(t, ast.IfExp) and _is0(t.body, cl) and _is0(t.orelse, cr):
        return t.test
    return None


def _x_not(t, cl, cr):      # inversion: 'not' <inversion>
    if isinstance(t, ast.UnaryOp) and isinstance(t.op, ast.Not) and t.col_offset == 1:
        return t.operand
    return None


def _x_bor(t, cl, cr):      # comparison: bitwise_or '<' <bitwise_or>
    if isinstance(t, ast.Compare) and _is0(t.left, cl) and len(t.ops) == 1:
        return t.comparators[0]
    return None


def _bool_right(op):        # disjunction: conjunction 'or' <conjunction>   /   conjunction: inversion 'and' <inversion>
    def x(t, cl, cr):
        if isinstance(t, ast.BoolOp) and isinstance(t.op, op) and len(t.values) == 2 and _is0(t.values[0], cl):
            return t.values[1]
        return None
    return x


def _bin_right(op):
    def x(t, cl, cr):
        if isinstance(t, ast.BinOp) and isinstance(t.op, op) and _is0(t.left, cl):
            return t.right
        return None
    return x


def _bin_left(op):
    def x(t, cl, cr):
        if isinstance(t, ast.BinOp) and isinstance(t.op, op) and _is0(t.right, cr):
            return t.left
        return None
    return x


def _x_await(t, cl, cr):    # await_primary: 'await' <primary>
    if isinstance(t, ast.Await) and t.col_offset == 1:
        return t.value
    return None


CONTEXTS = [
    (TEST, '', '', _x_test),
    (OR, '(0 if ', ' else 0)', _x_or),
    (AND, '(0 or ', ')', _bool_right(ast.Or)),
    (NOT, '(0 and ', ')', _bool_right(ast.And)),
    (NOT, '(not ', ')', _x_not),
    (BOR, '(0 < ', ')', _x_bor),
    (BXOR, '(0 | ', ')', _bin_right(ast.BitOr)),
    (BOR, '(', ' | 0)', _bin_left(ast.BitOr)),
    (BAND, '(0 ^ ', ')', _bin_right(ast.BitXor)),
    (SHIFT, '(0 & ', ')', _bin_right(ast.BitAnd)),
    (ARITH, '(0 << ', ')', _bin_right(ast.LShift)),
    (ARITH, '(', ' - 0)', _bin_left(ast.Sub)),
    (TERM, '(0 - ', ')', _bin_right(ast.Sub)),
    (TERM, '(', ' * 0)', _bin_left(ast.Mult)),
    (FACTOR, '(0 * ', ')', _bin_right(ast.Mult)),
    (FACTOR, '(0 ** ', ')', _bin_right(ast.Pow)),
    (AWAIT, '(', ' ** 0)', _bin_left(ast.Pow)),
    (ATOM, '(await ', ')', _x_await),
]


def cpython_read(toks, context):
    """('ok', tree, node) if CPython reads the text of `toks` as one operand of the context's hole and the tree is in
    the fragment; ('outside', kind) if it is one operand but not of the fragment; ('no', why) otherwise."""
    lvl, pre, suf, ext = context
    text = text_of(toks)
    src = pre + text + suf
    if any(toks[i] == ['sym', T_COMMA] and toks[i + 1] == ['rp'] for i in range(len(toks) - 1)):
        return ('outside', 'trailing comma (not modelled by the spec grammar)')
    try:
        with warnings.catch_warnings():
            warnings.simplefilter('ignore')
            tree = ast.parse(src, mode='eval').body
    except (SyntaxError, ValueError, RecursionError, MemoryError) as ex:
        return ('no', type(ex).__name__)
    cl = pre.index('0') if '0' in pre else -1
    cr = len(pre) + len(text) + suf.index('0') if '0' in suf else -1
    node = ext(tree, cl, cr)
    if node is None:
        return ('no', 'text is not one operand of the hole')
    try:
        return ('ok', ast_to_e(node), node)
    except KeyError as ex:
        return ('outside', str(ex))


# ---------------------------------------------------------------------------------------------------------------------
# raw phrases

def alphabet():
    al = [['name', 0], ['name', 1], ['int', 2], ['lp'], ['rp']]
    al += [['sym', i] for i in range(12)] + [['sym', T_POW]]
    al += [['sym', 30 + i] for i in range(3)] + [['sym', T_NOT], ['sym', T_AWAIT], ['sym', T_LAMBDA], ['sym', T_COLON]]
    al += [['sym', 80 + i] for i in range(10)] + [['sym', 70], ['sym', 71], ['sym', T_IF], ['sym', T_ELSE]]
    al += [['sym', T_DOT], ['sym', T_LB], ['sym', T_RB], ['sym', T_COMMA], ['lp'], ['rp']]
    return al


SMALL = [['name', 0], ['int', 1], ['lp'], ['rp'], ['sym', 6], ['sym', 7], ['sym', T_POW], ['sym', 31], ['sym', T_NOT],
         ['sym', 82], ['sym', 88], ['sym', 86], ['sym', 70], ['sym', 71], ['sym', T_IF], ['sym', T_ELSE], ['sym', T_LAMBDA],
         ['sym', T_COLON], ['sym', T_AWAIT], ['sym', 0], ['sym', T_DOT], ['sym', T_LB], ['sym', T_RB], ['sym', T_COMMA]]


def enumerate_phrases(maxlen):
    cur = [[]]
    for _ in range(maxlen):
        cur = [p + [t] for p in cur for t in SMALL]
        yield from cur


def plausible(rng, n):
    """operand/operator alternation with noise and a stack of open brackets: mostly well-formed-looking phrases"""
    al = alphabet()
    infix = [t for t in al if t[0] == 'sym' and (t[1] < 12 or t[1] == T_POW or 80 <= t[1] < 90 or t[1] in (70, 71))]
    prefix = [['sym', 30], ['sym', 31], ['sym', 32], ['sym', T_NOT], ['sym', T_AWAIT]]
    out = []
    stack = []           # 'g' group, 'c' call, 's' subscript
    want_operand = True
    pending_else = 0
    while len(out) < n:
        r = rng.random()
        if r < 0.03:
            out.append(rng.choice(al))          # noise
            continue
        if want_operand:
            if r < 0.22:
                out.append(rng.choice(prefix))
            elif r < 0.28:
                out += [['sym', T_LAMBDA], ['sym', T_COLON]]
            elif r < 0.40:
                out.append(['lp'])
                stack.append('g')
            else:
                out.append(rng.choice([['name', rng.randrange(4)], ['int', rng.randrange(10)]]))
                want_operand = False
        else:
            if stack and r < 0.22:
                out.append(['sym', T_RB] if stack.pop() == 's' else ['rp'])
            elif stack and stack[-1] == 'c' and r < 0.30:
                out.append(['sym', T_COMMA])
                want_operand = True
            elif r < 0.36:
                out += [['sym', T_DOT], ['name', rng.randrange(4)]]
            elif r < 0.42:
                out.append(['sym', T_LB])
                stack.append('s')
                want_operand = True
            elif r < 0.50:
                out.append(['lp'])
                if rng.random() < 0.3:
                    out.append(['rp'])
                else:
                    stack.append('c')
                    want_operand = True
            elif r < 0.57:
                out.append(['sym', T_IF])
                pending_else += 1
                want_operand = True
            elif pending_else and r < 0.70:
                out.append(['sym', T_ELSE])
                pending_else -= 1
                want_operand = True
            else:
                out.append(rng.choice(infix))
                want_operand = True
    if rng.random() < 0.75:
        if want_operand:
            out.append(['name', 5])
        while pending_else and rng.random() < 0.8:
            out += [['sym', T_ELSE], ['name', 6]]
            pending_else -= 1
        while stack:
            out.append(['sym', T_RB] if stack.pop() == 's' else ['rp'])
    return out


def mutate(rng, toks):
    toks = list(toks)
    al = alphabet()
    for _ in range(rng.choice([1, 1, 2])):
        k = rng.randrange(5)
        if k == 0 and toks:
            del toks[rng.randrange(len(toks))]
        elif k == 1:
            toks.insert(rng.randrange(len(toks) + 1), rng.choice(al))
        elif k == 2 and len(toks) > 1:
            i = rng.randrange(len(toks) - 1)
            toks[i], toks[i + 1] = toks[i + 1], toks[i]
        elif k == 3 and toks:
            toks[rng.randrange(len(toks))] = rng.choice(al)
        else:                                   # drop or add one parenthesis pair
            ps = [i for i, t in enumerate(toks) if t[0] == 'lp']
            if ps and rng.random() < 0.6:
                i = rng.choice(ps)
                d = 0
                for j in range(i, len(toks)):
                    d += toks[j][0] == 'lp'
                    d -= toks[j][0] == 'rp'
                    if d == 0:
                        del toks[j]
                        del toks[i]
                        break
            elif toks:
                i = rng.randrange(len(toks))
                j = rng.randrange(i, len(toks)) + 1
                toks.insert(j, ['rp'])
                toks.insert(i, ['lp'])
    return toks


def raw_phrases(ctx, rng, printed):
    seen = set()
    out = []

    def add(toks, origin):
        toks = relex(toks)
        if not toks or len(toks) > 60:
            return
        key = tuple(tuple(t) for t in toks)
        if key in seen:
            return
        seen.add(key)
        out.append((toks, origin))

    for p in enumerate_phrases(3 if ctx.quick else 4):
        add(p, 'enumerated')
    al = alphabet()
    for _ in range(3000 if ctx.quick else 40000):
        add([rng.choice(al) for _ in range(rng.randint(1, 7))], 'uniform')
    for _ in range(6000 if ctx.quick else 80000):
        add(plausible(rng, rng.randint(1, 14)), 'plausible')
    for toks in printed:
        add(toks, 'printed')
        for _ in range(2 if ctx.quick else 4):
            add(mutate(rng, toks), 'mutated print')
    return out


def raw_vs_cpython(ctx, rng, printed):
    C09 = _c09()
    phrases = raw_phrases(ctx, rng, printed)
    # every phrase is read at the top level (`expression`); phrases the Lean parser accepts there are then read in EVERY
    # context (each operand slot of the ladder), the others in one more random context
    cases0 = [{'f': 'C09c.parse', 'toks': toks, 'slot': {'minLad': TEST}} for toks, _ in phrases]
    outs0 = ctx.lean(cases0)
    cases, meta, outs = [], [], []
    for (toks, origin), o in zip(phrases, outs0):
        meta.append((toks, origin, CONTEXTS[0]))
        outs.append(o)
        acc = o.get('out', o).get('e') is not None
        for cx in (CONTEXTS[1:] if acc else [rng.choice(CONTEXTS[1:])]):
            cases.append({'f': 'C09c.parse', 'toks': toks, 'slot': {'minLad': cx[0]}})
            meta.append((toks, origin, cx))
            outs.append(None)
    it = iter(ctx.lean(cases))
    outs = [o if o is not None else next(it) for o in outs]
    bad = []
    both = 0
    for (toks, origin, cx), o in zip(meta, outs):
        o = o.get('out', o)
        if 'e' not in o:
            bad.append(('driver', toks, o))
            continue
        ctx.corr_cases += 1
        got = cpython_read(toks, cx)
        lean_e = o['e']
        verdict = 'both accept' if (lean_e is not None and got[0] == 'ok') else \
            'both reject' if (lean_e is None and got[0] == 'no') else \
            'outside fragment, Lean rejects' if (lean_e is None and got[0] == 'outside') else 'DISAGREE'
        ctx.tally('c09c_raw_' + origin, verdict)
        ctx.tally('c09c_raw_slot', cx[0])
        ctx.count(('c09c-raw', toks, cx[0]), lean_e is not None)
        if verdict == 'both accept':
            both += 1
            if lean_e != got[1]:
                bad.append(('trees differ', {'toks': toks, 'text': text_of(toks), 'slot': cx[0], 'context': cx[1] + '…' + cx[2]},
                            {'lean': lean_e, 'cpython': got[1]}))
            elif ast.dump(got[2]) != ast.dump(C09.to_ast(lean_e)):     # the bridge itself, through C09's to_ast
                bad.append(('to_ast(lean tree) differs from the CPython node', {'toks': toks, 'text': text_of(toks)},
                            {'lean': lean_e}))
        elif verdict == 'DISAGREE':
            bad.append(('acceptance differs', {'toks': toks, 'text': text_of(toks), 'slot': cx[0], 'context': cx[1] + '…' + cx[2]},
                        {'lean': lean_e, 'cpython': got}))
    ctx.notes['c09c_raw_phrases'] = len(phrases)
    ctx.notes['c09c_raw_phrases_accepted_by_both'] = both
    acc = [m for m, o in zip(meta, outs) if o.get('out', {}).get('e') is not None and m[1] != 'printed']
    if acc:
        m = acc[len(acc) // 2]
        ctx.sample({'c09c_raw_phrase_accepted': {'text': text_of(m[0]), 'slot': m[2][0], 'origin': m[1]}})
    if bad:
        for b in bad[:8]:
            if len(ctx.corr_disagreements) < 20:
                ctx.corr_disagreements.append({'corr': 'C09c Lean parser vs CPython on raw phrases', 'what': b[0], 'case': b[1], 'got': b[2]})
        ctx.brk('correspondence', 'C09c Lean parser (spec grammar) vs CPython parser on raw token lists',
                f'{len(bad)} phrases; first: {bad[0]}')


def correspondence_c09c(ctx):
    rng = random.Random(ctx.rng.random())
    try:
        trees_roundtrip(ctx, rng)
    except Exception as ex:
        import traceback
        ctx.brk('correspondence', 'C09c round trip', 'harness/driver error: ' + traceback.format_exc()[-1500:])
    # printed phrases of fresh trees seed the raw-phrase generator (and their mutations)
    g = Gen(rng)
    trees = [g.rand(rng.choice([2, 3, 4])) for _ in range(400 if ctx.quick else 4000)]
    try:
        outs = ctx.lean([{'f': 'C09c.roundtrip', 'e': e, 'slot': {'minLad': 0}, 'seed': rng.choice([0, 0, 3]), 'rest': []}
                         for e in trees])
        printed = [o.get('out', o)['toks'] for o in outs]
        raw_vs_cpython(ctx, rng, printed)
    except Exception:
        import traceback
        ctx.brk('correspondence', 'C09c raw phrases', 'harness/driver error: ' + traceback.format_exc()[-1500:])
