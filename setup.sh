#!/bin/bash
# Build the Lean library, the property theorems and the native driver from files on disk only (offline).
set -e
here="$(cd "$(dirname "${BASH_SOURCE[0]}")" && pwd)"
cd "$here"
/venv/bin/python -B -c "import sys; sys.path.insert(0, 'harness'); import framework; framework.gen_drv_index()"
cd lean
lake build driver Pfst 2>&1 | tail -5
