#!/bin/bash
# Build the Lean library, the property theorems and the native driver from files on disk only (offline).
# Tables under lean/Pfst/Gen are regenerated from /repo's working tree first.
set -e
here="$(cd "$(dirname "${BASH_SOURCE[0]}")" && pwd)"
cd "$here"
export PYTHONDONTWRITEBYTECODE=1
/venv/bin/python -B harness/extract_all.py
cd lean
lake build driver Pfst 2>&1 | tail -5
